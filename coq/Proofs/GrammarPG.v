(* The particle-Gibbs assembly instantiated with the real grammar: the state space is the set of clone forests over n data
   points (as relation tables), the auxiliary variable ranges over all n! data orders with the uniform law on the
   compatible ones, the alphabet at every step is C08's [all_places].  Premises (i) "complete paths along an order =
   forests compatible with it" and (iii) "order densities sum to one" of [pg_update_invariant], and the retained-path
   premise, are PROVED here (from Grammar{Sound,Complete,Unique}); what remains are the proposal's positivity and unit
   mass over [all_places] (C08) and the weights being target ratios (C08_weights_telescope / C03). *)
From PV Require Import Model.Grammar Model.Perm Model.Csmc Proofs.ProposalsPoint Proofs.PermNoDup Proofs.PermSound Proofs.PermComplete
  Proofs.GrammarSound Proofs.GrammarComplete Proofs.GrammarUnique Proofs.GrammarTable Proofs.CsmcSupport Proofs.CsmcInvariant Proofs.CsmcTarget Proofs.PgAssembly.
From Coq Require Import Bool Permutation.

Lemma filter_unique {X} (f : X -> bool) (p : X) : forall l, NoDup l -> In p l -> f p = true ->
  (forall q, In q l -> f q = true -> q = p) -> filter f l = [p].
Proof.
  induction l as [|a l IH]; intros Hnd Hin Hp Hu; [contradiction|]. inversion Hnd as [|? ? Ha Hnd']; subst. cbn [filter].
  destruct Hin as [->|Hin].
  - rewrite Hp. f_equal. destruct (filter f l) as [|q rest] eqn:Ef; [reflexivity|]. exfalso.
    assert (Hq : In q (filter f l)) by (rewrite Ef; left; reflexivity). apply filter_In in Hq. destruct Hq as [Hq1 Hq2].
    rewrite (Hu q (or_intror Hq1) Hq2) in Hq1. contradiction.
  - destruct (f a) eqn:Ea.
    + exfalso. rewrite (Hu a (or_introl eq_refl) Ea) in Ha. contradiction.
    + apply IH; try assumption. intros q Hq. apply Hu. right. exact Hq.
Qed.

Lemma sum_indicator {X} (b : X -> bool) (c : Qc) (l : list X) :
  sumq (map (fun x => if b x then c else 0) l) = qn (length (filter b l)) * c.
Proof.
  induction l as [|a l IH]; cbn [map sumq filter length]; [rewrite qn_0; ring|].
  rewrite IH. destruct (b a); cbn [length]; [rewrite qn_S; ring| ring].
Qed.

Section Inst.
Variable n : nat.
Variable on : bool.

Definition gorders : list (list nat) := perms (seq 0 n).
Definition gdec (sg : list nat) (p : list place) : list (list bool) := tab n (gle (gstate sg p)).
Definition gpaths (sg : list nat) : list (list place) := conts (gsup on sg) n [].
(* the state space: every forest the grammar can build along some order (characterised below and in GrammarForests.v) *)
Definition forests : list (list (list bool)) :=
  nodup teq (flat_map (fun sg => map (fun path => gdec sg (rev path)) (gpaths sg)) gorders).
Definition cb (sg : list nat) (t : list (list bool)) : bool := compat_b (rev sg) (tget t).
Definition gcount (t : list (list bool)) : nat := length (filter (fun sg => cb sg t) gorders).
(* conditional law of the order given the forest: uniform on the compatible orders (C09) *)
Definition gcden (sg : list nat) (t : list (list bool)) : Qc := if cb sg t then / qn (gcount t) else 0.
(* the retained path of a forest along an order: the word that builds it *)
Definition genc (sg : list nat) (t : list (list bool)) : list place :=
  hd [] (filter (fun path => if teq (gdec sg (rev path)) t then true else false) (gpaths sg)).

Lemma order_facts sg : In sg gorders -> NoDup sg /\ length sg = n /\ (forall x, In x sg <-> (x < n)%nat).
Proof.
  intros H. apply perms_perm in H. split; [|split].
  - eapply Permutation_NoDup; [exact H| apply seq_NoDup].
  - rewrite <- (Permutation_length H). apply seq_length.
  - intros x. split; intros Hx.
    + apply Permutation_sym in H. apply (Permutation_in _ H) in Hx. apply in_seq in Hx. lia.
    + apply (Permutation_in _ H). apply in_seq. lia.
Qed.
Lemma gdec_rev sg w : gdec sg (rev w) = tab n (gle (grun g0 sg w)).
Proof. unfold gdec, gstate. rewrite rev_involutive. reflexivity. Qed.
Lemma gpaths_valid sg w : In sg gorders -> (In w (gpaths sg) <-> gvalid on g0 sg w).
Proof. intros H. destruct (order_facts sg H) as [_ [Hl _]]. unfold gpaths. rewrite <- Hl. apply paths_valid. Qed.

Lemma reach_props sg w : In sg gorders -> gvalid on g0 sg w ->
  wf sg (gle (grun g0 sg w)) /\ compat (rev sg) (gle (grun g0 sg w))
  /\ (forall x y, tget (tab n (gle (grun g0 sg w))) x y = gle (grun g0 sg w) x y)
  /\ (on = false -> no_outliers sg (gle (grun g0 sg w))).
Proof.
  intros Hsg Hv. destruct (order_facts sg Hsg) as [Hnd [Hl Hin]].
  destruct (grammar_sound on sg w Hnd Hv) as [Hwf Hc]. split; [exact Hwf| split; [exact Hc| split]].
  - apply tget_tab_all. intros x y H. destruct (wf_dom _ _ Hwf x y H) as [H1 H2]. split; apply Hin; assumption.
  - intros -> x Hx.
    destruct (grun_inv false sg w g0 ginv_g0 Hnd (fun _ _ H => H) Hv) as [_ Hpl]. cbn [g0 gpl] in Hpl. rewrite app_nil_r in Hpl.
    apply (grun_noout sg w g0 Hnd (fun _ _ H => H) Hv); [intros p []|]. rewrite Hpl. rewrite <- in_rev. exact Hx.
Qed.

Lemma in_forests t : In t forests <-> exists sg w, In sg gorders /\ gvalid on g0 sg w /\ t = tab n (gle (grun g0 sg w)).
Proof.
  unfold forests. rewrite nodup_In, in_flat_map. split.
  - intros [sg [Hsg Ht]]. apply in_map_iff in Ht. destruct Ht as [w [<- Hw]]. exists sg, w.
    split; [exact Hsg| split; [apply (gpaths_valid sg w Hsg); exact Hw| apply gdec_rev]].
  - intros [sg [w [Hsg [Hv ->]]]]. exists sg. split; [exact Hsg|]. apply in_map_iff. exists w.
    split; [apply gdec_rev| apply (gpaths_valid sg w Hsg); exact Hv].
Qed.

Lemma cb_of_reach sg w : In sg gorders -> gvalid on g0 sg w -> cb sg (tab n (gle (grun g0 sg w))) = true.
Proof.
  intros Hsg Hv. destruct (reach_props sg w Hsg Hv) as [_ [Hc [Ht _]]]. unfold cb. apply compat_b_spec.
  apply (compat_ext _ (gle (grun g0 sg w))); [|exact Hc]. intros a b _ _. symmetry. apply Ht.
Qed.

Lemma reach_of_cb sg t : In sg gorders -> In t forests -> cb sg t = true ->
  exists w, gvalid on g0 sg w /\ t = tab n (gle (grun g0 sg w)).
Proof.
  intros Hsg Ht Hcb. apply in_forests in Ht. destruct Ht as [sg' [w' [Hsg' [Hv' ->]]]].
  destruct (reach_props sg' w' Hsg' Hv') as [Hwf' [_ [Htg Hno']]].
  destruct (order_facts sg Hsg) as [Hnd [_ Hin]]. destruct (order_facts sg' Hsg') as [_ [_ Hin']].
  set (r' := gle (grun g0 sg' w')) in *.
  assert (Hsub : forall x, In x sg' -> In x sg) by (intros x Hx; apply Hin; apply Hin'; exact Hx).
  destruct (grammar_complete on sg (tget (tab n r'))) as [w [Hv Heq]].
  - exact Hnd.
  - apply (wf_ext sg sg' _ r'); [exact Htg| exact Hsub| exact Hwf'].
  - intros Hon x Hx. rewrite Htg. apply (Hno' Hon). apply Hin'. apply Hin. exact Hx.
  - apply compat_b_spec. exact Hcb.
  - exists w. split; [exact Hv|]. apply tab_ext. intros x y _ _. rewrite Heq. symmetry. apply Htg.
Qed.

Lemma gdec_inj sg w1 w2 : In sg gorders -> gvalid on g0 sg w1 -> gvalid on g0 sg w2 ->
  tab n (gle (grun g0 sg w1)) = tab n (gle (grun g0 sg w2)) -> w1 = w2.
Proof.
  intros Hsg V1 V2 He. destruct (order_facts sg Hsg) as [Hnd _].
  destruct (reach_props sg w1 Hsg V1) as [_ [_ [T1 _]]]. destruct (reach_props sg w2 Hsg V2) as [_ [_ [T2 _]]].
  apply (grammar_unique on sg w1 w2 Hnd V1 V2). intros p q. rewrite <- T1, <- T2, He. reflexivity.
Qed.

Lemma gcount_pos sg t : In sg gorders -> cb sg t = true -> (0 < gcount t)%nat.
Proof.
  intros Hsg Hcb. unfold gcount.
  assert (H : In sg (filter (fun sg => cb sg t) gorders)) by (apply filter_In; auto).
  destruct (filter (fun sg => cb sg t) gorders); [contradiction| cbn [length]; lia].
Qed.
Lemma compatb_cb sg t : In sg gorders -> compatb gcden sg t = cb sg t.
Proof.
  intros Hsg. unfold compatb, gcden. destruct (cb sg t) eqn:E.
  - destruct (Qc_eq_bool (/ qn (gcount t)) 0) eqn:Eq; [|reflexivity]. exfalso.
    apply Qc_eq_bool_correct in Eq. pose proof (Qc_inv_pos _ (qn_pos _ (gcount_pos sg t Hsg E))) as Hp. rewrite Eq in Hp. discriminate.
  - unfold Qc_eq_bool. destruct (Qc_eq_dec 0 0); [reflexivity| congruence].
Qed.

Lemma gpaths_NoDup sg : NoDup (gpaths sg).
Proof. apply conts_NoDup. intros x. apply all_places_NoDup. Qed.

Lemma g_reach sg : In sg gorders ->
  Permutation (map (fun path => gdec sg (rev path)) (gpaths sg)) (filter (compatb gcden sg) forests).
Proof.
  intros Hsg. apply NoDup_Permutation.
  - apply NoDup_map_inj; [|apply gpaths_NoDup]. intros w1 w2 H1 H2 He. rewrite !gdec_rev in He.
    apply (gdec_inj sg w1 w2 Hsg); [apply (gpaths_valid sg w1 Hsg); exact H1| apply (gpaths_valid sg w2 Hsg); exact H2| exact He].
  - apply NoDup_filter. apply NoDup_nodup.
  - intros t. rewrite filter_In, in_map_iff. split.
    + intros [w [<- Hw]]. apply (gpaths_valid sg w Hsg) in Hw. rewrite gdec_rev. split.
      * apply in_forests. exists sg, w. auto.
      * rewrite compatb_cb by exact Hsg. apply cb_of_reach; assumption.
    + intros [Ht Hc]. rewrite compatb_cb in Hc by exact Hsg. destruct (reach_of_cb sg t Hsg Ht Hc) as [w [Hv ->]].
      exists w. split; [apply gdec_rev| apply (gpaths_valid sg w Hsg); exact Hv].
Qed.

Lemma g_enc sg path : In sg gorders -> In path (gpaths sg) -> genc sg (gdec sg (rev path)) = path.
Proof.
  intros Hsg Hp. unfold genc. rewrite (filter_unique _ path); [reflexivity| apply gpaths_NoDup| exact Hp| |].
  - destruct (teq (gdec sg (rev path)) (gdec sg (rev path))); [reflexivity| congruence].
  - intros q Hq Hf. destruct (teq (gdec sg (rev q)) (gdec sg (rev path))) as [He|]; [|discriminate].
    rewrite !gdec_rev in He. apply (gdec_inj sg q path Hsg); [apply (gpaths_valid sg q Hsg); exact Hq| apply (gpaths_valid sg path Hsg); exact Hp| exact He].
Qed.

Lemma g_cden_sum t : In t forests -> sumq (map (fun sg => gcden sg t) gorders) = 1.
Proof.
  intros Ht. unfold gcden. rewrite (sum_indicator (fun sg => cb sg t)). fold (gcount t).
  apply in_forests in Ht. destruct Ht as [sg [w [Hsg [Hv ->]]]].
  pose proof (gcount_pos sg _ Hsg (cb_of_reach sg w Hsg Hv)) as Hpos.
  field. apply Qc_pos_neq0. apply qn_pos. exact Hpos.
Qed.

(* The particle-Gibbs update over the real grammar leaves gamma invariant on the set of clone forests: the only premises
   left are about the proposal (positive, unit mass over all_places: C08), the symmetric resampling criterion, and the
   weights being ratios of targets whose last one is gamma x (1 / number of compatible orders) (C08/C09/C03). *)
Theorem pg_update_invariant_grammar :
  forall (gam : list (list bool) -> Qc) (qp : list nat -> list place -> place -> Qc) (g : list nat -> list place -> Qc)
         (rs : @swarm place -> bool) (N : nat) (ops : list op),
    S (count_upd ops) = n ->
    (forall sg p a, 0 < qp sg p a) -> (forall sg p, 0 < g sg p) ->
    (forall sg p, sumq (map (qp sg p) (gsup on sg p)) = 1) ->
    (forall m s, rs (bring m s) = rs s) ->
    (forall sg path, In sg gorders -> In path (gpaths sg) ->
       g sg (rev path) = gam (gdec sg (rev path)) * gcden sg (gdec sg (rev path))) ->
    invariant (wlist gam forests) (pg_update gorders gcden (gsup on) qp g gdec genc rs N ops).
Proof.
  intros gam qp g rs N ops Hn Hq Hg Hm Hrs Htarget.
  apply pg_update_invariant; try assumption.
  - exact g_cden_sum.
  - intros sg Hsg. unfold paths. rewrite Hn. apply g_reach. exact Hsg.
  - intros sg path Hsg Hp. unfold paths in Hp. rewrite Hn in Hp. apply g_enc; assumption.
  - intros sg path Hsg Hp. unfold paths in Hp. rewrite Hn in Hp. apply Htarget; assumption.
Qed.
(* the update is total on the state space: from every forest it returns a tree with probability one (no step loses mass,
   i.e. no exception path in the model) *)
Theorem pg_update_mass_grammar :
  forall (gam : list (list bool) -> Qc) (qp : list nat -> list place -> place -> Qc) (g : list nat -> list place -> Qc)
         (rs : @swarm place -> bool) (N : nat) (ops : list op),
    S (count_upd ops) = n ->
    (forall sg p a, 0 < qp sg p a) -> (forall sg p, 0 < g sg p) ->
    (forall sg p, sumq (map (qp sg p) (gsup on sg p)) = 1) ->
    forall t, In t forests -> mass (pg_update gorders gcden (gsup on) qp g gdec genc rs N ops t) = 1.
Proof.
  intros gam qp g rs N ops Hn Hq Hg Hm t Ht. unfold mass, pg_update. rewrite E_bind, E_wlist.
  rewrite (sumq_map_ext _ (fun sg => gcden sg t)); [apply g_cden_sum; exact Ht|]. intros sg Hsg.
  unfold gcden. destruct (cb sg t) eqn:Hcb; [|ring].
  destruct (reach_of_cb sg t Hsg Ht Hcb) as [w [Hv Hw]].
  assert (Henc : genc sg t = w).
  { rewrite Hw, <- gdec_rev. apply g_enc; [exact Hsg| apply (gpaths_valid sg w Hsg); exact Hv]. }
  unfold K_sigma. rewrite E_dmap. fold (mass (pg_kernel (q_of (gsup on sg) (qp sg)) (om_of (qp sg) (g sg)) rs N ops (genc sg t))).
  rewrite (pg_kernel_mass (q_of (gsup on sg) (qp sg)) (om_of (qp sg) (g sg)) rs N).
  - ring.
  - apply om_of_pos; [apply Hq| apply Hg].
  - intros p. apply q_of_mass. apply Hm.
  - rewrite Henc, (gvalid_length _ _ _ _ Hv). destruct (order_facts sg Hsg) as [_ [Hl _]]. rewrite Hl. symmetry. exact Hn.
Qed.

(* ---- a closed instance for every n: uniform proposals over the real alphabet, weights = ratios of a target whose last
   value is gamma x order density.  No premise about the proposal or the weights is left. ---- *)
Definition upos (x : Qc) : Qc := if Qc_eq_bool x 0 then 1 else x.
Lemma upos_pos x : 0 <= x -> 0 < upos x.
Proof.
  intros H. unfold upos. destruct (Qc_eq_bool x 0) eqn:E; [reflexivity|].
  destruct (Qcle_lt_or_eq _ _ H) as [Hlt|He]; [exact Hlt|]. subst x.
  unfold Qc_eq_bool in E. destruct (Qc_eq_dec 0 0); [discriminate| congruence].
Qed.
Lemma upos_id x : 0 < x -> upos x = x.
Proof.
  intros H. unfold upos. destruct (Qc_eq_bool x 0) eqn:E; [|reflexivity].
  apply Qc_eq_bool_correct in E. subst x. discriminate.
Qed.
Lemma all_places_nonempty R b : (0 < length (all_places R b))%nat.
Proof.
  pose proof (new_in_places R b (fun _ => false)) as H. destruct (all_places R b); [contradiction| cbn [length]; lia].
Qed.
Lemma gcden_nonneg sg t : 0 <= gcden sg t.
Proof.
  unfold gcden. destruct (cb sg t); [|discriminate]. destruct (gcount t) as [|k]; [discriminate|].
  apply Qc_lt_le. apply Qc_inv_pos. apply qn_pos. lia.
Qed.

Variable gam : list (list bool) -> Qc.
Hypothesis gam_pos : forall t, 0 < gam t.
Definition uq (sg : list nat) (p : list place) (_ : place) : Qc := / qn (length (gsup on sg p)).
Definition gtarget (sg : list nat) (p : list place) : Qc :=
  if length p =? n then upos (gam (gdec sg p) * gcden sg (gdec sg p)) else 1.

Lemma gtarget_pos sg p : 0 < gtarget sg p.
Proof.
  unfold gtarget. destruct (length p =? n); [|reflexivity]. apply upos_pos.
  apply Qc_mul_nonneg; [apply Qc_lt_le; apply gam_pos| apply gcden_nonneg].
Qed.
Lemma gtarget_final sg path : In sg gorders -> In path (gpaths sg) ->
  gtarget sg (rev path) = gam (gdec sg (rev path)) * gcden sg (gdec sg (rev path)).
Proof.
  intros Hsg Hp. pose proof (proj1 (gpaths_valid sg path Hsg) Hp) as Hv.
  pose proof (gvalid_length _ _ _ _ Hv) as Hl. destruct (order_facts sg Hsg) as [_ [Hls _]].
  unfold gtarget. rewrite rev_length, Hl, Hls, Nat.eqb_refl. apply upos_id.
  apply Qc_mul_pos; [apply gam_pos|]. rewrite gdec_rev. unfold gcden. rewrite (cb_of_reach sg path Hsg Hv).
  apply Qc_inv_pos. apply qn_pos. apply (gcount_pos sg); [exact Hsg| apply cb_of_reach; assumption].
Qed.

Theorem pg_update_grammar_closed (rs : @swarm place -> bool) (N : nat) (ops : list op) :
  S (count_upd ops) = n -> (forall m s, rs (bring m s) = rs s) ->
  invariant (wlist gam forests) (pg_update gorders gcden (gsup on) uq gtarget gdec genc rs N ops).
Proof.
  intros Hn Hrs. apply pg_update_invariant_grammar; try assumption.
  - intros sg p a. unfold uq. apply Qc_inv_pos. apply qn_pos. apply all_places_nonempty.
  - exact gtarget_pos.
  - intros sg p. unfold uq. rewrite sumq_map_const. field. apply Qc_pos_neq0. apply qn_pos. apply all_places_nonempty.
  - exact gtarget_final.
Qed.
End Inst.
