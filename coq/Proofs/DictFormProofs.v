(* C15, dictionary round trip: from_dict (to_dict g) is the freshly rebuilt version of the tree g denotes,
   for every well-formed index-level state (holes, outlier-only trees included). *)
From PV Require Import Model.LTree Model.DictForm Proofs.LTreeBase Proofs.LTreeCons.
Open Scope nat_scope.

Lemma name_eqb_eq a b : name_eqb a b = true <-> a = b.
Proof.
  destruct a, b; cbn; split; intros H; try discriminate; try reflexivity.
  - apply Nat.eqb_eq in H. subst. reflexivity.
  - inversion H; subst. apply Nat.eqb_refl.
Qed.
Lemma name_eqb_refl a : name_eqb a a = true.
Proof. apply name_eqb_eq. reflexivity. Qed.
Lemma data_of_In nm dl m : NoDup (map fst m) -> In (nm, dl) m -> data_of nm m = dl.
Proof.
  induction m as [|[k v] m IH]; cbn [map fst data_of]; intros Hnd Hin; [destruct Hin|]. inversion Hnd; subst.
  destruct Hin as [E|Hin].
  - inversion E; subst. rewrite name_eqb_refl. reflexivity.
  - destruct (name_eqb k nm) eqn:Ek; [|auto]. apply name_eqb_eq in Ek. subst. exfalso. apply H1.
    apply (in_map fst) in Hin. exact Hin.
Qed.
Lemma filter_id {A} (f : A -> bool) l : (forall x, In x l -> f x = true) -> filter f l = l.
Proof.
  induction l as [|x l IH]; intros H; cbn [filter]; [reflexivity|]. rewrite (H x) by (left; reflexivity).
  f_equal. apply IH. intros y Hy. apply H. right. exact Hy.
Qed.
Lemma mapM_map {A B C} (f : A -> option B) (g : A -> option C) (h : B -> C) l bs :
  (forall a b, In a l -> f a = Some b -> g a = Some (h b)) -> mapM f l = Some bs -> mapM g l = Some (map h bs).
Proof.
  revert bs; induction l as [|a l IH]; intros bs H E; cbn [mapM] in *.
  - inversion E; subst. reflexivity.
  - destruct (f a) as [b|] eqn:Ea; [|discriminate]. destruct (mapM f l) as [bs'|] eqn:El; [|discriminate].
    inversion E; subst. rewrite (H a b) by (auto; left; reflexivity). rewrite (IH bs') by (auto; intros; apply H; auto; right; assumption).
    reflexivity.
Qed.
Lemma max_index_ge edges e : In e edges -> fst e <= max_index edges /\ snd e <= max_index edges.
Proof.
  induction edges as [|x edges IH]; intros H; [destruct H|]. cbn [max_index fold_right]. fold (max_index edges).
  destruct H as [<-|H]; [lia|]. destruct (IH H). lia.
Qed.

Section DP.
Variable Sf : list vec -> vec.
Variable prior : vec.
Variable vone : vec.
Notation rraw := (rraw vone).
Notation new_payload := (new_payload prior vone).
Notation root_payload := (root_payload prior vone).
Notation from_dict_graph := (from_dict_graph prior vone).
Notation from_dict := (from_dict Sf prior vone).

(* the tree a rebuilt graph denotes before update(): payloads straight from the data lists *)
Fixpoint raw_n (n : lnode) : lnode :=
  match n with LNode l o _ _ ks => LNode l o (pfresh prior o) (rraw o) (map raw_n ks) end.
Lemma update_raw_n : forall n, update_n Sf (raw_n n) = fresh_n Sf prior n.
Proof.
  induction n as [l o p r ks IH] using lnode_ind'. cbn [raw_n update_n fresh_n].
  assert (E : map (update_n Sf) (map raw_n ks) = map (fresh_n Sf prior) ks).
  { rewrite map_map. apply map_ext_in. rewrite Forall_forall in IH. exact IH. }
  rewrite E. reflexivity.
Qed.

(* ---- attaching the payloads ---------------------------------------------------------------------------- *)
Section Attach.
Variable n2i : list (name * nat).
Lemma attach_fold : forall (data : list (name * list dp)) (n : nodemap) (D : nat -> Prop),
  (forall i, D i -> n i <> None) ->
  NoDup (map fst data) ->
  (forall l dl, In (NClone l, dl) data -> exists i, lookup_n (NClone l) n2i = Some i /\ D i) ->
  exists n', fold_left (attach prior vone n2i) data (Some n) = Some n'
    /\ (forall i, D i -> n' i <> None)
    /\ (forall j, (forall l dl, In (NClone l, dl) data -> lookup_n (NClone l) n2i <> Some j) -> n' j = n j)
    /\ (forall l dl j, In (NClone l, dl) data -> lookup_n (NClone l) n2i = Some j ->
          (forall l' dl', In (NClone l', dl') data -> lookup_n (NClone l') n2i = Some j -> l' = l) ->
          n' j = Some (Some (new_payload (NClone l) dl))).
Proof.
  induction data as [|[nm dl0] data IH]; intros n D HD Hnd Hmap; cbn [fold_left].
  - exists n. repeat split; auto. intros l dl j [].
  - cbn [map fst] in Hnd. inversion Hnd as [|? ? Hnotin Hnd']; subst.
    assert (Hmap' : forall l dl, In (NClone l, dl) data -> exists i, lookup_n (NClone l) n2i = Some i /\ D i)
      by (intros; eapply Hmap; right; eauto).
    destruct nm as [| |l0].
    + (* root key: skipped *)
      cbn [attach fst]. destruct (IH n D HD Hnd' Hmap') as [n' [E [H1 [H2 H3]]]]. exists n'. repeat split; auto.
      * intros j Hj. apply H2. intros l dl Hin. apply (Hj l dl). right. exact Hin.
      * intros l dl j [Hin|Hin] Hl Hu; [discriminate|]. apply H3; auto. intros l' dl' Hin'. apply (Hu l' dl'). right. exact Hin'.
    + cbn [attach fst]. destruct (IH n D HD Hnd' Hmap') as [n' [E [H1 [H2 H3]]]]. exists n'. repeat split; auto.
      * intros j Hj. apply H2. intros l dl Hin. apply (Hj l dl). right. exact Hin.
      * intros l dl j [Hin|Hin] Hl Hu; [discriminate|]. apply H3; auto. intros l' dl' Hin'. apply (Hu l' dl'). right. exact Hin'.
    + destruct (Hmap l0 dl0 (or_introl eq_refl)) as [i0 [Hl0 HD0]].
      cbn [attach fst snd]. rewrite Hl0. destruct (n i0) as [v|] eqn:En; [|exfalso; apply (HD i0 HD0); exact En].
      set (n1 := set_node n i0 (Some (new_payload (NClone l0) dl0))).
      assert (HD1 : forall i, D i -> n1 i <> None).
      { intros i Hi. unfold n1, set_node. destruct (i =? i0); [discriminate| apply HD; exact Hi]. }
      destruct (IH n1 D HD1 Hnd' Hmap') as [n' [E [H1 [H2 H3]]]]. exists n'. repeat split; auto.
      * intros j Hj. rewrite H2 by (intros l dl Hin; apply (Hj l dl); right; exact Hin).
        unfold n1, set_node. destruct (j =? i0) eqn:Ej; [|reflexivity]. apply Nat.eqb_eq in Ej. subst.
        exfalso. apply (Hj l0 dl0); [left; reflexivity| exact Hl0].
      * intros l dl j [Hin|Hin] Hl Hu.
        -- inversion Hin; subst. assert (j = i0) by congruence. subst j.
           (* no later entry maps to i0: it would have the same name, but names are distinct keys *)
           rewrite H2.
           ++ unfold n1, set_node. rewrite Nat.eqb_refl. reflexivity.
           ++ intros l' dl' Hin' Hl'. assert (l' = l) by (apply (Hu l' dl'); [right; exact Hin'| exact Hl']). subst l'.
              apply Hnotin. apply (in_map fst) in Hin'. exact Hin'.
        -- apply H3; auto. intros l' dl' Hin'. apply (Hu l' dl'). right. exact Hin'.
Qed.
End Attach.

(* ---- the rebuilt graph ----------------------------------------------------------------------------------- *)
Notation rebuild := (rebuild prior vone).
Lemma rebuild_spec g : gwf g ->
  exists n2, rebuild (to_dict g)
             = Some (mkG (fun i => if mapped (g_i2n g) i then n2 i else None) (g_edges g) (g_n2i g) (g_i2n g) (g_data g) (g_last g))
    /\ n2 0 = Some (Some root_payload)
    /\ (forall i l, lookup_i i (g_i2n g) = Some (NClone l) ->
          n2 i = Some (Some (new_payload (NClone l) (data_of (NClone l) (g_data g))))).
Proof.
  intros [Hroot [Hnd [Hd2i [Hi2d [Hedges Hzero]]]]].
  unfold DictForm.rebuild, to_dict. cbn [d_edges d_n2i d_i2n d_data d_last].
  set (M := max_index (g_edges g)).
  set (n1 := fun i : nat => if i =? 0 then Some (Some root_payload) else if i <=? M then Some None else None).
  destruct (attach_fold (g_n2i g) (g_data g) n1 (fun i => i <= M)) as [n2 [Efold [Hdom [Hsame Hpay]]]].
  { intros i Hi. unfold n1. destruct (i =? 0); [discriminate|]. apply Nat.leb_le in Hi. rewrite Hi. discriminate. }
  { exact Hnd. }
  { intros l dl Hin. destruct (Hd2i l dl Hin) as [i [H1 [H2 [H3 H4]]]]. exists i. split; [exact H1|].
    apply in_map_iff in H3. destruct H3 as [e [<- He]]. apply (max_index_ge _ _ He). }
  exists n2. rewrite Efold. split; [|split].
  - f_equal. f_equal. apply filter_id. intros e He. destruct (Hedges e He) as [A B]. rewrite A, B. reflexivity.
  - rewrite Hsame; [reflexivity|]. intros l dl Hin Hl. destruct (Hd2i l dl Hin) as [i [H1 [_ [_ H4]]]]. congruence.
  - intros i l Hi. destruct (Hi2d i l Hi) as [H1 H2]. apply in_map_iff in H2. destruct H2 as [[nm dl] [Enm Hin]].
    cbn [fst] in Enm. subst nm. rewrite (data_of_In _ _ _ Hnd Hin). apply (Hpay l dl i Hin H1).
    intros l' dl' Hin' Hl'. destruct (Hd2i l' dl' Hin') as [i' [A1 [A2 _]]]. assert (i' = i) by congruence. subst i'. congruence.
Qed.

Lemma abs_n_rebuilt g n2 :
  (forall i l, lookup_i i (g_i2n g) = Some (NClone l) ->
      n2 i = Some (Some (new_payload (NClone l) (data_of (NClone l) (g_data g))))) ->
  let g1 := mkG (fun i => if mapped (g_i2n g) i then n2 i else None) (g_edges g) (g_n2i g) (g_i2n g) (g_data g) (g_last g) in
  forall f i n, abs_n f g i = Some n -> abs_n f g1 i = Some (raw_n n).
Proof.
  intros Hn2 g1. induction f as [|f IH]; intros i n E; cbn [abs_n] in *; [discriminate|].
  destruct (g_nodes g i) as [[pl|]|]; try discriminate.
  destruct (lookup_i i (g_i2n g)) as [[| |l]|] eqn:Ei; try discriminate.
  destruct (mapM (abs_n f g) (children (g_edges g) i)) as [ks|] eqn:Ek; [|discriminate]. inversion E; subst n.
  unfold g1 at 1 2. cbn [g_nodes g_i2n g_edges g_data]. unfold mapped. rewrite Ei, (Hn2 i l Ei).
  change (g_edges g1) with (g_edges g). change (g_data g1) with (g_data g).
  rewrite (mapM_map _ (abs_n f g1) raw_n _ _ (fun a b _ H => IH a b H) Ek). reflexivity.
Qed.

(* ---- the round trip ----------------------------------------------------------------------------------- *)
Theorem dict_roundtrip g t : gwf g -> abs g = Some t -> from_dict (to_dict g) = Some (fresh Sf prior t).
Proof.
  intros Hwf Habs. pose proof Hwf as [Hroot [Hnd [Hd2i [Hi2d [Hedges Hzero]]]]].
  unfold abs in Habs. rewrite Hroot in Habs.
  destruct (g_nodes g 0) as [[pl0|]|] eqn:E0; try discriminate.
  destruct (mapM (abs_n (fuel_of g) g) (children (g_edges g) 0)) as [rs|] eqn:Ers; [|discriminate].
  inversion Habs; subst t. clear Habs.
  unfold DictForm.from_dict, DictForm.from_dict_graph.
  destruct (d_edges (to_dict g)) as [|e0 es0] eqn:Eedges.
  - (* no edges: no clones; the rebuilt graph is the bare root *)
    cbn [to_dict d_edges] in Eedges. rewrite Eedges in Ers. cbn [children filter map mapM] in Ers. inversion Ers; subst rs.
    unfold abs, bare_root, to_dict. cbn [g_n2i g_nodes g_edges g_data g_last d_n2i d_i2n d_data d_last]. rewrite Hroot.
    cbn [Nat.eqb children filter map mapM option_map]. reflexivity.
  - clear Eedges. destruct (rebuild_spec g Hwf) as [n2 [Er [H0 Hn2]]]. rewrite Er.
    unfold abs. cbn [g_n2i g_nodes g_edges g_data g_last]. rewrite Hroot. unfold mapped at 1. rewrite Hzero, H0.
    pose proof (abs_n_rebuilt g n2 Hn2) as Hk. cbn zeta in Hk.
    change (fuel_of _) with (fuel_of g).
    rewrite (mapM_map _ _ raw_n _ _ (fun a b _ H => Hk (fuel_of g) a b H) Ers).
    cbn [option_map]. f_equal. unfold update, fresh, set_root. cbn [troots outl last pl_r root_payload].
    assert (E : map (update_n Sf) (map raw_n rs) = map (fresh_n Sf prior) rs).
    { rewrite map_map. apply map_ext. apply update_raw_n. }
    rewrite E. reflexivity.
Qed.

(* with sound caches the round trip is the identity on everything a density or a further edit can see *)
End DP.

(* ---- the boolean well-formedness check is sound ------------------------------------------------------- *)
Lemma opt_nat_eqb_eq a b : opt_nat_eqb a b = true -> a = Some b.
Proof. destruct a; cbn; [|discriminate]. intros H. apply Nat.eqb_eq in H. subst. reflexivity. Qed.
Lemma opt_name_eqb_eq a b : opt_name_eqb a b = true -> a = Some b.
Proof. destruct a; cbn; [|discriminate]. intros H. apply name_eqb_eq in H. subst. reflexivity. Qed.
Lemma nodup_names_sound l : nodup_names l = true -> NoDup l.
Proof.
  induction l as [|x l IH]; cbn [nodup_names]; intros H; [constructor|]. apply andb_true_iff in H. destruct H as [H1 H2].
  constructor; [|auto]. intros Hin. apply negb_true_iff in H1. assert (existsb (name_eqb x) l = true); [|congruence].
  apply existsb_exists. exists x. split; [exact Hin| apply name_eqb_refl].
Qed.
Lemma lookup_i_In i m v : lookup_i i m = Some v -> In (i, v) m.
Proof.
  induction m as [|[k w] m IH]; cbn [lookup_i]; [discriminate|]. destruct (k =? i) eqn:E.
  - intros H; inversion H; subst. apply Nat.eqb_eq in E. subst. left. reflexivity.
  - intros H. right. auto.
Qed.
Lemma gwfb_sound g : gwfb g = true -> gwf g.
Proof.
  unfold gwfb. intros H. repeat (apply andb_true_iff in H; let H' := fresh "B" in destruct H as [H H']).
  rename B3 into Bnd, B2 into Bdata, B1 into Bi2n, B0 into Bedges, B into Bzero.
  unfold gwf. split; [apply opt_nat_eqb_eq; exact H|]. split; [apply nodup_names_sound; exact Bnd|].
  split; [|split; [|split]].
  - intros l dl Hin. rename Bdata into B3. rewrite forallb_forall in B3. specialize (B3 _ Hin). cbn [fst] in B3.
    destruct (lookup_n (NClone l) (g_n2i g)) as [i|]; [|discriminate]. exists i.
    apply andb_true_iff in B3. destruct B3 as [B3 Bc]. apply andb_true_iff in B3. destruct B3 as [Ba Bb].
    split; [reflexivity|]. split; [apply opt_name_eqb_eq; exact Ba|]. split.
    + apply existsb_exists in Bb. destruct Bb as [j [Hj Ej]]. apply Nat.eqb_eq in Ej. subst. exact Hj.
    + apply negb_true_iff in Bc. apply Nat.eqb_neq. exact Bc.
  - intros i l Hi. apply lookup_i_In in Hi. rename Bi2n into B2. rewrite forallb_forall in B2. specialize (B2 _ Hi). cbn [fst snd] in B2.
    apply andb_true_iff in B2. destruct B2 as [Ba Bb]. split; [apply opt_nat_eqb_eq; exact Ba|].
    apply existsb_exists in Bb. destruct Bb as [nm [Hnm E]]. apply name_eqb_eq in E. subst. exact Hnm.
  - intros e He. rename Bedges into B1. rewrite forallb_forall in B1. specialize (B1 _ He). apply andb_true_iff in B1. exact B1.
  - apply opt_name_eqb_eq. exact Bzero.
Qed.
