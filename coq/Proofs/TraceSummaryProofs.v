(* Proofs about Model/TraceSummary.v (C11). *)
From PV Require Import Model.TraceSummary.
From Coq Require Import Permutation Sorted.
Local Open Scope Z_scope.

(* ---- a generic invariant rule for fold_left ---- *)
Lemma fold_left_inv {A B} (f : B -> A -> B) (P : list A -> B -> Prop) :
  (forall pre b x, P pre b -> P (pre ++ [x]) (f b x)) ->
  forall l pre b, P pre b -> P (pre ++ l) (fold_left f l b).
Proof.
  intros Hs l. induction l as [|x l IH]; intros pre b H; cbn [fold_left].
  - now rewrite app_nil_r.
  - replace (pre ++ x :: l) with ((pre ++ [x]) ++ l) by (rewrite <- app_assoc; reflexivity).
    apply IH. apply Hs. exact H.
Qed.

(* ---- items: every visited item is an entry of the trace, with its own (chain, index) ---- *)
Lemma in_index_from {A} (l : list A) : forall k i e,
  In (i, e) (index_from k l) <-> (k <= i)%nat /\ nth_error l (i - k) = Some e.
Proof.
  induction l as [|x l IH]; intros k i e; cbn [index_from In].
  - split; [tauto|]. intros [_ H]. destruct (i - k)%nat; discriminate.
  - rewrite IH. split.
    + intros [H|[H1 H2]].
      * injection H as <- <-. split; [lia|]. now rewrite Nat.sub_diag.
      * split; [lia|]. replace (i - k)%nat with (S (i - S k)) by lia. exact H2.
    + intros [H1 H2]. destruct (Nat.eq_dec i k) as [->|Hne].
      * left. rewrite Nat.sub_diag in H2. cbn in H2. now injection H2 as <-.
      * right. split; [lia|]. replace (i - k)%nat with (S (i - S k)) in H2 by lia. exact H2.
Qed.

Lemma items_spec tr x :
  In x (items tr) <->
  exists ch, In (ichain x, ch) tr /\ nth_error ch (iidx x) = Some (iscore x, itree x).
Proof.
  unfold items. rewrite in_flat_map. split.
  - intros [[c ch] [Hc Hx]]. unfold chain_items in Hx. cbn [fst snd] in Hx.
    apply in_map_iff in Hx as [[i [s t]] [<- Hi]]. cbn [fst snd ichain iidx iscore itree].
    apply in_index_from in Hi as [_ Hi]. rewrite Nat.sub_0_r in Hi. exists ch. split; assumption.
  - intros [ch [Hc Hn]]. exists (ichain x, ch). split; [exact Hc|].
    unfold chain_items. cbn [fst snd]. apply in_map_iff.
    exists (iidx x, (iscore x, itree x)). cbn [fst snd]. split; [destruct x; reflexivity|].
    apply in_index_from. rewrite Nat.sub_0_r. split; [lia| exact Hn].
Qed.

(* ---- the MAP scan ---- *)
Definition scan_inv (pre : list item) (st : option item) : Prop :=
  match st with
  | None => pre = []
  | Some b => exists l1 l2, pre = l1 ++ b :: l2
                /\ (forall x, In x l1 -> iscore x < iscore b)
                /\ (forall x, In x l2 -> iscore x <= iscore b)
  end.

Lemma scan_step_inv pre st x : scan_inv pre st -> scan_inv (pre ++ [x]) (scan_step st x).
Proof.
  destruct st as [b|]; cbn [scan_inv scan_step].
  - intros (l1 & l2 & -> & H1 & H2). destruct (iscore x >? iscore b) eqn:E.
    + apply Z.gtb_lt in E. cbn [scan_inv]. exists (l1 ++ b :: l2), []. split; [reflexivity|]. split.
      * intros y Hy. apply in_app_or in Hy as [Hy|[<-|Hy]].
        -- specialize (H1 y Hy). lia.
        -- exact E.
        -- specialize (H2 y Hy). lia.
      * intros y [].
    + rewrite Z.gtb_ltb in E. apply Z.ltb_ge in E. cbn [scan_inv].
      exists l1, (l2 ++ [x]). split; [now rewrite <- app_assoc|]. split; [exact H1|].
      intros y Hy. apply in_app_or in Hy as [Hy|[<-|[]]]; [apply H2; exact Hy| exact E].
  - intros ->. exists [], []. split; [reflexivity|]. split; intros y [].
Qed.

Lemma map_scan_inv tr : scan_inv (items tr) (map_scan tr).
Proof.
  unfold map_scan. change (items tr) with ([] ++ items tr) at 1.
  apply (fold_left_inv scan_step scan_inv); [intros; now apply scan_step_inv| reflexivity].
Qed.

Lemma map_scan_is_max tr b : map_scan tr = Some b ->
  In b (items tr) /\ forall x, In x (items tr) -> iscore x <= iscore b.
Proof.
  intros H. pose proof (map_scan_inv tr) as I. rewrite H in I. cbn in I.
  destruct I as (l1 & l2 & -> & H1 & H2). split.
  - apply in_or_app; right; left; reflexivity.
  - intros x Hx. apply in_app_or in Hx as [Hx|[<-|Hx]]; [specialize (H1 x Hx); lia| lia| auto].
Qed.

(* tie rule: the first maximum in visiting order *)
Lemma map_scan_first_max tr b : map_scan tr = Some b ->
  exists l1 l2, items tr = l1 ++ b :: l2 /\ (forall x, In x l1 -> iscore x < iscore b)
                /\ (forall x, In x l2 -> iscore x <= iscore b).
Proof. intros H. pose proof (map_scan_inv tr) as I. rewrite H in I. exact I. Qed.

Lemma map_scan_none tr : map_scan tr = None <-> items tr = [].
Proof.
  split.
  - intros H. pose proof (map_scan_inv tr) as I. rewrite H in I. exact I.
  - intros H. unfold map_scan. rewrite H. reflexivity.
Qed.

(* ---- the topology dictionary ---- *)
Fixpoint find_row (t : nat) (rows : list row) : option row :=
  match rows with
  | [] => None
  | r :: rest => if Nat.eqb (rtree r) t then Some r else find_row t rest
  end.
Definition summ_step (t : nat) (acc : option row) (x : item) : option row :=
  if Nat.eqb (itree x) t
  then Some (match acc with None => new_row x | Some r => upd_row r x end)
  else acc.

Lemma rtree_upd r x : rtree (upd_row r x) = rtree r.
Proof. unfold upd_row. destruct (iscore x >? rmax r); reflexivity. Qed.
Lemma rcount_upd r x : rcount (upd_row r x) = S (rcount r).
Proof. unfold upd_row. destruct (iscore x >? rmax r); reflexivity. Qed.

Lemma find_count_topology t R x :
  find_row t (count_topology R x) = summ_step t (find_row t R) x.
Proof.
  induction R as [|r R IH]; cbn [count_topology find_row].
  - unfold summ_step. cbn [rtree new_row]. reflexivity.
  - destruct (Nat.eqb (rtree r) (itree x)) eqn:E1.
    + apply Nat.eqb_eq in E1. cbn [find_row]. rewrite rtree_upd.
      unfold summ_step. rewrite <- E1. destruct (Nat.eqb (rtree r) t); reflexivity.
    + cbn [find_row]. destruct (Nat.eqb (rtree r) t) eqn:E2.
      * apply Nat.eqb_eq in E2. unfold summ_step. rewrite <- E2.
        rewrite Nat.eqb_sym, E1. reflexivity.
      * exact IH.
Qed.

Lemma trees_count_topology R x :
  map rtree (count_topology R x) =
  if existsb (fun r => Nat.eqb (rtree r) (itree x)) R then map rtree R else map rtree R ++ [itree x].
Proof.
  induction R as [|r R IH]; cbn [count_topology existsb map app]; [reflexivity|].
  destruct (Nat.eqb (rtree r) (itree x)) eqn:E1; cbn [orb map].
  - now rewrite rtree_upd.
  - rewrite IH. destruct (existsb _ R); reflexivity.
Qed.

Lemma nodup_count_topology R x : NoDup (map rtree R) -> NoDup (map rtree (count_topology R x)).
Proof.
  intros H. rewrite trees_count_topology.
  destruct (existsb (fun r => Nat.eqb (rtree r) (itree x)) R) eqn:E; [exact H|].
  assert (Hn : ~ In (itree x) (map rtree R)).
  { intros Hin. apply in_map_iff in Hin as [r [Hr Hin]].
    assert (existsb (fun r => Nat.eqb (rtree r) (itree x)) R = true)
      by (apply existsb_exists; exists r; split; [exact Hin| now apply Nat.eqb_eq]).
    congruence. }
  apply NoDup_rev in H. rewrite <- (rev_involutive (map rtree R ++ [itree x])).
  apply NoDup_rev. rewrite rev_app_distr. cbn [rev app]. constructor; [|exact H].
  rewrite <- in_rev. exact Hn.
Qed.

Lemma find_row_some t R r : find_row t R = Some r -> In r R /\ rtree r = t.
Proof.
  induction R as [|a R IH]; cbn [find_row]; [discriminate|].
  destruct (Nat.eqb (rtree a) t) eqn:E.
  - intros H; injection H as <-. split; [left; reflexivity| now apply Nat.eqb_eq].
  - intros H. destruct (IH H). split; [right|]; assumption.
Qed.
Lemma in_find_row R r : NoDup (map rtree R) -> In r R -> find_row (rtree r) R = Some r.
Proof.
  induction R as [|a R IH]; cbn [find_row map]; [intros _ []|].
  intros Hnd [->|Hin].
  - now rewrite Nat.eqb_refl.
  - inversion Hnd as [|? ? Hni Hnd']; subst. destruct (Nat.eqb (rtree a) (rtree r)) eqn:E.
    + apply Nat.eqb_eq in E. exfalso. apply Hni. rewrite E. now apply in_map.
    + now apply IH.
Qed.
Lemma find_row_none t R : find_row t R = None -> ~ In t (map rtree R).
Proof.
  induction R as [|a R IH]; cbn [find_row map]; [intros _ []|].
  destruct (Nat.eqb (rtree a) t) eqn:E; [discriminate|].
  intros H [H1|H1]; [apply Nat.eqb_neq in E; contradiction| now apply IH].
Qed.

(* summary of one class (tree t) *)
Definition sinv (t : nat) (pre : list item) (acc : option row) : Prop :=
  match acc with
  | None => class_count t pre = 0%nat
  | Some r => rtree r = t /\ rcount r = class_count t pre
              /\ (forall x, In x pre -> itree x = t -> iscore x <= rmax r)
              /\ exists x, In x pre /\ itree x = t /\ iscore x = rmax r
                           /\ ichain x = rchain r /\ iidx x = riter r
  end.

Lemma class_count_snoc t pre x :
  class_count t (pre ++ [x]) = (class_count t pre + if Nat.eqb (itree x) t then 1 else 0)%nat.
Proof.
  unfold class_count. rewrite filter_app, app_length. cbn [filter].
  destruct (Nat.eqb (itree x) t); reflexivity.
Qed.
Lemma class_count_zero t l x : class_count t l = 0%nat -> In x l -> itree x <> t.
Proof.
  unfold class_count. intros H Hin Ht.
  assert (Hf : In x (filter (fun x => Nat.eqb (itree x) t) l))
    by (apply filter_In; split; [exact Hin| now apply Nat.eqb_eq]).
  destruct (filter _ l); [destruct Hf| discriminate].
Qed.

Lemma sinv_step t pre acc x : sinv t pre acc -> sinv t (pre ++ [x]) (summ_step t acc x).
Proof.
  unfold summ_step. destruct (Nat.eqb (itree x) t) eqn:E.
  - apply Nat.eqb_eq in E. destruct acc as [r|]; cbn [sinv].
    + intros (Ht & Hc & Hmax & (w & Hw & Hwt & Hws & Hwc & Hwi)).
      rewrite rtree_upd, rcount_upd, class_count_snoc, (proj2 (Nat.eqb_eq _ _) E).
      split; [exact Ht|]. split; [lia|].
      unfold upd_row. destruct (iscore x >? rmax r) eqn:G; cbn [rmax rchain riter].
      * apply Z.gtb_lt in G. split.
        -- intros y Hy Hyt. apply in_app_or in Hy as [Hy|[<-|[]]]; [specialize (Hmax y Hy Hyt); lia| lia].
        -- exists x. repeat split; try reflexivity; try assumption. apply in_or_app; right; left; reflexivity.
      * rewrite Z.gtb_ltb in G. apply Z.ltb_ge in G. split.
        -- intros y Hy Hyt. apply in_app_or in Hy as [Hy|[<-|[]]]; [now apply Hmax| exact G].
        -- exists w. repeat split; try assumption. apply in_or_app; left; exact Hw.
    + intros Hc. rewrite class_count_snoc, (proj2 (Nat.eqb_eq _ _) E), Hc. cbn [new_row rtree rcount rmax rchain riter].
      split; [exact E|]. split; [reflexivity|]. split.
      * intros y Hy Hyt. apply in_app_or in Hy as [Hy|[<-|[]]]; [|lia].
        exfalso. exact (class_count_zero t pre y Hc Hy Hyt).
      * exists x. repeat split; try reflexivity; try assumption. apply in_or_app; right; left; reflexivity.
  - destruct acc as [r|]; cbn [sinv].
    + intros (Ht & Hc & Hmax & (w & Hw & Hwt & Hws & Hwc & Hwi)).
      rewrite class_count_snoc, E. split; [exact Ht|]. split; [lia|]. split.
      * intros y Hy Hyt. apply in_app_or in Hy as [Hy|[<-|[]]]; [now apply Hmax|].
        apply Nat.eqb_neq in E. contradiction.
      * exists w. repeat split; try assumption. apply in_or_app; left; exact Hw.
    + intros Hc. rewrite class_count_snoc, E. lia.
Qed.

Lemma sum_counts_step R x : sum_counts (count_topology R x) = S (sum_counts R).
Proof.
  induction R as [|r R IH]; cbn [count_topology sum_counts]; [reflexivity|].
  destruct (Nat.eqb (rtree r) (itree x)); cbn [sum_counts].
  - rewrite rcount_upd. lia.
  - rewrite IH. lia.
Qed.

Definition tinv (pre : list item) (R : list row) : Prop :=
  NoDup (map rtree R) /\ (forall t, sinv t pre (find_row t R)) /\ sum_counts R = length pre.

Lemma tinv_step pre R x : tinv pre R -> tinv (pre ++ [x]) (count_topology R x).
Proof.
  intros (Hnd & Hs & Hsum). split; [now apply nodup_count_topology|]. split.
  - intros t. rewrite find_count_topology. apply sinv_step. apply Hs.
  - rewrite sum_counts_step, app_length, Hsum. cbn [length]. lia.
Qed.

Lemma topologies_inv tr : tinv (items tr) (topologies tr).
Proof.
  unfold topologies. change (items tr) with ([] ++ items tr) at 1.
  apply (fold_left_inv count_topology tinv); [intros; now apply tinv_step|].
  split; [constructor|]. split; [intros t; reflexivity| reflexivity].
Qed.

(* what one row says *)
Definition row_ok (L : list item) (r : row) : Prop :=
  rcount r = class_count (rtree r) L /\ (1 <= rcount r)%nat
  /\ (forall x, In x L -> itree x = rtree r -> iscore x <= rmax r)
  /\ exists x, In x L /\ itree x = rtree r /\ iscore x = rmax r
               /\ ichain x = rchain r /\ iidx x = riter r.

Lemma class_count_pos t L x : In x L -> itree x = t -> (1 <= class_count t L)%nat.
Proof.
  intros Hin Ht. destruct (class_count t L) eqn:E; [|lia].
  exfalso. exact (class_count_zero t L x E Hin Ht).
Qed.

Theorem topo_rows_are_classes tr :
  let L := items tr in let R := topologies tr in
  NoDup (map rtree R)
  /\ (forall x, In x L -> exists r, In r R /\ rtree r = itree x)
  /\ (forall r, In r R -> row_ok L r)
  /\ sum_counts R = length L.
Proof.
  intros L R. destruct (topologies_inv tr) as (Hnd & Hs & Hsum). fold L in Hs, Hsum. fold R in Hnd, Hs, Hsum.
  split; [exact Hnd|]. split; [|split; [|exact Hsum]].
  - intros x Hx. specialize (Hs (itree x)). destruct (find_row (itree x) R) as [r|] eqn:E.
    + apply find_row_some in E as [Hin Ht]. exists r. split; assumption.
    + cbn in Hs. exfalso. exact (class_count_zero _ _ x Hs Hx eq_refl).
  - intros r Hr. specialize (Hs (rtree r)). rewrite (in_find_row R r Hnd Hr) in Hs.
    destruct Hs as (_ & Hc & Hmax & (w & Hw & Hwt & Hrest)). unfold row_ok.
    split; [exact Hc|]. split; [rewrite Hc; exact (class_count_pos _ _ w Hw Hwt)|].
    split; [exact Hmax|]. exists w. split; [exact Hw|]. split; [exact Hwt| exact Hrest].
Qed.

(* ---- sorting ---- *)
Section Sort.
Context {A : Type} (key : A -> Z).
Definition desc (a b : A) : Prop := key b <= key a.

Lemma insert_perm r l : Permutation (insert_desc key r l) (r :: l).
Proof.
  induction l as [|h t IH]; cbn [insert_desc]; [apply Permutation_refl|].
  destruct (key h <=? key r); [apply Permutation_refl|].
  eapply perm_trans; [apply perm_skip, IH| apply perm_swap].
Qed.
Lemma sort_perm l : Permutation (sort_desc key l) l.
Proof.
  induction l as [|x l IH]; cbn [sort_desc fold_right]; [constructor|].
  eapply perm_trans; [apply insert_perm| apply perm_skip, IH].
Qed.
Lemma insert_sorted r l : StronglySorted desc l -> StronglySorted desc (insert_desc key r l).
Proof.
  induction l as [|h t IH]; cbn [insert_desc]; intros Hs.
  - constructor; constructor.
  - apply StronglySorted_inv in Hs as [Hs Hf]. destruct (key h <=? key r) eqn:E.
    + apply Z.leb_le in E. constructor; [constructor; assumption|].
      constructor; [exact E|]. rewrite Forall_forall in *. intros y Hy. specialize (Hf y Hy).
      unfold desc in *. lia.
    + apply Z.leb_gt in E. constructor; [now apply IH|].
      rewrite Forall_forall in *. intros y Hy.
      apply (Permutation_in _ (insert_perm r t)) in Hy as [<-|Hy]; [unfold desc; lia| now apply Hf].
Qed.
Lemma sort_sorted l : StronglySorted desc (sort_desc key l).
Proof.
  induction l as [|x l IH]; cbn [sort_desc fold_right]; [constructor| now apply insert_sorted].
Qed.
Lemma sorted_app_le l1 l2 : StronglySorted desc (l1 ++ l2) ->
  forall a b, In a l1 -> In b l2 -> key b <= key a.
Proof.
  induction l1 as [|h t IH]; cbn [app]; intros Hs a b Ha Hb; [destruct Ha|].
  apply StronglySorted_inv in Hs as [Hs Hf]. destruct Ha as [<-|Ha].
  - rewrite Forall_forall in Hf. apply Hf. apply in_or_app; right; exact Hb.
  - now apply (IH Hs).
Qed.
Lemma sorted_hd_max l h : hd_error (sort_desc key l) = Some h ->
  In h l /\ forall x, In x l -> key x <= key h.
Proof.
  intros H. pose proof (sort_sorted l) as Hs. pose proof (sort_perm l) as Hp.
  destruct (sort_desc key l) as [|h' t] eqn:E; [discriminate|]. injection H as ->.
  split; [apply (Permutation_in _ Hp); left; reflexivity|].
  intros x Hx. apply (Permutation_in _ (Permutation_sym Hp)) in Hx as [<-|Hx]; [lia|].
  apply StronglySorted_inv in Hs as [_ Hf]. rewrite Forall_forall in Hf. now apply Hf.
Qed.
End Sort.

Theorem rank_sorted rows :
  Permutation (rank rows) rows /\ StronglySorted (fun a b => rmax b <= rmax a) (rank rows).
Proof. split; [apply sort_perm| apply (sort_sorted rmax)]. Qed.

Theorem archive_is_prefix k tr :
  exists rest, report tr = archive k tr ++ rest
    /\ length (archive k tr) = Nat.min k (length (topologies tr))
    /\ (forall a, In a (archive k tr) -> In a (topologies tr))
    /\ forall a b, In a (archive k tr) -> In b rest -> rmax b <= rmax a.
Proof.
  exists (skipn k (report tr)). unfold archive.
  assert (Hp : Permutation (report tr) (topologies tr)) by apply sort_perm.
  split; [symmetry; apply firstn_skipn|]. split.
  - rewrite firstn_length, (Permutation_length Hp). reflexivity.
  - split.
    + intros a Ha. apply (Permutation_in _ Hp). rewrite <- (firstn_skipn k (report tr)).
      apply in_or_app; left; exact Ha.
    + apply (sorted_app_le rmax). rewrite firstn_skipn. apply (sort_sorted rmax).
Qed.

Theorem freq_mode_is_max_count tr r : freq_mode tr = Some r ->
  In r (topologies tr) /\ forall r', In r' (topologies tr) -> (rcount r' <= rcount r)%nat.
Proof.
  unfold freq_mode. intros H. apply sorted_hd_max in H as [Hin Hmax].
  assert (Hp : Permutation (report tr) (topologies tr)) by apply sort_perm.
  split; [apply (Permutation_in _ Hp); exact Hin|].
  intros r' Hr'. apply (Permutation_in _ (Permutation_sym Hp)) in Hr'. specialize (Hmax r' Hr'). lia.
Qed.

(* ---- chain-order (schedule) independence ---- *)
Lemma items_perm tr tr' : Permutation tr tr' -> Permutation (items tr) (items tr').
Proof.
  unfold items. induction 1 as [|c l l' _ IH|c d l|l l' l'' _ IH1 _ IH2]; cbn [flat_map].
  - constructor.
  - now apply Permutation_app_head.
  - rewrite !app_assoc. apply Permutation_app_tail, Permutation_app_comm.
  - eapply perm_trans; eassumption.
Qed.
Lemma class_count_perm t l l' : Permutation l l' -> class_count t l = class_count t l'.
Proof.
  unfold class_count. induction 1 as [|x l l' _ IH|x y l|l l' l'' _ IH1 _ IH2]; cbn [filter].
  - reflexivity.
  - destruct (Nat.eqb (itree x) t); cbn [length]; now rewrite IH.
  - destruct (Nat.eqb (itree x) t), (Nat.eqb (itree y) t); reflexivity.
  - now rewrite IH1.
Qed.

Lemma rows_transfer tr tr' r : Permutation tr tr' -> In r (topologies tr) ->
  exists r', In r' (topologies tr') /\ row_key r' = row_key r.
Proof.
  intros Hp Hr. pose proof (items_perm _ _ Hp) as Hi.
  destruct (topo_rows_are_classes tr) as (_ & _ & Hok & _).
  destruct (topo_rows_are_classes tr') as (_ & Hex' & Hok' & _).
  destruct (Hok r Hr) as (Hc & _ & Hmax & (w & Hw & Hwt & Hws & _)).
  destruct (Hex' w (Permutation_in _ Hi Hw)) as (r' & Hr' & Ht').
  exists r'. split; [exact Hr'|].
  destruct (Hok' r' Hr') as (Hc' & _ & Hmax' & (w' & Hw' & Hwt' & Hws' & _)).
  assert (Et : rtree r' = rtree r) by congruence.
  unfold row_key. rewrite Et. f_equal; [f_equal|].
  - rewrite Hc, Hc', Et. symmetry. now apply class_count_perm.
  - assert (rmax r <= rmax r') by (rewrite <- Hws; apply Hmax'; [apply (Permutation_in _ Hi Hw)| congruence]).
    assert (rmax r' <= rmax r)
      by (rewrite <- Hws'; apply Hmax; [apply (Permutation_in _ (Permutation_sym Hi) Hw')| congruence]).
    lia.
Qed.

Theorem chain_order_independent tr tr' : Permutation tr tr' ->
  (forall k, In k (map row_key (topologies tr)) <-> In k (map row_key (topologies tr')))
  /\ length (topologies tr) = length (topologies tr')
  /\ option_map iscore (map_scan tr) = option_map iscore (map_scan tr').
Proof.
  intros Hp. pose proof (Permutation_sym Hp) as Hp'. split; [|split].
  - intros k. split; intros Hk; apply in_map_iff in Hk as [r [<- Hr]].
    + destruct (rows_transfer _ _ r Hp Hr) as (r' & Hr' & <-). now apply in_map.
    + destruct (rows_transfer _ _ r Hp' Hr) as (r' & Hr' & <-). now apply in_map.
  - destruct (topo_rows_are_classes tr) as (Hnd & _). destruct (topo_rows_are_classes tr') as (Hnd' & _).
    rewrite <- (map_length rtree (topologies tr)), <- (map_length rtree (topologies tr')).
    apply Permutation_length, NoDup_Permutation; [assumption| assumption|].
    intros t. split; intros Ht; apply in_map_iff in Ht as [r [<- Hr]].
    + destruct (rows_transfer _ _ r Hp Hr) as (r' & Hr' & E). apply in_map_iff. exists r'.
      split; [|exact Hr']. unfold row_key in E. congruence.
    + destruct (rows_transfer _ _ r Hp' Hr) as (r' & Hr' & E). apply in_map_iff. exists r'.
      split; [|exact Hr']. unfold row_key in E. congruence.
  - pose proof (items_perm _ _ Hp) as Hi.
    destruct (map_scan tr) as [b|] eqn:E, (map_scan tr') as [b'|] eqn:E'; cbn [option_map].
    + apply map_scan_is_max in E as [Hb Hm], E' as [Hb' Hm']. f_equal.
      specialize (Hm b' (Permutation_in _ (Permutation_sym Hi) Hb')).
      specialize (Hm' b (Permutation_in _ Hi Hb)). lia.
    + apply map_scan_none in E'. apply map_scan_is_max in E as [Hb _].
      apply (Permutation_in _ Hi) in Hb. rewrite E' in Hb. destruct Hb.
    + apply map_scan_none in E. apply map_scan_is_max in E' as [Hb _].
      apply (Permutation_in _ (Permutation_sym Hi)) in Hb. rewrite E in Hb. destruct Hb.
    + reflexivity.
Qed.

(* ---- create_topologies_archive looks a row up by (topology string, count, max, iter, chain_num) and
   asserts that exactly one row matches: (chain_num, iter) alone already identifies the row, because the
   pointers of distinct rows are entries of distinct trees (chain keys are dictionary keys: distinct) ---- *)
Lemma nodup_map_inj {A B} (f : A -> B) (l : list A) a b :
  NoDup (map f l) -> In a l -> In b l -> f a = f b -> a = b.
Proof.
  induction l as [|x l IH]; cbn [map]; intros Hn Ha Hb E; [destruct Ha|].
  inversion Hn as [|? ? Hx Hn']; subst. destruct Ha as [->|Ha], Hb as [->|Hb].
  - reflexivity.
  - exfalso. apply Hx. rewrite E. now apply in_map.
  - exfalso. apply Hx. rewrite <- E. now apply in_map.
  - now apply IH.
Qed.
Lemma fst_functional {A B} (l : list (A * B)) a b b' :
  NoDup (map fst l) -> In (a, b) l -> In (a, b') l -> b = b'.
Proof.
  intros Hn H1 H2. assert (E : (a, b) = (a, b')) by (apply (nodup_map_inj fst l); auto). congruence.
Qed.

Theorem pointer_identifies_row tr r1 r2 : NoDup (map fst tr) ->
  In r1 (topologies tr) -> In r2 (topologies tr) ->
  rchain r1 = rchain r2 -> riter r1 = riter r2 -> r1 = r2.
Proof.
  intros Hk H1 H2 Ec Ei. destruct (topo_rows_are_classes tr) as (Hnd & _ & Hok & _).
  destruct (Hok r1 H1) as (_ & _ & _ & (x1 & Hx1 & Ht1 & _ & Hc1 & Hi1)).
  destruct (Hok r2 H2) as (_ & _ & _ & (x2 & Hx2 & Ht2 & _ & Hc2 & Hi2)).
  apply items_spec in Hx1 as (ch1 & Hin1 & Hn1). apply items_spec in Hx2 as (ch2 & Hin2 & Hn2).
  assert (Ech : ichain x1 = ichain x2) by congruence. rewrite Ech in Hin1.
  assert (ch1 = ch2) by (eapply fst_functional; eassumption). subst ch2.
  assert (Eix : iidx x1 = iidx x2) by congruence. rewrite Eix in Hn1. rewrite Hn1 in Hn2.
  apply (nodup_map_inj rtree (topologies tr)); [exact Hnd| exact H1| exact H2|]. congruence.
Qed.
