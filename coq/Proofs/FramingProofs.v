(* Proofs for the trace-file framing model (C20). *)
From PV Require Import Model.Framing.
Open Scope nat_scope.

(* ---- a prefix of a stream either runs out of input or gets the verdict of the whole stream ------- *)
Lemma feed_prefix : forall l need st n,
  feed (firstn n l) need st = Eof \/ feed (firstn n l) need st = feed l need st.
Proof.
  induction l as [|s rest IH]; intros need st n.
  - rewrite firstn_nil. left. reflexivity.
  - destruct n as [|n]; [left; reflexivity|].
    cbn [firstn feed].
    destruct need as [[k [|[|m]]]|]; destruct s as [k' [|m']|]; try (right; reflexivity); try apply IH.
    + destruct (exec k st) as [r|st']; [right; reflexivity| apply IH].
    + destruct (exec k' st) as [r|st']; [right; reflexivity| apply IH].
Qed.

Theorem prefix_eof_or_same : forall l n, unpickle (firstn n l) = Eof \/ unpickle (firstn n l) = unpickle l.
Proof. intros. apply feed_prefix. Qed.

(* ---- a value is produced only by STOP --------------------------------------------------------------- *)
Lemma exec_not_stop k st : k <> KStop -> exec k st = inl Bad \/ exists st', exec k st = inr st'.
Proof.
  intros Hk. destruct k; try congruence; unfold exec;
    match goal with |- context [step ?k st] => destruct (step k st) as [st'|] end;
    (right; eexists; reflexivity) || (left; reflexivity).
Qed.

Lemma no_stop_not_ok : forall l need st v,
  (forall a, ~ In (Op KStop a) l) -> (forall m, need <> Some (KStop, m)) -> feed l need st <> Ok v.
Proof.
  induction l as [|s rest IH]; intros need st v Hl Hneed; cbn [feed]; [discriminate|].
  assert (Hrest : forall a, ~ In (Op KStop a) rest) by (intros a Ha; apply (Hl a); right; exact Ha).
  assert (Hnone : forall m : nat, @None (kind * nat) <> Some (KStop, m)) by discriminate.
  destruct need as [[k [|[|m]]]|]; destruct s as [k' [|m']|]; try discriminate.
  - (* last argument byte of k *)
    assert (Hk : k <> KStop) by (intros ->; apply (Hneed 1); reflexivity).
    destruct (exec_not_stop k st Hk) as [E|[st' E]]; rewrite E; [discriminate| apply IH; assumption].
  - apply IH; [assumption|]. intros m0 H. injection H as -> _. apply (Hneed (S (S m))). reflexivity.
  - (* opcode without argument *)
    assert (Hk : k' <> KStop) by (intros ->; apply (Hl 0); left; reflexivity).
    destruct (exec_not_stop k' st Hk) as [E|[st' E]]; rewrite E; [discriminate| apply IH; assumption].
  - apply IH; [assumption|]. intros m0 H. injection H as -> _. apply (Hl (S m')). left. reflexivity.
Qed.

Lemma in_firstn {A} (x : A) : forall n l, In x (firstn n l) -> In x l.
Proof.
  induction n as [|n IH]; intros [|a l] H; cbn [firstn] in H; try contradiction.
  destruct H as [<-|H]; [left; reflexivity| right; apply IH; exact H].
Qed.

Lemma encode_app a b : encode (a ++ b) = encode a ++ encode b.
Proof. unfold encode. apply flat_map_app. Qed.

Lemma in_encode_stop ops a : In (Op KStop a) (encode ops) -> has_stop ops = true.
Proof.
  induction ops as [|[k n] ops IH]; cbn [encode flat_map]; [contradiction|].
  intros H. apply in_app_or in H. cbn [has_stop existsb fst]. destruct H as [H|H].
  - unfold enc_tok in H. cbn [fst snd] in H. destruct H as [H|H].
    + injection H as -> _. reflexivity.
    + apply repeat_spec in H. discriminate.
  - apply orb_true_iff. right. apply IH. exact H.
Qed.


(* no strict prefix of a stream whose only STOP is its last opcode decodes to a value *)
Theorem prefix_free : forall ops n v,
  has_stop ops = false -> n < length (encode (ops ++ [stop_tok])) ->
  unpickle (firstn n (encode (ops ++ [stop_tok]))) <> Ok v.
Proof.
  intros ops n v Hns Hn. rewrite encode_app in *. cbn [encode flat_map enc_tok stop_tok fst snd repeat app] in *.
  rewrite app_length in Hn. cbn [length] in Hn.
  rewrite firstn_app. replace (n - length (encode ops)) with 0 by lia. cbn [firstn]. rewrite app_nil_r.
  apply no_stop_not_ok; [|discriminate].
  intros a Ha. apply in_firstn in Ha. apply in_encode_stop in Ha. congruence.
Qed.

(* ... and if the whole stream decodes, every strict prefix ends in "unexpected end of input" *)
Theorem prefix_is_eof : forall ops n v,
  has_stop ops = false -> unpickle (encode (ops ++ [stop_tok])) = Ok v ->
  n < length (encode (ops ++ [stop_tok])) ->
  unpickle (firstn n (encode (ops ++ [stop_tok]))) = Eof.
Proof.
  intros ops n v Hns Hfull Hn.
  destruct (prefix_eof_or_same (encode (ops ++ [stop_tok])) n) as [H|H]; [exact H|].
  exfalso. rewrite Hfull in H. revert H. apply prefix_free; assumption.
Qed.

(* ---- the gzip member --------------------------------------------------------------------------------- *)
Section Gzip.
Variable byte : Type.
Variable inflate : list byte -> option (list sym).
(* Trusted behaviour of zlib (not provable here): decompressing a prefix of a deflate stream yields a data error
   or a prefix of what the whole stream decompresses to. *)
Hypothesis inflate_prefix : forall b out n, inflate b = Some out ->
  inflate (firstn n b) = None \/ exists k, inflate (firstn n b) = Some (firstn k out).

Lemma read_file_unfold f : read_file byte inflate f =
  match inflate (body f) with
  | None => Error
  | Some payload => match unpickle payload with Ok v => Value v | _ => Error end
  end.
Proof.
  unfold read_file, read_prefix, file_bytes. rewrite !app_length.
  replace (length (hdr f) + (length (body f) + length (trailer f)) <? length (hdr f)) with false
    by (symmetry; apply Nat.ltb_ge; lia).
  rewrite firstn_all2 by lia. reflexivity.
Qed.

(* the statement for files that were written completely (the whole file reads back as v) *)
Theorem truncated_is_error_or_complete : forall f v n,
  read_file byte inflate f = Value v ->
  read_prefix byte inflate f n = Error \/ read_prefix byte inflate f n = Value v.
Proof.
  intros f v n Hfull. rewrite read_file_unfold in Hfull. unfold read_prefix.
  destruct (n <? length (hdr f)); [left; reflexivity|].
  destruct (inflate (body f)) as [payload|] eqn:Eb; [|discriminate].
  destruct (inflate_prefix (body f) payload (n - length (hdr f)) Eb) as [H|[k H]]; rewrite H; [left; reflexivity|].
  destruct (prefix_eof_or_same payload k) as [E|E]; rewrite E; [left; reflexivity| right; exact Hfull].
Qed.

(* a cut that leaves the decompressor short of the whole payload is always an error *)
Theorem truncated_payload_is_error : forall f ops n k,
  has_stop ops = false ->
  inflate (body f) = Some (encode (ops ++ [stop_tok])) ->
  inflate (firstn (n - length (hdr f)) (body f)) = Some (firstn k (encode (ops ++ [stop_tok]))) ->
  k < length (encode (ops ++ [stop_tok])) ->
  read_prefix byte inflate f n = Error.
Proof.
  intros f ops n k Hns Hb Hp Hk. unfold read_prefix.
  destruct (n <? length (hdr f)); [reflexivity|]. rewrite Hp.
  destruct (unpickle (firstn k (encode (ops ++ [stop_tok])))) as [v| |] eqn:E; try reflexivity.
  exfalso. revert E. apply prefix_free; assumption.
Qed.
End Gzip.
