(* The data-point Gibbs move (repaired guard) leaves the target invariant on every state space that is a union of
   fibers: a fiber = all placements of the point x over a fixed assignment of the other points in which every clone
   holds some other point (so no placement of x empties a clone), plus the states in which x cannot move. *)
From PV Require Import Model.DpMove Proofs.GibbsProofs Proofs.DpMoveProofs.
From Coq Require Import Bool.

Lemma lookup_set_pt s x h : In x (map fst s) -> lookup (set_pt s x h) x = h.
Proof.
  induction s as [|[y k] r IH]; cbn [map fst In set_pt lookup]; intros Hin; [contradiction|].
  destruct (Nat.eqb x y) eqn:Hxy; cbn [lookup]; rewrite Hxy; [reflexivity|].
  apply IH. destruct Hin as [Hy|Hin]; [apply Nat.eqb_neq in Hxy; congruence| exact Hin].
Qed.
Lemma set_pt_keys s x h : map fst (set_pt s x h) = map fst s.
Proof.
  induction s as [|[y k] r IH]; cbn [set_pt map fst]; [reflexivity|].
  destruct (Nat.eqb x y) eqn:Hxy; cbn [map fst]; [apply Nat.eqb_eq in Hxy; subst; reflexivity| now rewrite IH].
Qed.
Lemma set_pt_other s x h y k : y <> x -> In (y, k) s -> In (y, k) (set_pt s x h).
Proof.
  intros Hne. induction s as [|[z k'] r IH]; cbn [set_pt In]; [auto|]. intros [He|Hin].
  - injection He as -> ->. destruct (Nat.eqb x y) eqn:Hxy; [apply Nat.eqb_eq in Hxy; congruence| left; reflexivity].
  - destruct (Nat.eqb x z); right; [exact Hin| apply IH; exact Hin].
Qed.
Lemma set_pt_self s x h : In x (map fst s) -> In (x, h) (set_pt s x h).
Proof.
  induction s as [|[y k] r IH]; cbn [map fst In set_pt]; intros Hin; [contradiction|].
  destruct (Nat.eqb x y) eqn:Hxy; [apply Nat.eqb_eq in Hxy; subst; left; reflexivity|].
  right. apply IH. destruct Hin as [Hy|Hin]; [apply Nat.eqb_neq in Hxy; congruence| exact Hin].
Qed.

(* two different keys held by h give at least two members *)
Lemma members_two s h y z : NoDup (map fst s) -> y <> z -> In (y, h) s -> In (z, h) s -> (2 <= members s h)%nat.
Proof.
  unfold members. intros Hnd Hne Hy Hz.
  assert (Hrefl : hold_eqb h h = true) by (destruct h; cbn; [apply Nat.eqb_refl| reflexivity]).
  induction s as [|[w k] r IH]; [contradiction|]. cbn [map fst] in Hnd. inversion Hnd as [|? ? Hw Hnd']; subst.
  cbn [filter snd].
  assert (Hone : forall u, In (u, h) r -> (1 <= length (filter (fun p => hold_eqb (snd p) h) r))%nat).
  { clear -Hrefl. induction r as [|[a b] r IHr]; intros u Hu; [contradiction|]. cbn [filter snd].
    destruct Hu as [He|Hu]; [injection He as -> ->; rewrite Hrefl; cbn [length]; lia|].
    destruct (hold_eqb b h); cbn [length]; [lia| eapply IHr; exact Hu]. }
  destruct Hy as [Hy|Hy]; destruct Hz as [Hz|Hz].
  - injection Hy as -> ->. injection Hz as ->. congruence.
  - injection Hy as -> ->. rewrite Hrefl. cbn [length]. pose proof (Hone z Hz). lia.
  - injection Hz as -> ->. rewrite Hrefl. cbn [length]. pose proof (Hone y Hy). lia.
  - destruct (hold_eqb k h); cbn [length]; [pose proof (IH Hnd' Hy Hz); lia| apply IH; assumption].
Qed.

Section INV.
Variable clones : list nat.
Variable outliers_on : bool.
Variable gamma : state -> Qc.
Variable x : nat.

(* every clone holds a point other than x: no placement of x can empty a clone *)
Definition others (s : state) : Prop :=
  In x (map fst s) /\ NoDup (map fst s) /\ forall c, In c clones -> exists y, y <> x /\ In (y, Some c) s.

Lemma others_cand s s' : others s -> In s' (cand clones outliers_on x s) -> others s'.
Proof.
  intros [Hk [Hnd Ho]] Hin. unfold cand in Hin. apply in_map_iff in Hin. destruct Hin as [h [<- _]].
  split; [rewrite set_pt_keys; exact Hk|]. split; [rewrite set_pt_keys; exact Hnd|].
  intros c Hc. destruct (Ho c Hc) as [y [Hy Hin]]. exists y. split; [exact Hy| apply set_pt_other; assumption].
Qed.

Lemma others_movable s s' : others s -> In s' (cand clones outliers_on x s) -> movable false x s' = true.
Proof.
  intros [Hk [Hnd Ho]] Hin. unfold cand in Hin. apply in_map_iff in Hin. destruct Hin as [h [<- Hh]].
  unfold movable. rewrite lookup_set_pt by exact Hk. destruct h as [c|]; [|reflexivity].
  unfold holders in Hh. apply in_app_or in Hh. destruct Hh as [Hh|Hh].
  - apply in_map_iff in Hh. destruct Hh as [c' [Hc' Hin]]. injection Hc' as ->.
    destruct (Ho c Hin) as [y [Hy Hy']]. apply Nat.ltb_lt.
    apply (members_two (set_pt s x (Some c)) (Some c) y x).
    + rewrite set_pt_keys. exact Hnd.
    + exact Hy.
    + apply set_pt_other; assumption.
    + apply set_pt_self. exact Hk.
  - destruct outliers_on; [destruct Hh as [Hh|[]]; discriminate| contradiction].
Qed.

Theorem dp_move_invariant (reps fixed : list state) f :
  (forall r, In r reps -> others r) ->
  (forall r, In r reps -> total gamma (cand clones outliers_on x r) <> 0) ->
  (forall s, In s fixed -> movable false x s = false) ->
  let S := concat (map (cand clones outliers_on x) reps) ++ fixed in
  E (wlist gamma S) (fun s => E (dp_step clones outliers_on gamma false x s) f) = E (wlist gamma S) f.
Proof.
  intros Hrep Htot Hfix S. unfold S, wlist. rewrite map_app, !E_app. f_equal.
  - fold (wlist gamma (concat (map (cand clones outliers_on x) reps))).
    fold (pi_fiber gamma (concat (map (cand clones outliers_on x) reps))).
    rewrite <- (gibbs_partition_invariant gamma (map (cand clones outliers_on x) reps) (cand clones outliers_on x) f).
    + apply E_ext_in. intros s Hs. unfold pi_fiber, wlist in Hs. rewrite map_map in Hs. cbn [fst] in Hs. rewrite map_id in Hs.
      apply in_concat in Hs. destruct Hs as [b [Hb Hs]]. apply in_map_iff in Hb. destruct Hb as [r [<- Hr]].
      unfold dp_step. rewrite (others_movable r s (Hrep r Hr) Hs). reflexivity.
    + intros b Hb. apply in_map_iff in Hb. destruct Hb as [r [<- Hr]]. apply Htot. exact Hr.
    + intros b s Hb Hs. apply in_map_iff in Hb. destruct Hb as [r [<- Hr]]. apply dp_candidates_closed. exact Hs.
  - apply E_ext_in. intros s Hs. rewrite map_map in Hs. cbn [fst] in Hs. rewrite map_id in Hs.
    unfold dp_step. rewrite (Hfix s Hs). apply E_ret.
Qed.
End INV.
