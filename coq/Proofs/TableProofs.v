(* Proofs about Model/Table.v (C12), part 1: tree structure, the graph conversion, the Newick labels. *)
From PV Require Import Model.Table.
Local Open Scope Z_scope.

Section LInd.
Variable P : ltree -> Prop.
Hypothesis H : forall l o ks, Forall P ks -> P (LNode l o ks).
Fixpoint ltree_ind' (n : ltree) : P n :=
  match n with
  | LNode l o ks =>
      H l o ks ((fix go (x : list ltree) : Forall P x :=
                   match x with [] => Forall_nil _ | k :: r => Forall_cons _ (ltree_ind' k) (go r) end) ks)
  end.
End LInd.

Lemma gname_eqb_eq a b : gname_eqb a b = true <-> a = b.
Proof.
  destruct a as [x|], b as [y|]; cbn [gname_eqb]; try (split; [discriminate| congruence]).
  - rewrite Nat.eqb_eq. split; congruence.
  - split; reflexivity.
Qed.
Lemma existsb_gname n l : existsb (gname_eqb n) l = true <-> In n l.
Proof.
  rewrite existsb_exists. split.
  - intros [x [Hx E]]. apply gname_eqb_eq in E. now subst.
  - intros Hin. exists n. split; [exact Hin| now apply gname_eqb_eq].
Qed.

(* every node of a subtree is the child end of one of its edges *)
Lemma edges_cover n : forall p x, In x (nodes_of n) -> In (Some (lbl x)) (map snd (edges_from p n)).
Proof.
  induction n as [l o ks IH] using ltree_ind'. intros p x. cbn [nodes_of edges_from map In].
  intros [<-|Hx]; [left; reflexivity|]. right.
  apply in_flat_map in Hx as [k [Hk Hx]]. rewrite Forall_forall in IH.
  specialize (IH k Hk (Some l) x Hx). apply in_map_iff in IH as [e [He Hin]].
  apply in_map_iff. exists e. split; [exact He|]. apply in_flat_map. exists k. split; assumption.
Qed.

Lemma convert_ok_iff t : convert_ok t = true <-> troots t <> [].
Proof.
  unfold convert_ok, rx_nodes, nx_nodes, edge_list, node_labels, all_nodes. split.
  - intros Hc Hr. rewrite Hr in Hc. cbn in Hc. discriminate.
  - intros Hr. apply forallb_forall. intros g Hg. apply existsb_gname.
    destruct Hg as [<-|Hg].
    + destruct (troots t) as [|r rs]; [congruence|]. destruct r as [l o ks].
      cbn [flat_map edges_from app fst snd In]. left; reflexivity.
    + apply in_map_iff in Hg as [l [<- Hl]]. apply in_map_iff in Hl as [x [<- Hx]].
      apply in_flat_map in Hx as [r [Hr' Hx]].
      pose proof (edges_cover r None x Hx) as Hc. apply in_map_iff in Hc as [e [He Hin]].
      apply in_flat_map. exists e. split.
      * apply in_flat_map. exists r. split; assumption.
      * rewrite He. right; left; reflexivity.
Qed.

Lemma result_total data clusters samples vals t :
  troots t <> [] -> result data clusters samples vals t = Some (result_fixed data clusters samples vals t).
Proof.
  intros Hr. unfold result, ccf_dicts. rewrite (proj2 (convert_ok_iff t) Hr). reflexivity.
Qed.
Lemma result_all_outliers data clusters samples vals t :
  troots t = [] -> result data clusters samples vals t = None.
Proof.
  intros Hr. unfold result, ccf_dicts.
  destruct (convert_ok t) eqn:E; [|reflexivity]. apply convert_ok_iff in E. contradiction.
Qed.

(* labels of the Newick structure = root + the node labels *)
Lemma nw_labels_of n : nw_labels (nw_of n) = map (fun x => Some (lbl x)) (nodes_of n).
Proof.
  induction n as [l o ks IH] using ltree_ind'. cbn [nw_of nw_labels nodes_of map lbl]. f_equal.
  induction ks as [|k ks IHk]; cbn [map flat_map]; [reflexivity|].
  apply Forall_cons_iff in IH as [Hk Hks]. rewrite map_app, Hk, (IHk Hks). reflexivity.
Qed.
Lemma nw_labels_newick t : nw_labels (newick t) = None :: map (fun l => Some l) (node_labels t).
Proof.
  unfold newick, node_labels, all_nodes. cbn [nw_labels]. f_equal.
  induction (troots t) as [|r rs IH]; cbn [map flat_map]; [reflexivity|].
  rewrite !map_app, IH, nw_labels_of, !map_map. reflexivity.
Qed.

(* clone ids of the labels: -1 or a node label *)
Lemma labels_clone t i c : In (i, c) (labels t) ->
  (c = -1 /\ In i (toutl t)) \/ (exists n, In n (all_nodes t) /\ c = Z.of_nat (lbl n) /\ In i (own n)).
Proof.
  unfold labels. intros Hin. apply in_app_or in Hin as [Hin|Hin].
  - right. apply in_flat_map in Hin as [n [Hn Hin]]. apply in_map_iff in Hin as [j [E Hj]].
    injection E as <- <-. exists n. repeat split; assumption.
  - left. apply in_map_iff in Hin as [j [E Hj]]. injection E as <- <-. split; [reflexivity| exact Hj].
Qed.
