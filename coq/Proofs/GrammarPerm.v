(* Link between the two models of "an order compatible with the tree": C09's rose-tree model (Model/Perm.v: forders,
   frespects, fcount, order_density) and the relation-table model of the grammar / assembled particle-Gibbs theorem
   (Model/Grammar.v: compat; Proofs/GrammarPG.v: gcden).  [frel F] is the relation of the rose-tree forest F.
   Result: the orders C09 enumerates are exactly the orders compatible with frel F, hence the order density of the
   assembled theorem is C09's density 1 / fcount F. *)
From PV Require Import Model.Perm Proofs.PermProofs Proofs.PermSound Proofs.PermComplete Proofs.PermNoDup Proofs.PermDensity.
From PV Require Import Model.Grammar Proofs.GrammarSound Proofs.GrammarTable Proofs.GrammarPG.
From Coq Require Import Bool Permutation.

Definition inb (x : nat) (l : list nat) : bool := existsb (Nat.eqb x) l.
Lemma inb_In x l : inb x l = true <-> In x l.
Proof.
  unfold inb. rewrite existsb_exists. split.
  - intros [y [Hy He]]. apply Nat.eqb_eq in He. subst. exact Hy.
  - intros H. exists x. split; [exact H| apply Nat.eqb_refl].
Qed.

Fixpoint trel (t : tree) (a b : nat) : bool :=
  match t with
  | Node ow ks => (inb a ow && (inb b ow || inb b (flat_map points ks))) || existsb (fun k => trel k a b) ks
  end.
Definition frel (F : forest) : rel := fun a b => existsb (fun t => trel t a b) (roots F).

(* ---- facts about [after] ---- *)
Lemma after_asym o x y : NoDup o -> after o x y -> after o y x -> False.
Proof.
  induction o as [|z r IH]; intros Hnd H1 H2; cbn [after] in *; [contradiction|].
  inversion Hnd as [|? ? Hz Hnd']; subst.
  destruct H1 as [[-> Hx]|H1]; destruct H2 as [[E Hy]|H2].
  - subst. contradiction.
  - apply after_In in H2. destruct H2 as [H2 _]. contradiction.
  - subst. apply after_In in H1. destruct H1 as [H1 _]. contradiction.
  - apply IH; assumption.
Qed.
Lemma after_total o x y : In x o -> In y o -> x <> y -> after o x y \/ after o y x.
Proof.
  induction o as [|z r IH]; intros Hx Hy Hne; [contradiction|]. cbn [after].
  destruct Hx as [->|Hx]; destruct Hy as [->|Hy].
  - congruence.
  - right. left. split; [reflexivity| exact Hy].
  - left. left. split; [reflexivity| exact Hx].
  - destruct (IH Hx Hy Hne) as [H|H]; [left; right; exact H| right; right; exact H].
Qed.
Lemma after_snoc o a x z : after (o ++ [a]) x z <-> after o x z \/ (In z o /\ x = a).
Proof.
  induction o as [|c r IH]; cbn [app after].
  - split; [intros [[_ []]|[]]| intros [[]|[[] _]]].
  - rewrite IH, in_app_iff. cbn [In]. split.
    + intros [[-> [H|[H|[]]]]|[H|[H1 H2]]].
      * left. left. split; [reflexivity| exact H].
      * right. split; [left; reflexivity| symmetry; exact H].
      * left. right. exact H.
      * right. split; [right; exact H1| exact H2].
    + intros [[[-> H]|H]|[[->|H1] ->]].
      * left. split; [reflexivity| left; exact H].
      * right. left. exact H.
      * left. split; [reflexivity| right; left; reflexivity].
      * right. right. split; [exact H1| reflexivity].
Qed.

(* compatibility in the grammar's sense, phrased with [after] *)
Lemma compat_rev_after (r : rel) : forall o,
  compat (rev o) r <-> (forall x z, after o x z -> r z x = true -> r x z = true).
Proof.
  induction o as [|a o IH] using rev_ind.
  - cbn. split; [intros _ x z []| intros _; exact I].
  - rewrite rev_app_distr. cbn [rev app compat]. rewrite IH. split.
    + intros [Hh Ht] x z Ha. apply after_snoc in Ha. destruct Ha as [Ha|[Hz ->]].
      * apply Ht. exact Ha.
      * apply Hh. rewrite <- in_rev. exact Hz.
    + intros H. split.
      * intros z Hz. apply H. apply after_snoc. right. split; [rewrite in_rev; exact Hz| reflexivity].
      * intros x z Ha. apply H. apply after_snoc. left. exact Ha.
Qed.

(* ---- the relation of a rose tree ---- *)
Lemma trel_points t : forall a b, trel t a b = true -> In a (points t) /\ In b (points t).
Proof.
  induction t as [ow ks IH] using tree_ind'. intros a b H. cbn [trel points] in *.
  apply orb_true_iff in H. destruct H as [H|H].
  - apply andb_true_iff in H. destruct H as [Ha Hb]. apply inb_In in Ha. apply orb_true_iff in Hb.
    split; [apply in_or_app; right; exact Ha|]. destruct Hb as [Hb|Hb]; apply inb_In in Hb; apply in_or_app; [right| left]; exact Hb.
  - apply existsb_exists in H. destruct H as [k [Hk H]]. rewrite Forall_forall in IH. destruct (IH k Hk a b H) as [H1 H2].
    split; apply in_or_app; left; apply in_flat_map; exists k; auto.
Qed.

Lemma NoDup_app_disjoint {A} (l1 l2 : list A) y : NoDup (l1 ++ l2) -> In y l1 -> In y l2 -> False.
Proof.
  induction l1 as [|p l1 IH]; intros Hnd H1 H2; [contradiction|]. cbn [app] in Hnd. inversion Hnd as [|? ? Hp Hnd']; subst.
  destruct H1 as [->|H1]; [apply Hp; apply in_or_app; right; exact H2| apply IH; assumption].
Qed.

Lemma flat_map_unique (ks : list tree) k k' x :
  NoDup (flat_map points ks) -> In k ks -> In k' ks -> In x (points k) -> In x (points k') -> k = k'.
Proof.
  induction ks as [|c ks IH]; intros Hnd Hk Hk' Hx Hx'; [contradiction|]. cbn [flat_map] in Hnd.
  assert (Hdis : forall y, In y (points c) -> In y (flat_map points ks) -> False).
  { intros y H1 H2. apply (NoDup_app_disjoint _ _ y Hnd H1 H2). }
  destruct Hk as [->|Hk]; destruct Hk' as [->|Hk'].
  - reflexivity.
  - exfalso. apply (Hdis x Hx). apply in_flat_map. exists k'. auto.
  - exfalso. apply (Hdis x Hx'). apply in_flat_map. exists k. auto.
  - apply IH; try assumption. apply NoDup_app_r in Hnd. exact Hnd.
Qed.

(* among disjoint trees only the one holding a can relate a to anything *)
Lemma existsb_trel_unique ks k a b :
  NoDup (flat_map points ks) -> In k ks -> In a (points k) -> existsb (fun k' => trel k' a b) ks = trel k a b.
Proof.
  intros Hnd Hk Ha. destruct (trel k a b) eqn:E.
  - apply existsb_exists. exists k. auto.
  - destruct (existsb (fun k' => trel k' a b) ks) eqn:E2; [|reflexivity].
    apply existsb_exists in E2. destruct E2 as [k' [Hk' H]]. destruct (trel_points k' a b H) as [Ha' _].
    rewrite (flat_map_unique ks k k' a Hnd Hk Hk' Ha Ha') in E. congruence.
Qed.

Definition tcond (o : list nat) (t : tree) : Prop := forall x z, after o x z -> trel t z x = true -> trel t x z = true.

Lemma respects_iff_tcond t : forall o, NoDup o -> NoDup (points t) -> (forall x, In x (points t) -> In x o) ->
  (respects o t <-> tcond o t).
Proof.
  induction t as [ow ks IH] using tree_ind'. intros o Hndo Hnd Hin.
  rewrite respects_unfold, all_respect_forall. cbn [points] in Hnd, Hin.
  assert (Hndk : NoDup (flat_map points ks)) by (apply NoDup_app_l in Hnd; exact Hnd).
  assert (Hdis : forall x, In x ow -> In x (flat_map points ks) -> False).
  { intros x H1 H2. apply (NoDup_app_disjoint _ _ x Hnd H2 H1). }
  assert (Hkid : forall k, In k ks -> NoDup (points k) /\ (forall x, In x (points k) -> In x o)).
  { intros k Hk. split; [apply (NoDup_flat_map_in ks k Hndk Hk)|]. intros x Hx. apply Hin. apply in_or_app. left. apply in_flat_map. exists k. auto. }
  (* the relation of the node, by where the first argument lives *)
  assert (Hown : forall a b, In a ow -> trel (Node ow ks) a b = inb b ow || inb b (flat_map points ks)).
  { intros a b Ha. cbn [trel]. rewrite (proj2 (inb_In a ow) Ha). cbn [andb].
    destruct (inb b ow || inb b (flat_map points ks)) eqn:E; [reflexivity|]. cbn [orb].
    destruct (existsb (fun k => trel k a b) ks) eqn:E2; [|reflexivity]. apply existsb_exists in E2. destruct E2 as [k [Hk H]].
    destruct (trel_points k a b H) as [Hak _]. exfalso. apply (Hdis a Ha). apply in_flat_map. exists k. auto. }
  assert (Hsub : forall k a b, In k ks -> In a (points k) -> trel (Node ow ks) a b = trel k a b).
  { intros k a b Hk Ha. cbn [trel].
    assert (Hna : inb a ow = false).
    { destruct (inb a ow) eqn:E; [|reflexivity]. apply inb_In in E. exfalso. apply (Hdis a E). apply in_flat_map. exists k. auto. }
    rewrite Hna. cbn [andb orb]. apply existsb_trel_unique; assumption. }
  rewrite Forall_forall in IH. split.
  - intros [H1 H2] x z Ha Hr. rewrite Forall_forall in H2.
    destruct (trel_points _ _ _ Hr) as [Hz Hx]. cbn [points] in Hz, Hx. apply in_app_or in Hz. destruct Hz as [Hz|Hz].
    + (* z below the node: inside one child *)
      apply in_flat_map in Hz. destruct Hz as [k [Hk Hzk]]. rewrite (Hsub k z x Hk Hzk) in Hr.
      destruct (trel_points _ _ _ Hr) as [_ Hxk]. rewrite (Hsub k x z Hk Hxk).
      destruct (Hkid k Hk) as [Hndk' Hink]. apply (proj1 (IH k Hk o Hndo Hndk' Hink) (H2 k Hk) x z Ha Hr).
    + (* z owned by the node *)
      apply in_app_or in Hx. destruct Hx as [Hx|Hx].
      * exfalso. apply (after_asym o x z Hndo Ha). apply H1; assumption.
      * rewrite (Hown x z Hx). rewrite (proj2 (inb_In z ow) Hz). reflexivity.
  - intros HC. split.
    + intros x y Hx Hy.
      assert (Hne : x <> y) by (intros ->; apply (Hdis y Hx Hy)).
      destruct (after_total o x y) as [H|H]; [apply Hin; apply in_or_app; right; exact Hx| apply Hin; apply in_or_app; left; exact Hy| exact Hne| exact H|].
      exfalso. assert (Hr : trel (Node ow ks) x y = true).
      { rewrite (Hown x y Hx). rewrite (proj2 (inb_In y _) Hy). apply orb_true_r. }
      pose proof (HC y x H Hr) as Hr'. apply in_flat_map in Hy. destruct Hy as [k [Hk Hyk]].
      rewrite (Hsub k y x Hk Hyk) in Hr'. destruct (trel_points _ _ _ Hr') as [_ Hxk].
      apply (Hdis x Hx). apply in_flat_map. exists k. auto.
    + apply Forall_forall. intros k Hk. destruct (Hkid k Hk) as [Hndk' Hink].
      apply (proj2 (IH k Hk o Hndo Hndk' Hink)). intros x z Ha Hr.
      destruct (trel_points _ _ _ Hr) as [Hzk Hxk].
      rewrite <- (Hsub k x z Hk Hxk). apply HC; [exact Ha|]. rewrite (Hsub k z x Hk Hzk). exact Hr.
Qed.

Theorem frespects_iff_compat F o : NoDup (fpoints F) -> Permutation (fpoints F) o ->
  (frespects o F <-> compat (rev o) (frel F)).
Proof.
  intros Hnd Hp. rewrite compat_rev_after. unfold frespects, frel, fpoints in *.
  assert (Hndo : NoDup o) by (eapply Permutation_NoDup; eassumption).
  assert (Hndr : NoDup (flat_map points (roots F))) by (apply NoDup_app_l in Hnd; exact Hnd).
  assert (Hroot : forall t, In t (roots F) -> NoDup (points t) /\ (forall x, In x (points t) -> In x o)).
  { intros t Ht. split; [apply (NoDup_flat_map_in _ t Hndr Ht)|]. intros x Hx. apply (Permutation_in _ Hp).
    apply in_or_app. left. apply in_flat_map. exists t. auto. }
  rewrite Forall_forall. split.
  - intros H x z Ha Hr. apply existsb_exists in Hr. destruct Hr as [t [Ht Hr]]. destruct (Hroot t Ht) as [H1 H2].
    apply existsb_exists. exists t. split; [exact Ht|]. apply (proj1 (respects_iff_tcond t o Hndo H1 H2) (H t Ht) x z Ha Hr).
  - intros HC t Ht. destruct (Hroot t Ht) as [H1 H2]. apply (proj2 (respects_iff_tcond t o Hndo H1 H2)).
    intros x z Ha Hr. destruct (trel_points _ _ _ Hr) as [Hz Hx].
    rewrite <- (existsb_trel_unique (roots F) t x z Hndr Ht Hx). apply HC; [exact Ha|].
    rewrite (existsb_trel_unique (roots F) t z x Hndr Ht Hz). exact Hr.
Qed.

(* the orders C09 enumerates = the permutations of the points that are compatible with the forest's relation *)
Theorem forders_iff_compat F o : NoDup (fpoints F) ->
  (In o (forders F) <-> Permutation (fpoints F) o /\ compat (rev o) (frel F)).
Proof.
  intros Hnd. split.
  - intros H. destruct (forders_sound F o H) as [Hp Hr]. split; [exact Hp| apply (frespects_iff_compat F o Hnd Hp); exact Hr].
  - intros [Hp Hc]. apply forders_complete; [exact Hnd| exact Hp| apply (frespects_iff_compat F o Hnd Hp); exact Hc].
Qed.

(* ---- the order density of the assembled theorem is C09's ---- *)
Section Density.
Variable n : nat.
Variable F : forest.
Hypothesis Hpts : Permutation (seq 0 n) (fpoints F).

Lemma F_nodup : NoDup (fpoints F).
Proof. eapply Permutation_NoDup; [exact Hpts| apply seq_NoDup]. Qed.

Lemma cb_iff_forders sg : In sg (gorders n) -> (cb sg (tab n (frel F)) = true <-> In sg (forders F)).
Proof.
  intros Hsg. destruct (order_facts n sg Hsg) as [_ [_ Hin]]. unfold cb. rewrite compat_b_spec.
  assert (Hext : compat (rev sg) (tget (tab n (frel F))) <-> compat (rev sg) (frel F)).
  { split; apply compat_ext; intros a b Ha Hb; apply in_rev in Ha, Hb; apply Hin in Ha, Hb; [|symmetry]; apply tget_tab; assumption. }
  rewrite Hext, (forders_iff_compat F sg F_nodup). split; [|tauto]. intros Hc. split; [|exact Hc].
  apply perms_perm in Hsg. eapply Permutation_trans; [apply Permutation_sym; exact Hpts| exact Hsg].
Qed.

Theorem gcount_is_fcount : qn (gcount n (tab n (frel F))) = fcount F.
Proof.
  rewrite fcount_is_number_of_orders. f_equal. unfold gcount. apply Permutation_length. apply NoDup_Permutation.
  - apply NoDup_filter. apply perms_NoDup. apply seq_NoDup.
  - apply forders_NoDup. exact F_nodup.
  - intros sg. rewrite filter_In. split.
    + intros [Hsg Hc]. apply (cb_iff_forders sg Hsg). exact Hc.
    + intros H. assert (Hsg : In sg (gorders n)).
      { apply perms_complete; [apply seq_NoDup|]. destruct (forders_sound F sg H) as [Hp _].
        eapply Permutation_trans; [exact Hpts| exact Hp]. }
      split; [exact Hsg| apply (cb_iff_forders sg Hsg); exact H].
Qed.

Theorem gcden_is_order_density sg : In sg (gorders n) -> gcden n sg (tab n (frel F)) = order_density F sg.
Proof.
  intros Hsg. unfold gcden, order_density. rewrite gcount_is_fcount.
  destruct (cb sg (tab n (frel F))) eqn:E; destruct (in_dec order_eq_dec sg (forders F)) as [Hi|Hi]; try reflexivity.
  - exfalso. apply Hi. apply (cb_iff_forders sg Hsg). exact E.
  - apply (cb_iff_forders sg Hsg) in Hi. congruence.
Qed.
End Density.
