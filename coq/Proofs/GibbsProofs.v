From PV Require Import Model.Gibbs.

Section Gibbs.
Context {A : Type} (gamma : A -> Qc).

Lemma E_pi_const cs c : E (pi_fiber gamma cs) (fun _ => c) = c * total gamma cs.
Proof.
  unfold pi_fiber, total. rewrite E_wlist.
  rewrite (sumq_map_ext _ (fun a => c * gamma a)) by (intros; ring). apply sumq_map_scale.
Qed.

Lemma E_gibbs cs f : total gamma cs <> 0 -> E (gibbs gamma cs) f = E (pi_fiber gamma cs) f / total gamma cs.
Proof.
  intros Ht. unfold gibbs, pi_fiber, wlist. generalize (total gamma cs) Ht. clear Ht. intros t Hnz.
  induction cs as [|a cs IH]; cbn [map E].
  - field. exact Hnz.
  - rewrite IH. field. exact Hnz.
Qed.

Lemma gibbs_mass cs : total gamma cs <> 0 -> mass (gibbs gamma cs) = 1.
Proof. intros Ht. unfold mass. rewrite E_gibbs by exact Ht. rewrite E_pi_const. field. exact Ht. Qed.

(* A kernel that redraws from the target restricted to a candidate list which is the same from every
   member of the list leaves the target restricted to that list invariant. *)
Theorem gibbs_fiber_invariant cs (cand : A -> list A) f :
  total gamma cs <> 0 -> (forall x, In x cs -> cand x = cs) ->
  E (pi_fiber gamma cs) (fun x => E (gibbs gamma (cand x)) f) = E (pi_fiber gamma cs) f.
Proof.
  intros Ht Hc.
  rewrite (E_ext_in _ _ (fun _ => E (pi_fiber gamma cs) f / total gamma cs)).
  - rewrite E_pi_const. field; auto.
  - intros a Ha. unfold pi_fiber, wlist in Ha. rewrite map_map in Ha. cbn [fst] in Ha. rewrite map_id in Ha.
    rewrite Hc by auto. apply E_gibbs; auto.
Qed.

(* The whole state space partitioned into fibers (blocks): the target is the concatenation of the restricted
   targets; a move that is a fiber-Gibbs step on every block leaves the whole target invariant. *)
Theorem gibbs_partition_invariant (blocks : list (list A)) (cand : A -> list A) f :
  (forall b, In b blocks -> total gamma b <> 0) ->
  (forall b x, In b blocks -> In x b -> cand x = b) ->
  E (pi_fiber gamma (concat blocks)) (fun x => E (gibbs gamma (cand x)) f) = E (pi_fiber gamma (concat blocks)) f.
Proof.
  intros Ht Hc. induction blocks as [|b bs IH]; [reflexivity|].
  cbn [concat]. unfold pi_fiber, wlist in *. rewrite map_app, !E_app. f_equal.
  - apply (gibbs_fiber_invariant b cand f); [apply Ht; left; reflexivity| intros x Hx; apply (Hc b); [left; reflexivity| exact Hx]].
  - apply IH; [intros b' Hb'; apply Ht; right; exact Hb'| intros b' x Hb' Hx; apply (Hc b'); [right; exact Hb'| exact Hx]].
Qed.

(* a mixture over an auxiliary choice (drawn independently of the state) of invariant kernels is invariant *)
Theorem aux_mixture_invariant {I : Type} (pi : dist A) (aux : dist I) (K : I -> A -> dist A) :
  mass aux = 1 -> (forall i, invariant pi (K i)) -> invariant pi (fun x => bind aux (fun i => K i x)).
Proof.
  intros Hm HK f.
  rewrite (E_ext _ _ (fun x => E aux (fun i => E (K i x) f))) by (intros; apply E_bind).
  rewrite fubini. rewrite (E_ext _ _ (fun _ => E pi f)) by (intros i; apply HK).
  rewrite E_const, Hm. ring.
Qed.
End Gibbs.
