(* The particle-Gibbs update assembled: draw the data order from its conditional law given the tree, run the
   conditional SMC along that order, read the tree off the selected path.  If (i) the complete paths reachable along
   an order are exactly the trees compatible with it, (ii) the weights are target ratios whose final target is
   gamma(tree) * (conditional density of the order), (iii) the order densities sum to one for every tree, then the
   update leaves gamma invariant on the state space.  (i) is C08's support statement + C09's compatibility,
   (ii) is C08_weights_telescope with the last-step correction, (iii) is C09 (density = 1 / number of orders). *)
From PV Require Import Model.Csmc Proofs.CsmcSupport Proofs.CsmcInvariant Proofs.CsmcTarget Proofs.AuxVar Model.Proposals Proofs.ProposalsProofs.
From Coq Require Import Permutation.

Lemma sumq_perm (l l' : list Qc) : Permutation l l' -> sumq l = sumq l'.
Proof. induction 1; cbn [sumq]; [reflexivity| rewrite IHPermutation; reflexivity| ring| congruence]. Qed.
Lemma sumq_map_perm {X} (h : X -> Qc) (l l' : list X) : Permutation l l' -> sumq (map h l) = sumq (map h l').
Proof. intros H. apply sumq_perm. apply Permutation_map. exact H. Qed.
Lemma sumq_filter_zero {X} (h : X -> Qc) (keep : X -> bool) (l : list X) :
  (forall x, In x l -> keep x = false -> h x = 0) -> sumq (map h l) = sumq (map h (filter keep l)).
Proof.
  induction l as [|x l IH]; intros H; cbn [map sumq filter]; [reflexivity|].
  destruct (keep x) eqn:Hk; cbn [map sumq].
  - rewrite IH; [reflexivity| intros y Hy; apply H; right; exact Hy].
  - rewrite (H x (or_introl eq_refl) Hk). rewrite IH; [ring| intros y Hy; apply H; right; exact Hy].
Qed.

Section PG.
Context {Tree Sig A : Type}.
Variable TS : list Tree.
Variable gam : Tree -> Qc.
Variable SIG : list Sig.
Variable cden : Sig -> Tree -> Qc.                       (* density of the order given the tree (0 when incompatible) *)
Variable supp : Sig -> list A -> list A.
Variable qp : Sig -> list A -> A -> Qc.
Variable g : Sig -> list A -> Qc.
Variable dec : Sig -> list A -> Tree.                     (* tree of a complete path (newest element first) *)
Variable enc : Sig -> Tree -> list A.                     (* retained path of a compatible tree (oldest first) *)
Variable rs : @swarm A -> bool.
Variable n : nat.
Variable ops : list op.

Definition compatb (sg : Sig) (t : Tree) : bool := negb (Qc_eq_bool (cden sg t) 0).
Definition paths (sg : Sig) : list (list A) := conts (supp sg) (S (count_upd ops)) [].

Hypothesis Hq : forall sg p a, 0 < qp sg p a.
Hypothesis Hg : forall sg p, 0 < g sg p.
Hypothesis Hm : forall sg p, sumq (map (qp sg p) (supp sg p)) = 1.
Hypothesis Hrs : forall m s, rs (bring m s) = rs s.
Hypothesis Hc : forall t, In t TS -> sumq (map (fun sg => cden sg t) SIG) = 1.
Hypothesis Hreach : forall sg, In sg SIG ->
  Permutation (map (fun path => dec sg (rev path)) (paths sg)) (filter (compatb sg) TS).
Hypothesis Henc : forall sg path, In sg SIG -> In path (paths sg) -> enc sg (dec sg (rev path)) = path.
Hypothesis Htarget : forall sg path, In sg SIG -> In path (paths sg) ->
  g sg (rev path) = gam (dec sg (rev path)) * cden sg (dec sg (rev path)).

Definition K_sigma (sg : Sig) (t : Tree) : dist Tree :=
  dmap (dec sg) (pg_kernel (q_of (supp sg) (qp sg)) (om_of (qp sg) (g sg)) rs n ops (enc sg t)).
Definition pg_update (t : Tree) : dist Tree :=
  bind (wlist (fun sg => cden sg t) SIG) (fun sg => K_sigma sg t).

Lemma slice_invariant sg f : In sg SIG ->
  E (wlist gam TS) (fun t => cden sg t * E (K_sigma sg t) f) = E (wlist gam TS) (fun t => cden sg t * f t).
Proof.
  intros Hsg. rewrite !E_wlist.
  (* restrict both sums to the compatible trees, then reindex by reachable paths *)
  assert (Hz : forall h : Tree -> Qc, sumq (map (fun t => gam t * (cden sg t * h t)) TS)
                = sumq (map (fun path => g sg (rev path) * h (dec sg (rev path))) (paths sg))).
  { intros h.
    rewrite (sumq_filter_zero _ (compatb sg) TS).
    2:{ intros t _ Hk. unfold compatb in Hk. apply negb_false_iff in Hk. apply Qc_eq_bool_correct in Hk. rewrite Hk. ring. }
    rewrite <- (sumq_map_perm _ _ _ (Hreach sg Hsg)). rewrite map_map.
    apply sumq_map_ext. intros path Hp. rewrite (Htarget sg path Hsg Hp). ring. }
  rewrite (Hz (fun t => E (K_sigma sg t) f)), (Hz f).
  rewrite (sumq_map_ext (fun path => g sg (rev path) * E (K_sigma sg (dec sg (rev path))) f)
                        (fun path => g sg (rev path) * E (pg_kernel (q_of (supp sg) (qp sg)) (om_of (qp sg) (g sg)) rs n ops path) (fun p => f (dec sg p)))).
  2:{ intros path Hp. unfold K_sigma. rewrite E_dmap, (Henc sg path Hsg Hp). reflexivity. }
  exact (csmc_final_target_invariant A (supp sg) (qp sg) (g sg) rs n (Hq sg) (Hg sg) (Hm sg) Hrs ops (fun p => f (dec sg p))).
Qed.

Theorem pg_update_invariant : invariant (wlist gam TS) pg_update.
Proof.
  intros f. unfold pg_update.
  rewrite (E_ext _ _ (fun t => sumq (map (fun sg => cden sg t * E (K_sigma sg t) f) SIG))).
  2:{ intros t. rewrite E_bind, E_wlist. reflexivity. }
  rewrite E_sumq_swap.
  rewrite (sumq_map_ext _ (fun sg => E (wlist gam TS) (fun t => cden sg t * f t))) by (intros sg Hsg; apply slice_invariant; exact Hsg).
  rewrite <- E_sumq_swap. apply E_ext_in. intros t Ht.
  unfold wlist in Ht. rewrite map_map in Ht. cbn [fst] in Ht. rewrite map_id in Ht.
  rewrite (sumq_map_ext _ (fun sg => f t * cden sg t)) by (intros; ring).
  rewrite sumq_map_scale, (Hc t Ht). ring.
Qed.
End PG.

(* ---- the premises are satisfiable: two binary steps, one order, a non-uniform target over four "trees" ---- *)
Section Example.
Definition ex_dec (p : list bool) : nat := fold_left (fun acc (b : bool) => (2 * acc + (if b then 1 else 0))%nat) (rev p) 0%nat.
Definition ex_gam (t : nat) : Qc := qn (S t).
Definition ex_paths : list (list bool) := [[true; true]; [true; false]; [false; true]; [false; false]].
Definition ex_TS : list nat := map (fun path => ex_dec (rev path)) ex_paths.
Definition ex_enc (t : nat) : list bool :=
  match t with 0 => [false; false] | 1 => [false; true] | 2 => [true; false] | _ => [true; true] end%nat.

Lemma ex_invariant :
  invariant (wlist ex_gam ex_TS)
    (pg_update [tt] (fun _ _ => 1) (fun _ _ => [true; false]) (fun _ _ _ => half) (fun _ p => ex_gam (ex_dec p))
               (fun _ => ex_dec) (fun _ => ex_enc) (fun _ => true) 2 [Res; Upd]).
Proof.
  apply pg_update_invariant.
  - intros. reflexivity.
  - intros. unfold ex_gam. apply qn_pos. lia.
  - intros. cbn [map sumq]. rewrite Qcplus_0_r. apply half_half.
  - intros. reflexivity.
  - intros. cbn [map sumq]. ring.
  - intros sg _. apply Permutation_refl.
  - intros sg path _ Hp. cbn in Hp. repeat (destruct Hp as [<-|Hp]; [reflexivity|]). contradiction.
  - intros. ring.
Qed.
End Example.
