From PV Require Import Model.Isir.

Section D.
Context {A : Type}.
(* expectation over n iid draws, as a functional *)
Fixpoint Eiid (n : nat) (d : dist A) (g : list A -> Qc) : Qc :=
  match n with
  | O => g []
  | S n' => E d (fun a => Eiid n' d (fun l => g (a :: l)))
  end.
Lemma Eiid_ext n d g g' : (forall l, g l = g' l) -> Eiid n d g = Eiid n d g'.
Proof. revert g g'; induction n as [|n IH]; cbn [Eiid]; intros g g' H; [apply H|].
  apply E_ext; intros a; apply IH; intros l; apply H. Qed.
Lemma Eiid_len n d (g g' : list A -> Qc) : (forall l, length l = n -> g l = g' l) -> Eiid n d g = Eiid n d g'.
Proof. revert g g'; induction n as [|n IH]; cbn [Eiid]; intros g g' H; [apply H; reflexivity|].
  apply E_ext; intros a; apply IH; intros l Hl; apply H; cbn [length]; congruence. Qed.
Lemma Eiid_plus n (d : dist A) (g h : list A -> Qc) : Eiid n d (fun l => g l + h l) = Eiid n d g + Eiid n d h.
Proof. revert g h; induction n as [|n IH]; cbn [Eiid]; intros; [reflexivity|].
  rewrite <- E_plus. apply E_ext; intros a. apply IH. Qed.
Lemma Eiid_scale n (d : dist A) c (g : list A -> Qc) : Eiid n d (fun l => c * g l) = c * Eiid n d g.
Proof. revert g; induction n as [|n IH]; cbn [Eiid]; intros; [reflexivity|].
  rewrite <- E_scale_r. apply E_ext; intros a. apply IH. Qed.
Lemma Eiid_zero n (d : dist A) : Eiid n d (fun _ => 0) = 0.
Proof. induction n as [|n IH]; cbn [Eiid]; [reflexivity|]. rewrite (E_ext _ _ (fun _ => 0)) by (intros; apply IH). apply E_zero. Qed.
Lemma Eiid_const n (d : dist A) c : mass d = 1 -> Eiid n d (fun _ => c) = c.
Proof. intros Hm. induction n as [|n IH]; cbn [Eiid]; [reflexivity|].
  rewrite (E_ext _ _ (fun _ => c)) by (intros; apply IH). rewrite E_const, Hm. ring. Qed.

Fixpoint insert_at (m : nat) (a : A) (l : list A) : list A :=
  match m, l with
  | O, _ => a :: l
  | S m', [] => [a]
  | S m', x :: r => x :: insert_at m' a r
  end.

(* draw the element that will sit at position m first *)
Lemma Eiid_extract m : forall n d g, (m <= n)%nat ->
  Eiid (S n) d g = E d (fun a => Eiid n d (fun l => g (insert_at m a l))).
Proof.
  induction m as [|m IH]; intros n d g Hm.
  - cbn [Eiid]. apply E_ext; intros a. apply Eiid_ext; intros l. destruct l; reflexivity.
  - destruct n as [|n]; [lia|].
    change (Eiid (S (S n)) d g) with (E d (fun x => Eiid (S n) d (fun l => g (x :: l)))).
    rewrite (E_ext _ _ (fun x => E d (fun a => Eiid n d (fun l => g (x :: insert_at m a l))))).
    2:{ intros x. rewrite (IH n d (fun l => g (x :: l))) by lia. reflexivity. }
    rewrite fubini. apply E_ext; intros a. cbn [Eiid]. apply E_ext; intros x. reflexivity.
Qed.
End D.

Section ISIR.
Context {A : Type}.
Variable Q : dist A.
Variable w : A -> Qc.
Hypothesis wpos : forall a, 0 < w a.
Hypothesis Qmass : mass Q = 1.

Notation sumw := (sumw w).
Fixpoint sumwf (f : A -> Qc) (l : list A) : Qc := match l with [] => 0 | x :: r => w x * f x + sumwf f r end.
Definition sel f (l : list A) : Qc := sumwf f l / sumw l.

Lemma E_iid n g : E (iid Q n) g = Eiid n Q g.
Proof.
  revert g. induction n as [|n IH]; intros g; cbn [iid Eiid]; [apply E_ret|].
  rewrite E_bind. apply E_ext; intros a. rewrite E_dmap. apply IH.
Qed.
Lemma E_select l f : E (select w l) f = sel f l.
Proof.
  unfold select, sel. generalize (sumw l) as s. intros s.
  induction l as [|x l IH]; cbn [map E sumwf]; [unfold Qcdiv; ring|]. rewrite IH. unfold Qcdiv. ring.
Qed.

Lemma sumw_insert m a l : sumw (insert_at m a l) = w a + sumw l.
Proof. revert l; induction m as [|m IH]; intros [|x r]; cbn [insert_at Isir.sumw]; try ring. rewrite IH; ring. Qed.
Lemma sumwf_insert f m a l : sumwf f (insert_at m a l) = w a * f a + sumwf f l.
Proof. revert l; induction m as [|m IH]; intros [|x r]; cbn [insert_at sumwf]; try ring. rewrite IH; ring. Qed.
Lemma sel_insert f m a l : sel f (insert_at m a l) = sel f (a :: l).
Proof. unfold sel. rewrite sumw_insert, sumwf_insert. reflexivity. Qed.

Lemma sumw_nonneg l : 0 <= sumw l.
Proof. induction l as [|x r IH]; cbn [Isir.sumw]; [apply Qcle_refl|]. apply Qclt_le_weak. apply Qc_add_pos; [apply wpos|exact IH]. Qed.
Lemma sumw_pos l : l <> [] -> 0 < sumw l.
Proof. destruct l as [|x r]; [congruence|]. intros _. cbn [Isir.sumw]. apply Qc_add_pos; [apply wpos|apply sumw_nonneg]. Qed.

Definition wnth (m : nat) (l : list A) : Qc := match nth_error l m with Some x => w x | None => 0 end.
Definition wfnth f (m : nat) (l : list A) : Qc := match nth_error l m with Some x => w x * f x | None => 0 end.
Lemma wnth_insert m a l : (m <= length l)%nat -> wnth m (insert_at m a l) = w a.
Proof. revert l; induction m as [|m IH]; intros l H; [reflexivity|].
  destruct l as [|x r]; cbn [length] in H; [lia|]. unfold wnth in *. cbn [insert_at nth_error]. apply IH. lia. Qed.
Lemma wfnth_insert f m a l : (m <= length l)%nat -> wfnth f m (insert_at m a l) = w a * f a.
Proof. revert l; induction m as [|m IH]; intros l H; [reflexivity|].
  destruct l as [|x r]; cbn [length] in H; [lia|]. unfold wfnth in *. cbn [insert_at nth_error]. apply IH. lia. Qed.

(* slot independence: E_{Q^(n+1)} [ w(x_m) * sel f ] does not depend on the slot m *)
Lemma T_indep f n m : (m <= n)%nat ->
  Eiid (S n) Q (fun l => wnth m l * sel f l) = Eiid (S n) Q (fun l => wnth 0 l * sel f l).
Proof.
  intros Hm. rewrite (Eiid_extract m) by assumption. cbn [Eiid].
  apply E_ext; intros a. apply Eiid_len; intros l Hl.
  rewrite wnth_insert by lia. rewrite sel_insert. reflexivity.
Qed.
(* each slot of an iid sample has the law Q *)
Lemma slot_marginal f n m : (m <= n)%nat ->
  Eiid (S n) Q (fun l => wfnth f m l) = E Q (fun a => w a * f a).
Proof.
  intros Hm. rewrite (Eiid_extract m) by assumption.
  apply E_ext; intros a. rewrite (Eiid_len _ _ _ (fun _ => w a * f a)).
  - apply Eiid_const. exact Qmass.
  - intros l Hl. apply wfnth_insert. lia.
Qed.

Fixpoint sum_upto (n : nat) (F : nat -> Qc) : Qc := match n with O => 0 | S k => sum_upto k F + F k end.
Lemma Eiid_sum n (d : dist A) k (F : nat -> list A -> Qc) :
  Eiid n d (fun l => sum_upto k (fun m => F m l)) = sum_upto k (fun m => Eiid n d (F m)).
Proof. induction k as [|k IH]; cbn [sum_upto]; [apply Eiid_zero|]. rewrite Eiid_plus, IH. reflexivity. Qed.
Lemma sum_upto_ext k F G : (forall m, (m < k)%nat -> F m = G m) -> sum_upto k F = sum_upto k G.
Proof. induction k as [|k IH]; cbn [sum_upto]; intros H; [reflexivity|]. rewrite IH, H by (intros; try apply H; lia). reflexivity. Qed.
Lemma sum_upto_const k c : sum_upto k (fun _ => c) = qn k * c.
Proof. induction k as [|k IH]; cbn [sum_upto]; [rewrite qn_0; ring| rewrite IH, qn_S; ring]. Qed.

Lemma sum_as_slots (g : A -> Qc) l :
  (fix s (l : list A) := match l with [] => 0 | x :: r => g x + s r end) l
  = sum_upto (length l) (fun m => match nth_error l m with Some x => g x | None => 0 end).
Proof.
  induction l as [|x r IH] using rev_ind; [reflexivity|].
  rewrite app_length; cbn [length]. rewrite Nat.add_1_r. cbn [sum_upto].
  assert (Hs : forall l', (fix s (l : list A) := match l with [] => 0 | x :: r => g x + s r end) (l' ++ [x])
                = (fix s (l : list A) := match l with [] => 0 | x :: r => g x + s r end) l' + g x).
  { induction l' as [|y l' IHl]; cbn [app]; [ring| rewrite IHl; ring]. }
  rewrite Hs, IH. f_equal.
  - apply sum_upto_ext. intros m Hm. rewrite nth_error_app1 by lia. reflexivity.
  - rewrite nth_error_app2 by lia. rewrite Nat.sub_diag. reflexivity.
Qed.
Lemma sumw_as_slots l : sumw l = sum_upto (length l) (fun m => wnth m l).
Proof. unfold wnth. rewrite <- (sum_as_slots w). induction l as [|x r IH]; cbn [Isir.sumw]; [reflexivity| now rewrite IH]. Qed.
Lemma sumwf_as_slots f l : sumwf f l = sum_upto (length l) (fun m => wfnth f m l).
Proof. unfold wfnth. rewrite <- (sum_as_slots (fun x => w x * f x)). induction l as [|x r IH]; cbn [sumwf]; [reflexivity| now rewrite IH]. Qed.

(* i-SIR leaves gamma = w * Q invariant, for every number of particles *)
Theorem isir_invariant n f :
  E Q (fun x => w x * E (isir Q w n x) f) = E Q (fun x => w x * f x).
Proof.
  (* LHS = E_{Q^(n+1)} [ w(l_0) * sel f l ] *)
  assert (H0 : E Q (fun x => w x * E (isir Q w n x) f) = Eiid (S n) Q (fun l => wnth 0 l * sel f l)).
  { cbn [Eiid]. apply E_ext; intros x. unfold isir. rewrite E_bind, E_iid, <- Eiid_scale.
    apply Eiid_ext; intros l. rewrite E_select. reflexivity. }
  rewrite H0.
  (* average over the slots *)
  assert (H1 : qn (S n) * Eiid (S n) Q (fun l => wnth 0 l * sel f l)
               = Eiid (S n) Q (fun l => sumwf f l)).
  { rewrite <- sum_upto_const.
    rewrite <- (sum_upto_ext (S n) (fun m => Eiid (S n) Q (fun l => wnth m l * sel f l))).
    2:{ intros m Hm. apply T_indep. lia. }
    rewrite <- Eiid_sum. apply Eiid_len. intros l Hl.
    assert (Hne : l <> []) by (destruct l; cbn in Hl; [lia|congruence]).
    pose proof (sumw_pos l Hne) as Hp. apply Qc_pos_neq0 in Hp.
    transitivity (sumw l * sel f l).
    - rewrite sumw_as_slots, Hl. clear. induction (S n) as [|k IH]; cbn [sum_upto]; [ring| rewrite IH; ring].
    - unfold sel. field. exact Hp. }
  assert (H2 : Eiid (S n) Q (fun l => sumwf f l) = qn (S n) * E Q (fun a => w a * f a)).
  { rewrite <- sum_upto_const.
    rewrite <- (sum_upto_ext (S n) (fun m => Eiid (S n) Q (fun l => wfnth f m l))).
    2:{ intros m Hm. apply slot_marginal. lia. }
    rewrite <- Eiid_sum. apply Eiid_len. intros l Hl. rewrite sumwf_as_slots, Hl. reflexivity. }
  rewrite H2 in H1. pose proof (qn_pos (S n) ltac:(lia)) as Hn. apply Qc_pos_neq0 in Hn.
  apply (f_equal (fun z => / qn (S n) * z)) in H1.
  rewrite !Qcmult_assoc, Qcmult_inv_l, !Qcmult_1_l in H1 by exact Hn. exact H1.
Qed.

Lemma isir_mass n x : mass (isir Q w n x) = 1.
Proof.
  unfold mass, isir. rewrite E_bind, E_iid. rewrite (Eiid_ext _ _ _ (fun _ => 1)); [apply Eiid_const; exact Qmass|].
  intros l. rewrite E_select. unfold sel.
  assert (Hs : sumwf (fun _ => 1) (x :: l) = sumw (x :: l)).
  { generalize (x :: l). intros l'. induction l' as [|y r IH]; cbn [sumwf Isir.sumw]; [reflexivity| rewrite IH; ring]. }
  rewrite Hs. pose proof (sumw_pos (x :: l) ltac:(congruence)) as Hp. apply Qc_pos_neq0 in Hp. field. exact Hp.
Qed.
End ISIR.
