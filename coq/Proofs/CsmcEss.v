(* PhyClone's adaptive-resampling criterion (relative effective sample size <= threshold) only looks at the multiset of
   weights and the number of particles, so it is symmetric in the sense the invariance theorems require: moving any
   particle to the front does not change the decision.  This discharges the premise [rs (bring m s) = rs s]. *)
From PV Require Import Model.Csmc Model.CsmcCases Proofs.CsmcSupport.

Lemma sumw_sumq {A} (s : @swarm A) : sumw s = sumq (map snd s).
Proof. induction s as [|pw s IH]; cbn [sumw map sumq]; [reflexivity| rewrite IH; reflexivity]. Qed.

Theorem ess_rs_symmetric {A} (thr : Q) (m : nat) (s : @swarm A) : ess_rs thr (bring m s) = ess_rs thr s.
Proof.
  unfold ess_rs, sumw2. rewrite !sumw_sumq, bring_length.
  rewrite !sum_bring. reflexivity.
Qed.

(* PhyClone's schedule for T data points performs T - 1 extension steps after the initial one *)
Lemma sched_count t : count_upd (sched t) = t.
Proof.
  induction t as [|t IH]; [reflexivity|]. destruct t as [|t']; [reflexivity|].
  change (sched (S (S t'))) with (Upd :: Res :: sched (S t')). cbn [count_upd]. rewrite IH. reflexivity.
Qed.
Lemma schedule_count T : (1 <= T)%nat -> S (count_upd (schedule T)) = T.
Proof. intros H. unfold schedule. cbn [count_upd]. rewrite sched_count. lia. Qed.
