(* C06: every Tree method keeps the cached recursion vectors equal to their from-scratch values.
   The argument is the path-to-root one: an edit changes p or a child list at one node, the code
   recomputes r on exactly the path from that node (or its parent) to the root. *)
From PV Require Import Model.LTree Proofs.LTreeBase Proofs.LTreeCons.
Open Scope nat_scope.

Section Cache.
Variable Sf : list vec -> vec.
Variable prior : vec.
Variable vone : vec.
Variable N : nat.
Definition has_len (v : vec) (n : nat) : Prop := length v = n.   (* opaque to [subst] *)
Hypothesis prior_len : has_len prior N.

Notation Fr := (Fr Sf).
Notation pfresh := (pfresh prior).
Notation okn := (okn Sf prior).
Notation cache_ok := (cache_ok Sf prior).
Notation mod_n := (mod_n Sf).
Notation mod_f := (mod_f Sf).
Notation mod_t := (mod_t Sf prior).
Notation update := (update Sf prior).
Notation update_n := (update_n Sf).
Notation fresh := (fresh Sf prior).
Notation fresh_n := (fresh_n Sf prior).
Notation set_root := (set_root Sf prior).
Notation step := (step Sf prior vone).
Notation run := (run Sf prior vone).
Notation edit_ok := (edit_ok Sf prior).

Lemma okn_inv l o p r ks : okn (LNode l o p r ks) -> p = pfresh o /\ r = Fr p (map rr ks) /\ Forall okn ks.
Proof. intros H; inversion H; subst; auto. Qed.
Lemma okn_hered l o p r ks : okn (LNode l o p r ks) -> Forall okn ks.
Proof. intros H; apply okn_inv in H; tauto. Qed.

(* ---- the traversal preserves the invariant when the local replacement does ------------------- *)
Lemma mod_f_ok_aux x f ks :
  Forall (fun k => okn k -> forall ns', mod_n x f k = Some ns' ->
                   (forall m, find_n x k = Some m -> okn m -> Forall okn (f m)) -> Forall okn ns') ks ->
  Forall okn ks -> forall ks', mod_f x f ks = Some ks' ->
  (forall m, find_f x ks = Some m -> okn m -> Forall okn (f m)) -> Forall okn ks'.
Proof.
  induction ks as [|k ks IH]; intros HF Hok ks' E Hf; cbn [LTree.mod_f] in E; [discriminate|].
  inversion HF; subst. inversion Hok; subst. cbn [find_f] in Hf. destruct (mod_n x f k) as [k'|] eqn:Ek.
  - inversion E; subst. apply Forall_app. split; [|assumption]. apply (H1 H3 _ eq_refl).
    intros m Hm. apply Hf. rewrite Hm. reflexivity.
  - destruct (mod_f x f ks) as [r'|] eqn:Er; [|discriminate]. inversion E; subst. constructor; [assumption|].
    apply (IH H2 H4 _ eq_refl). intros m Hm. apply Hf. rewrite (mod_none_find Sf _ _ _ Ek). exact Hm.
Qed.
Lemma mod_n_ok x f :
  forall n, okn n -> forall ns', mod_n x f n = Some ns' ->
  (forall m, find_n x n = Some m -> okn m -> Forall okn (f m)) -> Forall okn ns'.
Proof.
  induction n as [l o p r ks IH] using lnode_ind'. intros Hn ns'. rewrite mod_n_eq, find_n_eq.
  destruct (l =? x) eqn:E.
  - intros H Hf; inversion H; subst. apply Hf; [reflexivity| exact Hn].
  - destruct (mod_f x f ks) as [ks'|] eqn:Ef; [|discriminate]. intros H Hf; inversion H; subst.
    apply okn_inv in Hn. destruct Hn as [Hp [Hr Hks]]. constructor; [|constructor].
    constructor; [exact Hp| reflexivity|]. eapply mod_f_ok_aux; eauto.
Qed.
Lemma mod_f_ok x f :
  forall ns, Forall okn ns -> forall ns', mod_f x f ns = Some ns' ->
  (forall m, find_f x ns = Some m -> okn m -> Forall okn (f m)) -> Forall okn ns'.
Proof.
  intros ns. apply mod_f_ok_aux. apply Forall_forall. intros k _ Hk. apply mod_n_ok; assumption.
Qed.
Lemma set_root_ok t rs : Forall okn rs -> cache_ok (set_root t rs).
Proof. intros H. split; [exact H| reflexivity]. Qed.
Lemma mod_t_ok x f t t' :
  cache_ok t -> mod_t x f t = Some t' ->
  (forall m, find_f x (troots t) = Some m -> okn m -> Forall okn (f m)) -> cache_ok t'.
Proof.
  intros [Hok _] E Hf. apply mod_t_inv in E. destruct E as [rs [E ->]]. apply set_root_ok.
  eapply mod_f_ok; eauto.
Qed.
(* only the record fields next to the forest matter *)
Lemma cache_ok_fields t o l : cache_ok t -> cache_ok (mkT (troots t) (rootr t) o l).
Proof. intros H; exact H. Qed.

Lemma find_f_okn x ns m : Forall okn ns -> find_f x ns = Some m -> okn m.
Proof. apply (find_f_hered okn). intros; eapply okn_hered; eauto. Qed.

(* ---- from-scratch values ------------------------------------------------------------------------ *)
Lemma okn_update_n : forall n, okn n -> update_n n = n.
Proof.
  induction n as [l o p r ks IH] using lnode_ind'. intros H. apply okn_inv in H. destruct H as [Hp [Hr Hks]].
  cbn [LTree.update_n]. assert (E : map update_n ks = ks).
  { apply map_id_Forall. rewrite Forall_forall in *. intros k Hk. apply IH; auto. }
  rewrite E. rewrite <- Hr. reflexivity.
Qed.
Lemma okn_fresh_n : forall n, okn n -> fresh_n n = n.
Proof.
  induction n as [l o p r ks IH] using lnode_ind'. intros H. apply okn_inv in H. destruct H as [Hp [Hr Hks]].
  cbn [LTree.fresh_n]. assert (E : map fresh_n ks = ks).
  { apply map_id_Forall. rewrite Forall_forall in *. intros k Hk. apply IH; auto. }
  rewrite E, <- Hp, <- Hr. reflexivity.
Qed.
Lemma fresh_n_okn : forall n, okn (fresh_n n).
Proof.
  induction n as [l o p r ks IH] using lnode_ind'. cbn [LTree.fresh_n]. constructor; [reflexivity| reflexivity|].
  rewrite Forall_forall in *. intros k Hk. apply in_map_iff in Hk. destruct Hk as [k0 [<- Hk0]]. apply IH; exact Hk0.
Qed.
(* update() repairs r everywhere but trusts p *)
Inductive pok : lnode -> Prop :=
| POk l o p r ks : p = pfresh o -> Forall pok ks -> pok (LNode l o p r ks).
Lemma update_n_okn : forall n, pok n -> okn (update_n n).
Proof.
  induction n as [l o p r ks IH] using lnode_ind'. intros H. inversion H; subst. cbn [LTree.update_n].
  constructor; [reflexivity| reflexivity|].
  rewrite Forall_forall in *. intros k Hk. apply in_map_iff in Hk. destruct Hk as [k0 [<- Hk0]]. apply IH; auto.
Qed.
Lemma okn_pok : forall n, okn n -> pok n.
Proof.
  induction n as [l o p r ks IH] using lnode_ind'. intros H. apply okn_inv in H. destruct H as [Hp [Hr Hks]].
  constructor; [exact Hp|]. rewrite Forall_forall in *. intros k Hk. apply IH; auto.
Qed.
Lemma fresh_cache_ok t : cache_ok (fresh t).
Proof. apply set_root_ok. rewrite Forall_forall. intros k Hk. apply in_map_iff in Hk. destruct Hk as [k0 [<- _]]. apply fresh_n_okn. Qed.
Lemma update_ok t : Forall pok (troots t) -> cache_ok (update t).
Proof.
  intros H. apply set_root_ok. rewrite Forall_forall in *. intros k Hk. apply in_map_iff in Hk.
  destruct Hk as [k0 [<- Hk0]]. apply update_n_okn, H, Hk0.
Qed.
Lemma update_cache_ok t : cache_ok t -> cache_ok (update t).
Proof. intros [H _]. apply update_ok. eapply Forall_impl; [|exact H]. apply okn_pok. Qed.
(* cached = fresh, as an equation *)
Lemma cache_ok_fresh_roots t : cache_ok t -> troots (fresh t) = troots t.
Proof.
  intros [H _]. unfold LTree.fresh, LTree.set_root. cbn [troots]. apply map_id_Forall.
  rewrite Forall_forall in *. intros k Hk. apply okn_fresh_n, H, Hk.
Qed.
Lemma cache_ok_fresh_lik t : cache_ok t -> root_lik (fresh t) = root_lik t.
Proof.
  intros H. pose proof (cache_ok_fresh_roots t H) as E. unfold root_lik. rewrite E.
  destruct H as [_ H]. destruct (troots t) as [|k ks] eqn:Er; [reflexivity|]. f_equal.
  rewrite H by discriminate. unfold LTree.fresh, LTree.set_root in *. cbn [rootr troots] in *. rewrite E. reflexivity.
Qed.
Lemma fresh_fixed_cache_ok t : troots (fresh t) = troots t -> (troots t <> [] -> rootr (fresh t) = rootr t) -> cache_ok t.
Proof.
  intros E1 E2. pose proof (fresh_cache_ok t) as [H1 H2]. rewrite E1 in H1. split; [exact H1|].
  intros Hne. rewrite <- (E2 Hne). rewrite E1 in H2. apply H2. exact Hne.
Qed.

(* ---- relabelling keeps every cached vector ---------------------------------------------------- *)
Lemma set_labels_n_okn : forall n ls, okn n -> okn (set_labels_n ls n).
Proof.
  induction n as [l o p r ks IH] using lnode_ind'. intros ls H. apply okn_inv in H. destruct H as [Hp [Hr Hks]].
  rewrite set_labels_n_eq. constructor; [exact Hp| rewrite map_rr_set_labels; exact Hr|].
  clear - IH Hks. generalize (tl ls). induction ks as [|k ks IHks]; intros ls'; cbn [set_labels_f]; [constructor|].
  inversion IH; subst. inversion Hks; subst. constructor; auto.
Qed.
Lemma set_labels_f_okn : forall ns ls, Forall okn ns -> Forall okn (set_labels_f ls ns).
Proof.
  induction ns as [|k ns IH]; intros ls H; cbn [set_labels_f]; [constructor|]. inversion H; subst.
  constructor; [apply set_labels_n_okn; assumption| apply IH; assumption].
Qed.
Lemma relabel_cache_ok t : cache_ok t -> cache_ok (relabel_nodes t).
Proof.
  intros [H1 H2]. unfold relabel_nodes. split; cbn [troots rootr].
  - apply set_labels_f_okn. exact H1.
  - intros Hne. rewrite map_rr_set_labels. apply H2. intros E. apply Hne. rewrite E. reflexivity.
Qed.

(* ---- data sizes ------------------------------------------------------------------------------------ *)
Lemma okd_len d : okd N d -> length (dp_val d) = N.
Proof. intros [H _]; exact H. Qed.
Lemma okd_nz d : okd N d -> Forall (fun q => q <> 0%Qc) (dp_val d).
Proof. intros [_ H]. eapply Forall_impl; [|exact H]. intros q Hq. apply Qc_pos_neq0. exact Hq. Qed.
Lemma pfresh_length o : Forall (okd N) o -> length (pfresh o) = N.
Proof.
  intros H. apply foldp_length; [exact prior_len|]. eapply Forall_impl; [|exact H]. intros d Hd. apply okd_len. exact Hd.
Qed.

(* ---- the local replacements --------------------------------------------------------------------- *)
(* add_data_point multiplies p AND r in place and recomputes from the parent: the node's own r is still
   right, because r = p (leaf) or r = p * S(children) and the factor commutes *)
Lemma node_add_okn d m : okn m -> okn (node_add d m).
Proof.
  destruct m as [l o p r ks]. intros H. apply okn_inv in H. destruct H as [Hp [Hr Hks]]. cbn [node_add].
  constructor; [rewrite pfresh_app, Hp; reflexivity| | exact Hks].
  rewrite Hr. unfold LTree.Fr. destruct (map rr ks); [reflexivity| apply vmul_swap].
Qed.
(* remove_data_point divides p by the value that was multiplied in, recomputes the node itself *)
Lemma node_remove_okn i m : okn m -> Forall (okd N) (own m) -> okn (node_remove Sf i m).
Proof.
  destruct m as [l o p r ks]. intros H Hd. apply okn_inv in H. destruct H as [Hp [Hr Hks]]. cbn [node_remove own] in *.
  destruct (take_idx i o) as [[d o']|] eqn:Et; [|constructor; auto].
  constructor; [| reflexivity | exact Hks].
  rewrite Hp, (pfresh_take prior _ _ _ _ Et).
  assert (Hperm := take_idx_perm _ _ _ _ Et).
  assert (Hd' : Forall (okd N) (d :: o')) by (eapply Permutation_Forall; eauto).
  inversion Hd'; subst. apply vdiv_vmul; [rewrite pfresh_length by assumption; symmetry; apply okd_len; assumption| apply okd_nz; assumption].
Qed.
Lemma node_graft_okn new m : okn m -> Forall okn new -> okn (node_graft Sf new m).
Proof.
  destruct m as [l o p r ks]. intros H Hn. apply okn_inv in H. destruct H as [Hp [Hr Hks]]. cbn [node_graft].
  constructor; [exact Hp| reflexivity| apply Forall_app; split; assumption].
Qed.

(* ---- the Tree methods ---------------------------------------------------------------------------- *)
Lemma own_in_points x ns m : find_f x ns = Some m -> incl (own m) (points_f ns).
Proof.
  intros H. destruct (find_f_points x ns m H) as [A [B E]]. rewrite E. destruct m as [l o p r ks].
  cbn [own points_n]. intros d Hd. apply in_or_app. right. apply in_or_app. left. apply in_or_app. left. exact Hd.
Qed.
Lemma data_ok_incl t l : data_ok N t -> incl l (points t) -> Forall (okd N) l.
Proof. unfold data_ok. rewrite !Forall_forall. intros H Hi d Hd. apply H, Hi, Hd. Qed.
Lemma data_ok_perm t l : Forall (okd N) l -> Permutation (points t) l -> data_ok N t.
Proof. intros H P. unfold data_ok. eapply Permutation_Forall; [apply Permutation_sym; exact P| exact H]. Qed.

Lemma add_data_point_ok d x t t' :
  cache_ok t -> data_ok N t -> okd N d -> add_data_point Sf prior d x t = Some t' -> cache_ok t' /\ data_ok N t'.
Proof.
  intros Hc Hd Hok E. pose proof (add_data_point_spec _ _ _ _ _ _ E) as [_ [P _]]. split.
  - unfold LTree.add_data_point in E. destruct (in_tree (dp_idx d) t); [discriminate|]. destruct x as [y|].
    + destruct (mod_t y (fun n => [node_add d n]) t) as [t1|] eqn:Em; [|discriminate]. inversion E; subst.
      apply cache_ok_fields. eapply mod_t_ok; [exact Hc|exact Em|]. intros m _ Hm. constructor; [|constructor].
      apply node_add_okn. exact Hm.
    + inversion E; subst. apply cache_ok_fields. exact Hc.
  - eapply data_ok_perm; [|exact P]. constructor; assumption.
Qed.
Lemma remove_data_point_ok i x t d t' :
  cache_ok t -> data_ok N t -> remove_data_point Sf prior i x t = Some (d, t') ->
  cache_ok t' /\ data_ok N t' /\ okd N d.
Proof.
  intros Hc Hd E. pose proof (remove_data_point_spec _ _ _ _ _ _ _ E) as [_ [P _]].
  assert (Hall : Forall (okd N) (d :: points t')) by (eapply Permutation_Forall; [exact P| exact Hd]).
  inversion Hall; subst. split; [|split; assumption].
  unfold LTree.remove_data_point in E. destruct x as [y|].
  - destruct (find_f y (troots t)) as [n|] eqn:Ef; [|discriminate].
    destruct (take_idx i (own n)) as [[d0 o']|]; [|discriminate].
    destruct (mod_t y (fun n => [node_remove Sf i n]) t) as [t1|] eqn:Em; [|discriminate].
    cbn [option_map] in E. inversion E; subst.
    eapply mod_t_ok; [exact Hc|exact Em|]. intros m0 Hfind Hm0. constructor; [|constructor].
    apply node_remove_okn; [exact Hm0|]. eapply data_ok_incl; [exact Hd|].
    intros e He. unfold points. apply in_or_app. left. eapply own_in_points; eauto.
  - destruct (take_idx i (outl t)) as [[d0 o']|]; [|discriminate]. inversion E; subst. apply cache_ok_fields. exact Hc.
Qed.

Lemma create_root_node_ok cs data t t' :
  cache_ok t -> data_ok N t -> Forall (okd N) data -> create_root_node Sf prior cs data t = Some t' ->
  cache_ok t' /\ data_ok N t'.
Proof.
  intros Hc Hd Hok E. pose proof (create_root_node_spec _ _ _ _ _ _ E) as [P _]. split.
  - unfold LTree.create_root_node in E. destruct (take_roots cs (troots t)) as [[sel rem]|] eqn:Et; [|discriminate].
    inversion E; subst. split; cbn [troots rootr]; [|reflexivity]. destruct Hc as [Hc _].
    apply take_roots_perm in Et. assert (Hall : Forall okn (sel ++ rem)) by (eapply Permutation_Forall; eauto).
    apply Forall_app in Hall. destruct Hall as [Hs Hr]. apply Forall_app. split; [exact Hr|].
    constructor; [|constructor]. constructor; [reflexivity| reflexivity| exact Hs].
  - eapply data_ok_perm; [|exact P]. apply Forall_app. split; assumption.
Qed.

Lemma cache_ok_any_fields rs rv o l o' l' : cache_ok (mkT rs rv o l) -> cache_ok (mkT rs rv o' l').
Proof. intros H; exact H. Qed.
Lemma empty_cache_ok : cache_ok (empty_tree vone).
Proof. split; [constructor| intros H; exfalso; apply H; reflexivity]. Qed.

Lemma get_subtree_ok x t sub :
  cache_ok t -> data_ok N t -> get_subtree Sf prior vone x t = Some sub -> cache_ok sub /\ data_ok N sub.
Proof.
  intros [Hc _] Hd E. unfold LTree.get_subtree in E. destruct (find_f x (troots t)) as [n|] eqn:Ef; [|discriminate].
  inversion E; subst. assert (Hn : okn n) by (eapply find_f_okn; eauto). split.
  - apply update_ok. cbn [troots]. constructor; [apply okn_pok; exact Hn| constructor].
  - unfold data_ok. rewrite points_update. unfold points. cbn [troots outl points_f flat_map]. rewrite !app_nil_r.
    eapply data_ok_incl; [exact Hd|]. destruct (find_f_points x _ _ Ef) as [A [B EE]]. unfold points. rewrite EE.
    intros d Hin. apply in_or_app. left. apply in_or_app. right. apply in_or_app. left. exact Hin.
Qed.
Lemma remove_subtree_ok sub t t' :
  cache_ok t -> data_ok N t -> remove_subtree Sf prior vone sub t = Some t' -> cache_ok t' /\ data_ok N t'.
Proof.
  intros Hc Hd E. unfold LTree.remove_subtree in E. destruct (tree_eqb sub t).
  - inversion E; subst. split; [apply empty_cache_ok| constructor].
  - destruct (troots sub) as [|n [|? ?]]; try discriminate. split.
    + eapply mod_t_ok; [exact Hc| exact E|]. intros; constructor.
    + destruct (mod_t_prune_spec _ _ _ _ _ E) as [m [_ [Ho [_ [[A [B [P1 P2]]] _]]]]].
      eapply data_ok_incl; [exact Hd|]. unfold points. rewrite P1, P2, Ho. intros d Hin.
      apply in_app_or in Hin. destruct Hin as [Hin|Hin]; [|apply in_or_app; right; exact Hin].
      apply in_or_app. left. apply in_app_or in Hin. destruct Hin; apply in_or_app; [left; assumption| right; apply in_or_app; right; assumption].
Qed.
Lemma add_subtree_ok sub par t t' :
  cache_ok t -> data_ok N t -> cache_ok sub -> data_ok N sub ->
  add_subtree Sf prior sub par t = Some t' -> cache_ok t' /\ data_ok N t'.
Proof.
  intros Hc Hd [Hcs _] Hds E. pose proof (add_subtree_spec _ _ _ _ _ _ E) as [P _]. split.
  - assert (Hnew : Forall okn (graft_roots t sub)) by (apply set_labels_f_okn; exact Hcs).
    unfold LTree.add_subtree in E. destruct par as [x|].
    + destruct (mod_t x (fun n => [node_graft Sf (graft_roots t sub) n]) t) as [t1|] eqn:Em; [|discriminate].
      inversion E; subst. apply cache_ok_fields. eapply mod_t_ok; [exact Hc| exact Em|].
      intros m _ Hm. constructor; [|constructor]. apply node_graft_okn; assumption.
    + inversion E; subst. split; cbn [troots rootr set_root]; [|reflexivity]. destruct Hc as [Hc _].
      apply Forall_app. split; assumption.
  - eapply data_ok_perm; [|exact P]. apply Forall_app. split; [|exact Hd].
    eapply data_ok_incl; [exact Hds|]. intros d Hin. unfold points. apply in_or_app. left. exact Hin.
Qed.
Lemma hand_over_ok : forall ds s s',
  cache_ok s -> data_ok N s -> Forall (okd N) ds -> hand_over Sf prior ds s = Some s' -> cache_ok s' /\ data_ok N s'.
Proof.
  intros ds s s' Hc Hd Hds E. destruct (hand_over_spec _ _ _ _ _ E) as [E1 [E2 [E3 _]]]. split.
  - destruct Hc as [H1 H2]. split; rewrite E1; [exact H1| rewrite E2; exact H2].
  - unfold data_ok, points in *. rewrite E1, E3. rewrite app_assoc. apply Forall_app. split; assumption.
Qed.
Lemma data_ok_outl t : data_ok N t -> Forall (okd N) (outl t).
Proof. unfold data_ok, points. intros H. apply Forall_app in H. tauto. Qed.

Lemma extract_ok x t par s rest :
  cache_ok t -> data_ok N t -> extract Sf prior vone x t = Some (par, s, rest) -> cache_ok rest /\ data_ok N rest.
Proof.
  intros Hc Hd E. unfold LTree.extract in E. destruct x as [y|].
  - destruct (parent_of y t) as [pr|]; [|discriminate].
    destruct (get_subtree Sf prior vone y t) as [sub|] eqn:Eg; [|discriminate].
    destruct (remove_subtree Sf prior vone sub t) as [rest0|] eqn:Er; [|discriminate].
    destruct (hand_over Sf prior (outl rest0) sub) as [sub1|]; [|discriminate]. inversion E; subst.
    destruct (remove_subtree_ok _ _ _ Hc Hd Er) as [H1 H2]. split.
    + destruct rest0; exact H1.
    + unfold data_ok, points in *. cbn [troots outl]. rewrite app_nil_r. apply Forall_app in H2. tauto.
  - unfold copy in E. destruct (remove_subtree Sf prior vone t t) as [rest0|] eqn:Er; [|discriminate]. inversion E; subst.
    eapply remove_subtree_ok; eauto.
Qed.

(* ---- every edit of the grammar ---------------------------------------------------------------------- *)
Theorem cache_ok_step e t t' :
  cache_ok t -> data_ok N t -> edit_ok N e -> step e t = Some t' -> cache_ok t' /\ data_ok N t'.
Proof.
  intros Hc Hd He E. destruct e as [cs data|d x|i src dst|x par|x s| | | |]; cbn [LTree.step LTree.edit_ok] in *.
  - eapply create_root_node_ok; eauto.
  - eapply add_data_point_ok; eauto.
  - unfold LTree.move_point, copy in E. destruct (remove_data_point Sf prior i src t) as [[d t1]|] eqn:Er; [|discriminate].
    destruct (remove_data_point_ok _ _ _ _ _ Hc Hd Er) as [H1 [H2 H3]]. eapply add_data_point_ok; eauto.
  - unfold LTree.prune_regraft, copy in E. destruct (get_subtree Sf prior vone x t) as [sub|] eqn:Eg; [|discriminate].
    destruct (remove_subtree Sf prior vone sub t) as [pruned|] eqn:Er; [|discriminate].
    destruct (add_subtree Sf prior sub par pruned) as [t1|] eqn:Ea; [|discriminate]. cbn [option_map] in E. inversion E; subst.
    destruct (get_subtree_ok _ _ _ Hc Hd Eg) as [G1 G2]. destruct (remove_subtree_ok _ _ _ Hc Hd Er) as [R1 R2].
    destruct (add_subtree_ok _ _ _ _ R1 R2 G1 G2 Ea) as [A1 A2]. split; [apply update_cache_ok; exact A1|].
    unfold data_ok. rewrite points_update. exact A2.
  - destruct He as [Hs1 Hs2]. unfold LTree.subtree_resample, copy in E.
    destruct (extract Sf prior vone x t) as [[[pr s0] rest]|] eqn:Ee; [|discriminate].
    destruct (add_subtree Sf prior s pr rest) as [t1|] eqn:Ea; [|discriminate].
    destruct (hand_over Sf prior (outl s) t1) as [t2|] eqn:Eh; [|discriminate]. cbn [option_map] in E. inversion E; subst.
    destruct (extract_ok _ _ _ _ _ Hc Hd Ee) as [X1 X2]. destruct (add_subtree_ok _ _ _ _ X1 X2 Hs1 Hs2 Ea) as [A1 A2].
    destruct (hand_over_ok _ _ _ A1 A2 (data_ok_outl _ Hs2) Eh) as [O1 O2]. split; [apply update_cache_ok; exact O1|].
    unfold data_ok. rewrite points_update. exact O2.
  - inversion E; subst. split; [apply relabel_cache_ok; exact Hc| unfold data_ok; rewrite points_relabel; exact Hd].
  - inversion E; subst. split; assumption.
  - inversion E; subst. split; [apply fresh_cache_ok| unfold data_ok, to_from_dict; rewrite points_fresh; exact Hd].
  - inversion E; subst. split; [apply update_cache_ok; exact Hc| unfold data_ok; rewrite points_update; exact Hd].
Qed.

Theorem cache_ok_run : forall es t t',
  cache_ok t -> data_ok N t -> Forall (edit_ok N) es -> run es t = Some t' -> cache_ok t' /\ data_ok N t'.
Proof.
  induction es as [|e es IH]; intros t t' Hc Hd He E; cbn [LTree.run] in E.
  - inversion E; subst. split; assumption.
  - inversion He; subst. destruct (step e t) as [t1|] eqn:Es; [|discriminate].
    destruct (cache_ok_step _ _ _ Hc Hd H1 Es) as [C1 C2]. eapply IH; eauto.
Qed.
End Cache.

(* ---- closed statements (no section hypothesis left but the length of the prior) ---------------------- *)
Theorem C06_step Sf prior vone N e t t' :
  length prior = N -> cache_ok Sf prior t -> data_ok N t -> edit_ok Sf prior N e ->
  step Sf prior vone e t = Some t' -> cache_ok Sf prior t' /\ data_ok N t'.
Proof. intros Hl. apply cache_ok_step. exact Hl. Qed.
Theorem C06_run Sf prior vone N es t t' :
  length prior = N -> cache_ok Sf prior t -> data_ok N t -> Forall (edit_ok Sf prior N) es ->
  run Sf prior vone es t = Some t' -> cache_ok Sf prior t' /\ data_ok N t'.
Proof. intros Hl. apply cache_ok_run. exact Hl. Qed.

(* ---- the boolean checker is sound ----------------------------------------------------------------- *)
Lemma qceqb_eq a b : qceqb a b = true -> a = b.
Proof. unfold qceqb. intros H. apply Qeq_bool_iff in H. apply Qc_is_canon. exact H. Qed.
Lemma veqb_eq : forall a b, veqb a b = true -> a = b.
Proof.
  induction a as [|x a IH]; intros [|y b]; cbn [veqb]; intros H; try discriminate; [reflexivity|].
  apply andb_true_iff in H. destruct H as [H1 H2]. f_equal; [apply qceqb_eq; exact H1| apply IH; exact H2].
Qed.
Lemma oknb_sound Sf prior : forall n, oknb Sf prior n = true -> okn Sf prior n.
Proof.
  induction n as [l o p r ks IH] using lnode_ind'. cbn [oknb]. intros H.
  apply andb_true_iff in H. destruct H as [H H3]. apply andb_true_iff in H. destruct H as [H1 H2].
  constructor; [apply veqb_eq; exact H1| apply veqb_eq; exact H2|].
  rewrite forallb_forall in H3. rewrite Forall_forall in *. intros k Hk. apply IH; [exact Hk| apply H3; exact Hk].
Qed.
Lemma cache_okb_sound Sf prior t : cache_okb Sf prior t = true -> cache_ok Sf prior t.
Proof.
  unfold cache_okb. intros H. apply andb_true_iff in H. destruct H as [H1 H2]. split.
  - rewrite forallb_forall in H1. rewrite Forall_forall. intros k Hk. apply oknb_sound, H1, Hk.
  - intros Hne. destruct (troots t); [exfalso; apply Hne; reflexivity|]. apply veqb_eq. exact H2.
Qed.
