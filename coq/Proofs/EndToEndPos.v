(* Positivity of the FS-CRP density exp(log_p_one) (C03's specification evaluated on C02's root vectors) on EVERY rose
   forest, for positive concentration, positive root-penalty base, outlier priors in [0,1) and positive grid
   likelihoods.  This is what the assembled particle-Gibbs theorem (C01) needs from its target. *)
From PV Require Import Model.EndToEnd Proofs.PermProofs Proofs.DensityProofs Proofs.MarginalProofs Proofs.MarginalSums.
From Coq Require Import Bool.

Lemma prodq_pos l : (forall x, In x l -> 0 < x) -> 0 < prodq l.
Proof.
  induction l as [|a l IH]; intros H; cbn [prodq]; [reflexivity|].
  apply Qc_mul_pos; [apply H; left; reflexivity| apply IH; intros x Hx; apply H; right; exact Hx].
Qed.
Lemma prodq_map_pos {A} (f : A -> Qc) l : (forall a, In a l -> 0 < f a) -> 0 < prodq (map f l).
Proof. intros H. apply prodq_pos. intros x Hx. apply in_map_iff in Hx. destruct Hx as [a [<- Ha]]. apply H, Ha. Qed.

Lemma sumq_pos l : l <> [] -> (forall x, In x l -> 0 < x) -> 0 < sumq l.
Proof.
  destruct l as [|a l]; intros Hne H; [congruence|]. cbn [sumq].
  apply Qc_add_pos; [apply H; left; reflexivity|]. apply sumq_nonneg. intros x Hx. apply Qc_lt_le, H. right; exact Hx.
Qed.

Lemma In_firstn {A} (x : A) : forall k l, In x (firstn k l) -> In x l.
Proof.
  induction k as [|k IH]; intros l H; [destruct H|]. destruct l as [|a l]; [destruct H|].
  cbn [firstn] in H. destruct H as [->|H]; [left; reflexivity| right; apply IH, H].
Qed.

Lemma qfact_pos n : 0 < qfact n.
Proof. unfold qfact. apply qn_pos. apply lt_O_fact. Qed.

Lemma nclones_pos t : (1 <= nclones t)%nat.
Proof. destruct t as [o ks]. cbn [nclones]. lia. Qed.

(* ---- the prior terms ---- *)
Lemma crp_tree_pos t : 0 < crp_tree t.
Proof.
  induction t as [o ks IH] using PermProofs.tree_ind'. cbn [crp_tree]. apply Qc_mul_pos; [apply qfact_pos|].
  apply prodq_map_pos. intros k Hk. rewrite Forall_forall in IH. apply IH, Hk.
Qed.
Lemma spec_crp_pos alpha F : 0 < alpha -> 0 < spec_crp alpha F.
Proof.
  intros Ha. unfold spec_crp. apply Qc_mul_pos; [apply Qcpower_gt0, Ha|]. apply prodq_map_pos. intros t _. apply crp_tree_pos.
Qed.
Lemma root_penalty_pos c R : 0 < c -> 0 < root_penalty c R.
Proof.
  intros Hc. destruct R as [|r]; cbn [root_penalty]; [reflexivity|].
  apply Qc_div_pos; [apply Qc_inv_pos, Qcpower_gt0, Hc| apply geom_pos, Hc].
Qed.
Lemma spec_topo_one_pos c F : 0 < c -> 0 < spec_topo_one c F.
Proof.
  intros Hc. unfold spec_topo_one. apply Qc_mul_pos; [|apply root_penalty_pos, Hc].
  apply prodq_map_pos. intros t _. apply Qc_inv_pos, Qcpower_gt0, qn_pos. apply nclones_pos.
Qed.
Lemma spec_topo_marg_pos F : 0 < spec_topo_marg F.
Proof. unfold spec_topo_marg. apply Qc_inv_pos, Qcpower_gt0, qn_pos. lia. Qed.
Lemma mult_tree_pos t : 0 < mult_tree t.
Proof.
  induction t as [o ks IH] using PermProofs.tree_ind'. cbn [mult_tree]. apply Qc_mul_pos; [apply qfact_pos|].
  apply prodq_map_pos. intros k Hk. rewrite Forall_forall in IH. apply IH, Hk.
Qed.
Lemma spec_mult_pos F : 0 < spec_mult F.
Proof.
  unfold spec_mult. apply Qc_inv_pos, Qc_mul_pos; [apply qfact_pos|]. apply prodq_map_pos. intros t _. apply mult_tree_pos.
Qed.

Lemma prior_in_pos d : dp_ok d -> 0 < prior_in d.
Proof.
  intros [H0 [H1 _]]. unfold prior_in. destruct (Qc_eq_dec (dp_p d) 0); [reflexivity|]. apply Qcpower_gt0. qlra.
Qed.
Lemma prior_out_pos d : dp_ok d -> 0 < prior_out d.
Proof.
  intros [H0 [H1 _]]. unfold prior_out. destruct (Qc_eq_dec (dp_p d) 0) as [|Hne]; [reflexivity|]. apply Qcpower_gt0.
  destruct (Qcle_lt_or_eq _ _ H0) as [H|H]; [exact H| congruence].
Qed.
Lemma spec_outlier_prior_pos D F : (forall i, dp_ok (D i)) -> 0 < spec_outlier_prior D F.
Proof.
  intros H. unfold spec_outlier_prior.
  apply Qc_mul_pos; apply prodq_map_pos; intros i _; [apply prior_in_pos| apply prior_out_pos]; apply H.
Qed.

(* ---- the outlier marginal ---- *)
Lemma single_clone_sum_pos v : v <> [] -> (forall x, In x v -> 0 < x) -> 0 < sumq (single_clone_rootR v).
Proof.
  intros Hne Hpos. unfold single_clone_rootR.
  assert (HG : 0 < / qn (length v)) by (apply Qc_inv_pos, qn_pos; destruct v; [congruence| cbn [length]; lia]).
  apply sumq_pos.
  - destruct v as [|a v]; [congruence|]. cbn [length seq map]. discriminate.
  - intros x Hx. apply in_map_iff in Hx. destruct Hx as [k [<- Hk]]. apply Qc_mul_pos; [exact HG|].
    apply sumq_pos.
    + destruct v as [|a v]; [congruence|]. cbn [firstn map]. discriminate.
    + intros y Hy. apply in_map_iff in Hy. destruct Hy as [z [<- Hz]]. apply Qc_mul_pos; [exact HG|].
      apply Hpos. eapply In_firstn; exact Hz.
Qed.
Lemma spec_outlier_marg_pos val : (forall v, In v val -> v <> [] /\ forall x, In x v -> 0 < x) -> 0 < spec_outlier_marg val.
Proof.
  intros H. unfold spec_outlier_marg, spec_data_marg. cbn [roots]. apply prodq_map_pos.
  intros r Hr. apply in_map_iff in Hr. destruct Hr as [v [<- Hv]]. destruct (H v Hv) as [Hne Hp].
  apply single_clone_sum_pos; assumption.
Qed.

(* ---- the data term: last entries of C02's root vectors ---- *)
Section Data.
Variables (G nsamp : nat) (D : nat -> dpoint).
Hypothesis HG : (1 <= G)%nat.
Hypothesis Hdata : data_ok G nsamp D.

Lemma payloads_mtree_of t ds : In ds (Marginal.payloads (mtree_of D t)) -> exists o, ds = map (fun i => dp_val (D i)) o.
Proof.
  induction t as [o ks IH] using PermProofs.tree_ind'. cbn [mtree_of Marginal.payloads]. intros [<-|H]; [exists o; reflexivity|].
  apply in_flat_map in H. destruct H as [mt [Hmt Hds]]. apply in_map_iff in Hmt. destruct Hmt as [k [<- Hk]].
  rewrite Forall_forall in IH. apply (IH k Hk Hds).
Qed.

Lemma payloads_proj s (mt : Marginal.mtree) ds :
  In ds (Marginal.payloads (Marginal.proj s mt)) -> exists ms, In ms (Marginal.payloads mt) /\ ds = map (fun d => nth s d []) ms.
Proof.
  revert ds. induction mt as [ms ks IH] using MarginalSums.tree_ind'. intros ds. cbn [Marginal.proj Marginal.payloads].
  intros [<-|H]; [exists ms; split; [left; reflexivity| reflexivity]|].
  apply in_flat_map in H. destruct H as [pt [Hpt Hds]]. apply in_map_iff in Hpt. destruct Hpt as [k [<- Hk]].
  rewrite Forall_forall in IH. destruct (IH k Hk ds Hds) as [ms' [Hin He]]. exists ms'. split; [|exact He].
  right. apply in_flat_map. exists k. split; assumption.
Qed.

Lemma pos_data_proj s t : (s < nsamp)%nat -> Marginal.pos_data G (Marginal.proj s (mtree_of D t)).
Proof.
  intros Hs ds Hds d Hd i Hi.
  destruct (payloads_proj s _ ds Hds) as [ms [Hms ->]]. destruct (payloads_mtree_of t ms Hms) as [o ->].
  rewrite map_map in Hd. apply in_map_iff in Hd. destruct Hd as [j [<- _]].
  destruct (Hdata j) as [_ [Hlen Hv]].
  assert (Hin : In (nth s (dp_val (D j)) []) (dp_val (D j))) by (apply nth_In; rewrite Hlen; exact Hs).
  destruct (Hv _ Hin) as [Hl Hp]. apply Hp. unfold Marginal.vget. apply nth_In. rewrite Hl. exact Hi.
Qed.

Lemma last_vget (v : list Qc) : length v = G -> last v 0 = Marginal.vget v (G - 1).
Proof.
  intros Hl. unfold Marginal.vget. rewrite <- Hl.
  destruct v as [|a v] using rev_ind; [reflexivity|]. rewrite last_last, app_length. cbn [length].
  rewrite app_nth2 by lia. replace (length v + 1 - 1 - length v)%nat with 0%nat by lia. reflexivity.
Qed.

Lemma spec_data_one_pos F : 0 < spec_data_one F (rootR_of G nsamp D F).
Proof.
  unfold spec_data_one. destruct (roots F) as [|t r] eqn:E; [reflexivity|]. apply prodq_map_pos.
  intros v Hv. unfold rootR_of, Marginal.root_R_multi in Hv. apply in_map_iff in Hv. destruct Hv as [s [<- Hs]].
  apply in_seq in Hs. rewrite last_vget by apply R_length. apply root_positive; [|lia].
  intros pt Hpt. rewrite map_map in Hpt. apply in_map_iff in Hpt. destruct Hpt as [k [<- _]]. apply pos_data_proj. lia.
Qed.

Lemma spec_data_marg_pos F : 0 < spec_data_marg F (rootR_of G nsamp D F).
Proof.
  unfold spec_data_marg. destruct (roots F) as [|t r] eqn:E; [reflexivity|]. apply prodq_map_pos.
  intros v Hv. unfold rootR_of, Marginal.root_R_multi in Hv. apply in_map_iff in Hv. destruct Hv as [s [<- Hs]].
  apply in_seq in Hs.
  assert (Hpd : forall pt, In pt (map (Marginal.proj s) (map (mtree_of D) (roots F))) -> Marginal.pos_data G pt).
  { intros pt Hpt. rewrite map_map in Hpt. apply in_map_iff in Hpt. destruct Hpt as [k [<- _]]. apply pos_data_proj. lia. }
  set (rv := Marginal.root_R G _) in *.
  assert (Hl : length rv = G) by apply R_length.
  apply sumq_pos; [destruct rv; [cbn [length] in Hl; lia| discriminate]|].
  intros x Hx. apply In_nth with (d := 0) in Hx. destruct Hx as [k [Hk <-]].
  change (0 < Marginal.vget rv k). apply root_positive; [exact Hpd| lia].
Qed.

Lemma spec_outliers_pos F : 0 < spec_outliers D F.
Proof.
  unfold spec_outliers. apply prodq_map_pos. intros i _. apply spec_outlier_marg_pos.
  intros v Hv. destruct (Hdata i) as [_ [_ H]]. destruct (H v Hv) as [Hl Hp]. split; [|exact Hp].
  intros ->. cbn [length] in Hl. lia.
Qed.

Theorem dens_one_pos alpha c F : 0 < alpha -> 0 < c -> 0 < dens_one alpha c G nsamp D F.
Proof.
  intros Ha Hc. unfold dens_one, spec_log_p_one.
  assert (Hok : forall i, dp_ok (D i)) by (intros i; apply (Hdata i)).
  apply Qc_mul_pos; [apply Qc_mul_pos; [apply Qc_mul_pos; [apply Qc_mul_pos; [apply Qc_mul_pos|]|]|]|].
  - apply spec_crp_pos, Ha.
  - apply spec_topo_one_pos, Hc.
  - apply spec_mult_pos.
  - apply spec_outlier_prior_pos, Hok.
  - apply spec_data_one_pos.
  - apply spec_outliers_pos.
Qed.

Theorem dens_marg_pos alpha F : 0 < alpha -> 0 < dens_marg alpha G nsamp D F.
Proof.
  intros Ha. unfold dens_marg, spec_log_p.
  assert (Hok : forall i, dp_ok (D i)) by (intros i; apply (Hdata i)).
  apply Qc_mul_pos; [apply Qc_mul_pos; [apply Qc_mul_pos; [apply Qc_mul_pos; [apply Qc_mul_pos|]|]|]|].
  - apply spec_crp_pos, Ha.
  - apply spec_topo_marg_pos.
  - apply spec_mult_pos.
  - apply spec_outlier_prior_pos, Hok.
  - apply spec_data_marg_pos.
  - apply spec_outliers_pos.
Qed.
End Data.
