(* C03 proofs, part 3 (Growth): two well-formed forests have the same clade family and the same outliers
   exactly when they are equal up to sibling order - the "exactly when" of Tree.__eq__ / __hash__. *)
From PV Require Import Model.Density Proofs.PermProofs Proofs.DensityProofs Proofs.DensityEquiv.

Definition cl (l : list tree) : list (list nat) := flat_map clades_t l.
Definition fam_incl (A B : list (list nat)) : Prop := forall a, In a A -> exists b, In b B /\ same_set a b.

Lemma same_set_refl a : same_set a a.
Proof. intros x; tauto. Qed.
Lemma same_set_sym a b : same_set a b -> same_set b a.
Proof. intros H x. specialize (H x). tauto. Qed.
Lemma same_set_trans a b c : same_set a b -> same_set b c -> same_set a c.
Proof. intros H1 H2 x. specialize (H1 x). specialize (H2 x). tauto. Qed.
Lemma same_family_split A B : same_family A B <-> fam_incl A B /\ fam_incl B A.
Proof.
  unfold same_family, fam_incl. split; intros [H1 H2]; split; try exact H1.
  - intros b Hb. destruct (H2 b Hb) as [a [Ha Hs]]. exists a. split; [exact Ha| apply same_set_sym; exact Hs].
  - intros b Hb. destruct (H2 b Hb) as [a [Ha Hs]]. exists a. split; [exact Ha| apply same_set_sym; exact Hs].
Qed.
Lemma fam_incl_refl A : fam_incl A A.
Proof. intros a Ha. exists a. split; [exact Ha| apply same_set_refl]. Qed.
Lemma fam_incl_trans A B C : fam_incl A B -> fam_incl B C -> fam_incl A C.
Proof.
  intros H1 H2 a Ha. destruct (H1 a Ha) as [b [Hb Hab]]. destruct (H2 b Hb) as [c [Hc Hbc]].
  exists c. split; [exact Hc| eapply same_set_trans; eassumption].
Qed.
Lemma fam_incl_perm A B : Permutation A B -> fam_incl A B.
Proof. intros Hp a Ha. exists a. split; [eapply Permutation_in; eassumption| apply same_set_refl]. Qed.

(* ---------- nonempty as Forall ---------- *)
Lemma nonempty_unfold o ks : nonempty (Node o ks) <-> o <> [] /\ Forall nonempty ks.
Proof.
  cbn [nonempty].
  assert (H : forall l, (fix all (l : list tree) : Prop := match l with [] => True | k :: r => nonempty k /\ all r end) l
                        <-> Forall nonempty l).
  { induction l as [|k r IH]; [split; constructor|]. split.
    - intros [Hk Hr]. constructor; [exact Hk| apply IH; exact Hr].
    - intros HF. inversion HF; subst. split; [assumption| apply IH; assumption]. }
  rewrite H. tauto.
Qed.

(* ---------- elementary facts on clades ---------- *)
Lemma clades_t_head t : In (points t) (clades_t t).
Proof. destruct t; cbn [clades_t]. left. reflexivity. Qed.
Lemma clades_t_unfold o ks : clades_t (Node o ks) = points (Node o ks) :: cl ks.
Proof. reflexivity. Qed.
Lemma points_unfold o ks : points (Node o ks) = flat_map points ks ++ o.
Proof. reflexivity. Qed.
Lemma points_in_cl t l : In t l -> In (points t) (cl l).
Proof. intros Ht. apply in_flat_map. exists t. split; [exact Ht| apply clades_t_head]. Qed.
Lemma clade_incl t : forall a, In a (clades_t t) -> incl a (points t).
Proof.
  induction t as [o ks IH] using tree_ind'. intros a Ha. rewrite clades_t_unfold in Ha.
  destruct Ha as [<-|Ha]; [apply incl_refl|].
  apply in_flat_map in Ha. destruct Ha as [k [Hk Ha]]. rewrite Forall_forall in IH.
  intros x Hx. rewrite points_unfold. apply in_or_app. left. apply in_flat_map. exists k.
  split; [exact Hk| apply (IH k Hk a Ha x Hx)].
Qed.
Lemma cl_incl l a : In a (cl l) -> incl a (flat_map points l).
Proof.
  intros Ha x Hx. apply in_flat_map in Ha. destruct Ha as [t [Ht Ha]].
  apply in_flat_map. exists t. split; [exact Ht| apply (clade_incl t a Ha x Hx)].
Qed.
Lemma clade_nonempty t : nonempty t -> forall a, In a (clades_t t) -> exists x, In x a.
Proof.
  induction t as [o ks IH] using tree_ind'. intros Hn a Ha. apply nonempty_unfold in Hn. destruct Hn as [Ho Hks].
  rewrite clades_t_unfold in Ha. destruct Ha as [<-|Ha].
  - destruct o as [|x o]; [congruence|]. exists x. rewrite points_unfold. apply in_or_app. right. left. reflexivity.
  - apply in_flat_map in Ha. destruct Ha as [k [Hk Ha]]. rewrite Forall_forall in IH, Hks.
    apply (IH k Hk (Hks k Hk) a Ha).
Qed.
Lemma cl_nonempty l : Forall nonempty l -> forall a, In a (cl l) -> exists x, In x a.
Proof.
  intros HF a Ha. apply in_flat_map in Ha. destruct Ha as [t [Ht Ha]]. rewrite Forall_forall in HF.
  apply (clade_nonempty t (HF t Ht) a Ha).
Qed.

Lemma NoDup_app_disjoint {A} (a b : list A) : NoDup (a ++ b) -> forall x, In x a -> In x b -> False.
Proof.
  induction a as [|y a IH]; cbn [app]; intros Hnd x Ha Hb; [destruct Ha|].
  inversion Hnd as [|? ? Hnotin Hnd']; subst. destruct Ha as [<-|Ha].
  - apply Hnotin. apply in_or_app. right. exact Hb.
  - apply (IH Hnd' x Ha Hb).
Qed.
Lemma NoDup_app_l {A} (a b : list A) : NoDup (a ++ b) -> NoDup a.
Proof.
  induction a as [|x a IH]; cbn [app]; intros H; [constructor|]. inversion H as [|? ? Hn Hd]; subst.
  constructor; [intros Hx; apply Hn, in_or_app; left; exact Hx| apply IH; exact Hd].
Qed.
Lemma NoDup_app_r {A} (a b : list A) : NoDup (a ++ b) -> NoDup b.
Proof.
  induction a as [|x a IH]; cbn [app]; intros H; [exact H|]. inversion H; subst. apply IH. assumption.
Qed.

(* ---------- well-formed lists of trees ---------- *)
Definition W (l : list tree) : Prop := NoDup (flat_map points l) /\ Forall nonempty l.

Lemma W_perm l l' : Permutation l l' -> W l -> W l'.
Proof.
  intros Hp [H1 H2]. split.
  - eapply Permutation_NoDup; [apply Permutation_flat_map_perm; exact Hp| exact H1].
  - eapply Permutation_Forall; eassumption.
Qed.
Lemma W_cons o ks rest : W (Node o ks :: rest) ->
  W ks /\ W rest /\ o <> [] /\ NoDup o
  /\ (forall x, In x (flat_map points ks) -> In x o -> False)
  /\ (forall x, In x (points (Node o ks)) -> In x (flat_map points rest) -> False).
Proof.
  intros [Hnd HF]. cbn [flat_map] in Hnd. inversion HF as [|? ? Ht Hrest]; subst.
  apply nonempty_unfold in Ht. destruct Ht as [Ho Hks].
  pose proof (NoDup_app_l _ _ Hnd) as Hp. pose proof (NoDup_app_r _ _ Hnd) as Hr.
  rewrite points_unfold in Hp.
  repeat split; try assumption.
  - apply (NoDup_app_l _ _ Hp).
  - apply (NoDup_app_r _ _ Hp).
  - apply (NoDup_app_disjoint _ _ Hp).
  - apply (NoDup_app_disjoint _ _ Hnd).
Qed.

Lemma cl_cons t l : cl (t :: l) = clades_t t ++ cl l.
Proof. reflexivity. Qed.
Lemma cl_perm l l' : Permutation l l' -> Permutation (cl l) (cl l').
Proof. apply Permutation_flat_map_perm. Qed.

(* ---------- the reconstruction ---------- *)
Lemma same_family_nil l' : fam_incl (cl l') (cl []) -> l' = [].
Proof.
  intros H. destruct l' as [|r' l']; [reflexivity|].
  destruct (H (points r') (points_in_cl r' (r' :: l') (in_eq _ _))) as [a [[] _]].
Qed.

(* the root of l' matching the first root of l *)
Lemma matching_root t rest l' :
  W (t :: rest) -> W l' -> fam_incl (cl (t :: rest)) (cl l') -> fam_incl (cl l') (cl (t :: rest)) ->
  exists r', In r' l' /\ same_set (points t) (points r').
Proof.
  intros HW HW' H1 H2. destruct t as [o ks].
  destruct (W_cons o ks rest HW) as [_ [_ [Ho [_ [_ Hdis]]]]].
  destruct (H1 (points (Node o ks)) (points_in_cl _ _ (in_eq _ _))) as [b [Hb Hsb]].
  apply in_flat_map in Hb. destruct Hb as [r' [Hr' Hb]]. exists r'. split; [exact Hr'|].
  pose proof (clade_incl r' b Hb) as Hbr.
  destruct (H2 (points r') (points_in_cl r' l' Hr')) as [a [Ha Hsa]].
  destruct o as [|x o]; [congruence|].
  assert (Hx : In x (points (Node (x :: o) ks))) by (rewrite points_unfold; apply in_or_app; right; left; reflexivity).
  assert (Hxa : In x a) by (apply Hsa, Hbr, Hsb, Hx).
  rewrite cl_cons in Ha. apply in_app_or in Ha. destruct Ha as [Ha|Ha].
  - pose proof (clade_incl _ a Ha) as Hat. intros y. split.
    + intros Hy. apply Hbr, Hsb, Hy.
    + intros Hy. apply Hat, Hsa, Hy.
  - exfalso. apply (Hdis x Hx). apply (cl_incl rest a Ha x Hxa).
Qed.

Lemma split_families o ks rest o' ks' rest' :
  W (Node o ks :: rest) -> W (Node o' ks' :: rest') ->
  same_set (points (Node o ks)) (points (Node o' ks')) ->
  fam_incl (cl (Node o ks :: rest)) (cl (Node o' ks' :: rest')) ->
  fam_incl (cl rest) (cl rest') /\ fam_incl (cl ks) (cl ks').
Proof.
  intros HW HW' Hpts H1.
  destruct (W_cons o ks rest HW) as [Wks [Wrest [Ho [Hndo [Hdko Hdis]]]]].
  destruct (W_cons o' ks' rest' HW') as [Wks' [Wrest' [Ho' [Hndo' [Hdko' Hdis']]]]].
  split.
  - intros a Ha. destruct (H1 a) as [b [Hb Hab]]; [rewrite cl_cons; apply in_or_app; right; exact Ha|].
    exists b. split; [|exact Hab]. rewrite cl_cons in Hb. apply in_app_or in Hb. destruct Hb as [Hb|Hb]; [exfalso| exact Hb].
    destruct (cl_nonempty rest (proj2 Wrest) a Ha) as [x Hx].
    apply (Hdis x); [apply Hpts, (clade_incl _ b Hb), Hab, Hx| apply (cl_incl rest a Ha x Hx)].
  - intros a Ha.
    assert (Hat : In a (clades_t (Node o ks))) by (rewrite clades_t_unfold; right; exact Ha).
    destruct (H1 a) as [b [Hb Hab]]; [rewrite cl_cons; apply in_or_app; left; exact Hat|].
    exists b. split; [|exact Hab].
    destruct (cl_nonempty ks (proj2 Wks) a Ha) as [x Hx].
    rewrite cl_cons in Hb. apply in_app_or in Hb. destruct Hb as [Hb|Hb].
    + rewrite clades_t_unfold in Hb. destruct Hb as [<-|Hb]; [exfalso| exact Hb].
      destruct o as [|y o]; [congruence|].
      apply (Hdko y); [|left; reflexivity].
      apply (cl_incl ks a Ha). apply Hab, Hpts. rewrite points_unfold. apply in_or_app. right. left. reflexivity.
    + exfalso. apply (Hdis' x); [apply Hpts, (clade_incl _ a Hat), Hx| apply (cl_incl rest' b Hb), Hab, Hx].
Qed.

Lemma own_incl o ks rest o' ks' rest' :
  W (Node o ks :: rest) -> W (Node o' ks' :: rest') ->
  same_set (points (Node o ks)) (points (Node o' ks')) ->
  fam_incl (cl ks') (cl ks) -> incl o o'.
Proof.
  intros HW HW' Hpts H2 x Hx.
  destruct (W_cons o ks rest HW) as [_ [_ [_ [_ [Hdko _]]]]].
  assert (Hxt : In x (points (Node o' ks'))).
  { apply Hpts. rewrite points_unfold. apply in_or_app. right. exact Hx. }
  rewrite points_unfold in Hxt. apply in_app_or in Hxt. destruct Hxt as [Hxk|Hxo]; [exfalso| exact Hxo].
  apply in_flat_map in Hxk. destruct Hxk as [k' [Hk' Hxk]].
  destruct (H2 (points k') (points_in_cl k' ks' Hk')) as [a [Ha Hs]].
  apply (Hdko x); [|exact Hx]. apply (cl_incl ks a Ha). apply Hs. exact Hxk.
Qed.

Lemma total_cons_lt o ks rest :
  (list_sum (map nclones ks) < list_sum (map nclones (Node o ks :: rest)))%nat
  /\ (list_sum (map nclones rest) < list_sum (map nclones (Node o ks :: rest)))%nat.
Proof. cbn [map nclones]. rewrite list_sum_cons. split; lia. Qed.

Lemma reconstruct n : forall l l', (list_sum (map nclones l) <= n)%nat ->
  W l -> W l' -> fam_incl (cl l) (cl l') -> fam_incl (cl l') (cl l) -> leq l l'.
Proof.
  induction n as [|n IH]; intros l l' Hn HW HW' H1 H2.
  - destruct l as [|[o ks] rest].
    + rewrite (same_family_nil l' H2). apply leq_refl.
    + exfalso. cbn [map nclones] in Hn. rewrite list_sum_cons in Hn. lia.
  - destruct l as [|[o ks] rest].
    + rewrite (same_family_nil l' H2). apply leq_refl.
    + destruct (matching_root (Node o ks) rest l' HW HW' H1 H2) as [r' [Hr' Hpts]].
      destruct (in_split r' l' Hr') as [l1' [l2' ->]].
      set (rest' := l1' ++ l2').
      assert (Hperm : Permutation (l1' ++ r' :: l2') (r' :: rest')) by (apply Permutation_sym, Permutation_middle).
      pose proof (W_perm _ _ Hperm HW') as HW''.
      assert (H1' : fam_incl (cl (Node o ks :: rest)) (cl (r' :: rest'))).
      { eapply fam_incl_trans; [exact H1| apply fam_incl_perm, cl_perm, Hperm]. }
      assert (H2' : fam_incl (cl (r' :: rest')) (cl (Node o ks :: rest))).
      { eapply fam_incl_trans; [apply fam_incl_perm, cl_perm, Permutation_sym, Hperm| exact H2]. }
      destruct r' as [o' ks'].
      destruct (split_families o ks rest o' ks' rest' HW HW'' Hpts H1') as [Hr1 Hk1].
      destruct (split_families o' ks' rest' o ks rest HW'' HW (same_set_sym _ _ Hpts) H2') as [Hr2 Hk2].
      destruct (W_cons o ks rest HW) as [Wks [Wrest [_ [Hndo _]]]].
      destruct (W_cons o' ks' rest' HW'') as [Wks' [Wrest' [_ [Hndo' _]]]].
      destruct (total_cons_lt o ks rest) as [Hlt1 Hlt2].
      assert (Hks : leq ks ks') by (apply IH; try assumption; lia).
      assert (Hrest : leq rest rest') by (apply IH; try assumption; lia).
      assert (Hown : Permutation o o').
      { apply NoDup_Permutation; try assumption. intros x. split.
        - apply (own_incl o ks rest o' ks' rest' HW HW'' Hpts Hk2).
        - apply (own_incl o' ks' rest' o ks rest HW'' HW (same_set_sym _ _ Hpts) Hk1). }
      destruct Hks as [ks1 [Hf Hp]]. destruct Hrest as [m [Hfm Hpm]].
      exists (Node o' ks' :: m). split.
      * constructor; [apply (teq_node o o' ks ks1 ks' Hown Hf Hp)| exact Hfm].
      * eapply Permutation_trans; [apply perm_skip; exact Hpm| apply Permutation_sym; exact Hperm].
Qed.

(* ---------- the converse: equal up to sibling order => same clades ---------- *)
Lemma Forall2_in_l {A B} (R : A -> B -> Prop) l l1 x : Forall2 R l l1 -> In x l -> exists y, In y l1 /\ R x y.
Proof.
  induction 1 as [|a b l l1 Hab HF IH]; intros Hx; [destruct Hx|].
  destruct Hx as [<-|Hx]; [exists b; split; [left; reflexivity| exact Hab]|].
  destruct (IH Hx) as [y [Hy Hr]]. exists y. split; [right; exact Hy| exact Hr].
Qed.
Lemma Forall2_in_r {A B} (R : A -> B -> Prop) l l1 y : Forall2 R l l1 -> In y l1 -> exists x, In x l /\ R x y.
Proof.
  induction 1 as [|a b l l1 Hab HF IH]; intros Hy; [destruct Hy|].
  destruct Hy as [<-|Hy]; [exists a; split; [left; reflexivity| exact Hab]|].
  destruct (IH Hy) as [x [Hx Hr]]. exists x. split; [right; exact Hx| exact Hr].
Qed.

Lemma cl_F2 l l1 : Forall2 (fun t t' => fam_incl (clades_t t) (clades_t t') /\ fam_incl (clades_t t') (clades_t t)) l l1 ->
  fam_incl (cl l) (cl l1) /\ fam_incl (cl l1) (cl l).
Proof.
  intros HF. split; intros a Ha; apply in_flat_map in Ha; destruct Ha as [t [Ht Ha]].
  - destruct (Forall2_in_l _ _ _ t HF Ht) as [t' [Ht' [Hi _]]]. destruct (Hi a Ha) as [b [Hb Hs]].
    exists b. split; [apply in_flat_map; exists t'; split; assumption| exact Hs].
  - destruct (Forall2_in_r _ _ _ t HF Ht) as [t' [Ht' [_ Hi]]]. destruct (Hi a Ha) as [b [Hb Hs]].
    exists b. split; [apply in_flat_map; exists t'; split; assumption| exact Hs].
Qed.

Lemma clades_teq t t' : teq t t' -> fam_incl (clades_t t) (clades_t t') /\ fam_incl (clades_t t') (clades_t t).
Proof.
  intros e. induction e as [o o' ks ks1 ks' Ho Hf IH Hp] using teq_ind'.
  assert (Hpts : Permutation (points (Node o ks)) (points (Node o' ks'))).
  { apply points_teq. apply (teq_node o o' ks ks1 ks' Ho Hf Hp). }
  destruct (cl_F2 ks ks1 IH) as [Ha Hb].
  assert (Hc : fam_incl (cl ks) (cl ks')) by (eapply fam_incl_trans; [exact Ha| apply fam_incl_perm, cl_perm, Hp]).
  assert (Hd : fam_incl (cl ks') (cl ks)).
  { eapply fam_incl_trans; [apply fam_incl_perm, cl_perm, Permutation_sym, Hp| exact Hb]. }
  rewrite !clades_t_unfold. split; intros a [<-|Ha'].
  - eexists. split; [left; reflexivity|]. intros x. split; apply Permutation_in; [exact Hpts| apply Permutation_sym, Hpts].
  - destruct (Hc a Ha') as [b [Hb' Hs]]. exists b. split; [right; exact Hb'| exact Hs].
  - eexists. split; [left; reflexivity|]. intros x. split; apply Permutation_in; [apply Permutation_sym, Hpts| exact Hpts].
  - destruct (Hd a Ha') as [b [Hb' Hs]]. exists b. split; [right; exact Hb'| exact Hs].
Qed.

Lemma leq_same_family l l' : leq l l' -> fam_incl (cl l) (cl l') /\ fam_incl (cl l') (cl l).
Proof.
  intros [l1 [HF Hp]].
  assert (HF' : Forall2 (fun t t' => fam_incl (clades_t t) (clades_t t') /\ fam_incl (clades_t t') (clades_t t)) l l1).
  { eapply Forall2_impl; [|exact HF]. intros x y. apply clades_teq. }
  destruct (cl_F2 l l1 HF') as [Ha Hb]. split.
  - eapply fam_incl_trans; [exact Ha| apply fam_incl_perm, cl_perm, Hp].
  - eapply fam_incl_trans; [apply fam_incl_perm, cl_perm, Permutation_sym, Hp| exact Hb].
Qed.

(* ---------- the theorem ---------- *)
Theorem feq_implies_tree_eq F F' : feq F F' -> tree_eq F F'.
Proof.
  intros [H1 H2]. split.
  - apply same_family_split. apply (leq_same_family _ _ H1).
  - intros x. split; apply Permutation_in; [exact H2| apply Permutation_sym, H2].
Qed.

Theorem clades_determine_tree F F' : wf F -> wf F' -> (tree_eq F F' <-> feq F F').
Proof.
  intros [Hnd HF] [Hnd' HF']. split; [|apply feq_implies_tree_eq].
  intros [Hfam Hout]. apply same_family_split in Hfam. destruct Hfam as [H1 H2].
  unfold fpoints in Hnd, Hnd'. split.
  - apply (reconstruct (list_sum (map nclones (roots F)))); try assumption; try apply Nat.le_refl.
    + split; [apply (NoDup_app_l _ _ Hnd)| exact HF].
    + split; [apply (NoDup_app_l _ _ Hnd')| exact HF'].
  - apply NoDup_Permutation; [apply (NoDup_app_r _ _ Hnd)| apply (NoDup_app_r _ _ Hnd')| exact Hout].
Qed.

(* without the non-empty-clone premise the clade family does not determine the forest:
   an empty clone above a single child has the same clade as the child *)
Lemma empty_clone_collapses :
  let F := mkF [Node [] [Node [0%nat] []]] [] in
  let F' := mkF [Node [0%nat] []] [] in
  NoDup (fpoints F) /\ NoDup (fpoints F') /\ tree_eq F F' /\ ~ feq F F'.
Proof.
  cbv zeta. split; [|split; [|split]].
  - repeat constructor. intros [].
  - repeat constructor. intros [].
  - split; [|intros x; tauto]. split; intros a Ha; exists [0%nat]; (split; [left; reflexivity|]);
      cbn in Ha; intuition (subst; apply same_set_refl).
  - intros HF. pose proof (fclones_feq _ _ HF) as H. discriminate H.
Qed.

(* the example pair of Model/Density.v: well-formed, equal up to sibling order *)
Lemma ex_equiv : wf exF /\ wf exF' /\ feq exF exF' /\ tree_eq exF exF'.
Proof.
  assert (Hfeq : feq exF exF').
  { split; [|apply Permutation_refl].
    exists [Node [0] [Node [3] []; Node [2;1] []]; Node [4] []]%nat. split; [|apply perm_swap].
    constructor; [|constructor; [apply teq_refl| constructor]].
    apply (teq_node _ _ _ [Node [2;1] []; Node [3] []]%nat); [apply Permutation_refl| | apply perm_swap].
    constructor; [|constructor; [apply teq_refl| constructor]].
    apply (teq_node _ _ _ []); [apply perm_swap| constructor| constructor]. }
  split; [|split; [|split; [exact Hfeq| apply feq_implies_tree_eq; exact Hfeq]]].
  - split.
    + unfold fpoints, exF. cbn. repeat (constructor; [cbn; intuition discriminate|]). constructor.
    + unfold exF. cbn [roots]. repeat constructor; cbn; repeat split; discriminate.
  - split.
    + unfold fpoints, exF'. cbn. repeat (constructor; [cbn; intuition discriminate|]). constructor.
    + unfold exF'. cbn [roots]. repeat constructor; cbn; repeat split; discriminate.
Qed.
