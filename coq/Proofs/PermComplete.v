(* Completeness of the enumeration: every permutation of the data points that respects the ancestor constraint is
   enumerated (so the sampler "can produce every such order"). *)
From PV Require Import Model.Perm Proofs.PermProofs Proofs.PermSound.
From Coq Require Import Permutation.

(* ---------- interleavings are complete for disjoint subsequences ---------- *)
Lemma pops_complete {A} (a b : list (list A)) x r :
  In (x, length (x :: r), a ++ r :: b) (pops (a ++ (x :: r) :: b)).
Proof.
  induction a as [|l a IH]; cbn [app pops].
  - left. reflexivity.
  - apply in_or_app. right. apply in_map_iff. exists (x, length (x :: r), a ++ r :: b). split; [reflexivity| exact IH].
Qed.

Lemma Sub_cons_inv {A} (x : A) l y s : Sub (x :: l) (y :: s) -> (x = y /\ Sub l s) \/ Sub (x :: l) s.
Proof. inversion 1; subst; [right; assumption| left; split; [reflexivity| assumption]]. Qed.
Lemma Sub_tail {A} (x : A) l s : Sub (x :: l) s -> Sub l s.
Proof.
  revert x l. induction s as [|y s IH]; intros x l H; inversion H; subst.
  - constructor. eapply IH. eassumption.
  - constructor. assumption.
Qed.
Lemma Sub_notin_head {A} (l : list A) y s : ~ In y l -> Sub l (y :: s) -> Sub l s.
Proof.
  intros Hn H. inversion H; subst; [assumption|]. exfalso. apply Hn. left. reflexivity.
Qed.

Lemma in_concat_split {A} (ls : list (list A)) x :
  In x (concat ls) -> exists a l b, ls = a ++ l :: b /\ In x l.
Proof.
  induction ls as [|l ls IH]; cbn [concat]; intros H; [contradiction|].
  apply in_app_or in H. destruct H as [H|H].
  - exists [], l, ls. split; [reflexivity| exact H].
  - destruct (IH H) as [a [l' [b [-> Hx]]]]. exists (l :: a), l', b. split; [reflexivity| exact Hx].
Qed.

Lemma concat_mid {A} (a b : list (list A)) l : concat (a ++ l :: b) = concat a ++ l ++ concat b.
Proof. rewrite concat_app. cbn [concat]. reflexivity. Qed.

Lemma total_mid {A} (a b : list (list A)) l : total (a ++ l :: b) = (total a + length l + total b)%nat.
Proof. unfold total. rewrite map_app, list_sum_app. simpl. lia. Qed.

Lemma inter_complete {A} n : forall (ls : list (list A)) s,
  total ls = n -> NoDup s -> Permutation (concat ls) s -> Forall (fun l => Sub l s) ls -> In s (inter n ls).
Proof.
  induction n as [|n IH]; intros ls s Ht Hnd Hp HS.
  - assert (length s = 0%nat).
    { rewrite <- (Permutation_length Hp). clear -Ht. induction ls as [|l ls IHl]; [reflexivity|].
      rewrite total_cons in Ht. cbn [concat]. rewrite app_length. rewrite IHl by lia. lia. }
    destruct s; [left; reflexivity| cbn in H; lia].
  - destruct s as [|x s].
    { exfalso. apply Permutation_length in Hp. cbn [length] in Hp.
      assert (length (concat ls) = total ls).
      { clear. induction ls as [|l ls IHl]; [reflexivity|]. cbn [concat]. rewrite app_length, total_cons, IHl. reflexivity. }
      lia. }
    assert (Hx : In x (concat ls)) by (eapply Permutation_in; [apply Permutation_sym; exact Hp| left; reflexivity]).
    destruct (in_concat_split ls x Hx) as [a [l [b [-> Hxl]]]].
    inversion Hnd as [|? ? Hxs Hnd']; subst.
    (* x is the head of l *)
    assert (Hl : exists r, l = x :: r).
    { rewrite Forall_forall in HS. specialize (HS l ltac:(apply in_or_app; right; left; reflexivity)).
      destruct l as [|y r]; [contradiction|]. destruct (Sub_cons_inv _ _ _ _ HS) as [[-> _]|Hsk]; [eexists; reflexivity|].
      exfalso. destruct Hxl as [->|Hxr].
      - apply Hxs. eapply Sub_in; [exact Hsk| left; reflexivity].
      - apply Hxs. eapply Sub_in; [exact Hsk| right; exact Hxr]. }
    destruct Hl as [r ->].
    cbn [inter]. apply in_flat_map. exists (x, length (x :: r), a ++ r :: b). split; [apply pops_complete|].
    cbn [fst snd]. apply in_map. apply IH.
    + rewrite total_mid in *. cbn [length] in Ht. lia.
    + exact Hnd'.
    + rewrite concat_mid in *. cbn [app] in Hp.
      apply (Permutation_cons_inv (a := x)).
      eapply Permutation_trans; [|exact Hp]. apply Permutation_middle.
    + (* the element x occurs in no other list, and only once in l *)
      assert (Hnd_c : NoDup (concat (a ++ (x :: r) :: b))) by (eapply Permutation_NoDup; [apply Permutation_sym; exact Hp| exact Hnd]).
      rewrite concat_mid in Hnd_c. cbn [app] in Hnd_c. apply NoDup_remove_2 in Hnd_c.
      rewrite Forall_forall in *. intros l' Hl'. apply in_app_or in Hl'.
      assert (Hcase : In l' a \/ l' = r \/ In l' b) by (destruct Hl' as [H|[H|H]]; auto).
      destruct Hcase as [Ha|[->|Hb]].
      * apply (Sub_notin_head l' x s); [|apply HS; apply in_or_app; left; exact Ha].
        intros Hin. apply Hnd_c. apply in_or_app. left. apply in_concat. exists l'. split; assumption.
      * specialize (HS (x :: r) ltac:(apply in_or_app; right; left; reflexivity)).
        destruct (Sub_cons_inv _ _ _ _ HS) as [[_ H]|H]; [exact H| eapply Sub_tail; exact H].
      * apply (Sub_notin_head l' x s); [|apply HS; apply in_or_app; right; right; exact Hb].
        intros Hin. apply Hnd_c. apply in_or_app. right. apply in_or_app. right. apply in_concat. exists l'. split; assumption.
Qed.

(* ---------- filtering an order to a set of points ---------- *)
Definition memb (l : list nat) (x : nat) : bool := existsb (Nat.eqb x) l.
Lemma memb_In l x : memb l x = true <-> In x l.
Proof.
  unfold memb. rewrite existsb_exists. split.
  - intros [y [Hy He]]. apply Nat.eqb_eq in He. subst. exact Hy.
  - intros H. exists x. split; [exact H| apply Nat.eqb_refl].
Qed.
Lemma memb_false l x : memb l x = false <-> ~ In x l.
Proof. rewrite <- memb_In. destruct (memb l x); split; congruence. Qed.

Lemma filter_Sub {A} (f : A -> bool) l : Sub (filter f l) l.
Proof. induction l as [|x l IH]; cbn [filter]; [constructor|]. destruct (f x); constructor; exact IH. Qed.

Lemma after_In o x y : after o x y -> In x o /\ In y o.
Proof.
  induction o as [|z r IH]; cbn [after]; [contradiction|]. intros [[-> Hx]|H].
  - split; [right; exact Hx| left; reflexivity].
  - destruct (IH H). split; right; assumption.
Qed.

Lemma after_filter keep o x y : keep x = true -> keep y = true -> after o x y -> after (filter keep o) x y.
Proof.
  intros Hx Hy. induction o as [|z r IH]; cbn [after filter]; [auto|]. intros [[-> Hin]|H].
  - rewrite Hy. cbn [after]. left. split; [reflexivity|]. apply filter_In. split; assumption.
  - destruct (keep z); [cbn [after]; right|]; apply IH; exact H.
Qed.

Lemma respects_filter t : forall keep o, (forall x, In x (points t) -> keep x = true) -> respects o t -> respects (filter keep o) t.
Proof.
  induction t as [ow ks IH] using tree_ind'. intros keep o Hk. rewrite !respects_unfold, !all_respect_forall.
  intros [H1 H2]. split.
  - intros x y Hx Hy. apply after_filter; [apply Hk; cbn [points]; apply in_or_app; right; exact Hx
                                           | apply Hk; cbn [points]; apply in_or_app; left; exact Hy| apply H1; assumption].
  - rewrite Forall_forall in *. intros k Hkin. apply (IH k Hkin).
    + intros x Hx. apply Hk. cbn [points]. apply in_or_app. left. apply in_flat_map. exists k. split; assumption.
    + apply H2. exact Hkin.
Qed.

(* an order in which every B-point comes after every A-point splits as (A-part) ++ (B-part) *)
Lemma split_after (A B : list nat) o :
  NoDup o -> (forall z, In z o -> In z A \/ In z B) -> (forall z, In z A -> In z B -> False) ->
  (forall x y, In x B -> In y A -> In x o -> In y o -> after o x y) ->
  o = filter (memb A) o ++ filter (memb B) o.
Proof.
  induction o as [|z r IH]; intros Hnd Hcov Hdis Haft; [reflexivity|].
  inversion Hnd as [|? ? Hz Hnd']; subst. cbn [filter].
  destruct (Hcov z (or_introl eq_refl)) as [HzA|HzB].
  - assert (memb A z = true) as -> by (apply memb_In; exact HzA).
    assert (memb B z = false) as -> by (apply memb_false; intros H; eapply Hdis; eassumption).
    cbn [app]. f_equal. apply IH; [exact Hnd'| intros; apply Hcov; right; assumption| exact Hdis|].
    intros x y Hx Hy Hxo Hyo. specialize (Haft x y Hx Hy (or_intror Hxo) (or_intror Hyo)). cbn [after] in Haft.
    destruct Haft as [[-> _]|H]; [contradiction| exact H].
  - assert (memb A z = false) as -> by (apply memb_false; intros H; eapply Hdis; eassumption).
    assert (memb B z = true) as -> by (apply memb_In; exact HzB).
    (* no A-point can follow *)
    assert (HnoA : forall y, In y r -> ~ In y A).
    { intros y Hy HyA. specialize (Haft z y HzB HyA (or_introl eq_refl) (or_intror Hy)). cbn [after] in Haft.
      destruct Haft as [[-> _]|H]; [contradiction|]. apply after_In in H. destruct H as [H _]. contradiction. }
    assert (HfA : filter (memb A) r = []).
    { clear -HnoA. induction r as [|y r IHr]; [reflexivity|]. cbn [filter].
      assert (memb A y = false) as -> by (apply memb_false; apply HnoA; left; reflexivity).
      apply IHr. intros y' Hy'. apply HnoA. right. exact Hy'. }
    assert (HfB : filter (memb B) r = r).
    { clear -Hcov HnoA. induction r as [|y r IHr]; [reflexivity|]. cbn [filter].
      assert (In y B) as HyB.
      { destruct (Hcov y (or_intror (or_introl eq_refl))) as [H|H]; [exfalso; eapply HnoA; [left; reflexivity| exact H]| exact H]. }
      assert (memb B y = true) as -> by (apply memb_In; exact HyB). f_equal. apply IHr.
      - intros z' [->|Hz']; [apply Hcov; left; reflexivity| apply Hcov; right; right; exact Hz'].
      - intros y' Hy'. apply HnoA. right. exact Hy'. }
    rewrite HfA, HfB. reflexivity.
Qed.

Lemma filter_perm (A : list nat) o : NoDup A -> NoDup o -> (forall x, In x A -> In x o) -> Permutation A (filter (memb A) o).
Proof.
  intros HA Ho Hsub. apply NoDup_Permutation; [exact HA| apply NoDup_filter; exact Ho|].
  intros x. rewrite filter_In, memb_In. split; [intros H; split; [apply Hsub; exact H| exact H]| intros [_ H]; exact H].
Qed.

(* ---------- completeness of perms, of the children part, of trees and forests ---------- *)
Lemma Sub_single {A} (x : A) s : In x s -> Sub [x] s.
Proof. induction s as [|y s IH]; intros H; [contradiction|]. destruct H as [->|H]; [constructor; apply Sub_nil_l| constructor; apply IH; exact H]. Qed.
Lemma concat_singletons {A} (l : list A) : concat (map (fun x => [x]) l) = l.
Proof. induction l as [|x l IH]; cbn [map concat app]; [reflexivity| now rewrite IH]. Qed.

Lemma perms_complete (l p : list nat) : NoDup l -> Permutation l p -> In p (perms l).
Proof.
  intros Hnd Hp. unfold perms, interleavings. apply inter_complete; [reflexivity| eapply Permutation_NoDup; eassumption| |].
  - rewrite concat_singletons. exact Hp.
  - rewrite Forall_map. apply Forall_forall. intros x Hx. apply Sub_single. eapply Permutation_in; eassumption.
Qed.

Lemma prodl_complete {A} (ls : list (list A)) cs : Forall2 (fun c l => In c l) cs ls -> In cs (prodl ls).
Proof.
  induction 1 as [|c l cs ls Hc _ IH]; cbn [prodl]; [left; reflexivity|].
  apply in_flat_map. exists c. split; [exact Hc| apply in_map; exact IH].
Qed.

Definition complete (t : tree) : Prop :=
  forall o, NoDup (points t) -> Permutation (points t) o -> respects o t -> In o (orders t).

Lemma NoDup_app_l {A} (l1 l2 : list A) : NoDup (l1 ++ l2) -> NoDup l1.
Proof. induction l1 as [|x l IH]; cbn [app]; intros H; [constructor|]. inversion H; subst. constructor; [intros Hx; apply H2; apply in_or_app; left; exact Hx| apply IH; assumption]. Qed.
Lemma NoDup_app_r {A} (l1 l2 : list A) : NoDup (l1 ++ l2) -> NoDup l2.
Proof. induction l1 as [|x l IH]; cbn [app]; intros H; [exact H|]. inversion H; subst. apply IH; assumption. Qed.
Lemma NoDup_flat_map_in ks k : NoDup (flat_map points ks) -> In k ks -> NoDup (points k).
Proof.
  induction ks as [|k' ks IH]; cbn [flat_map]; intros Hnd Hin; [contradiction|]. destruct Hin as [->|Hin].
  - apply NoDup_app_l in Hnd. exact Hnd.
  - apply IH; [apply NoDup_app_r in Hnd; exact Hnd| exact Hin].
Qed.

Lemma kids_complete ks s :
  Forall complete ks -> NoDup (flat_map points ks) -> Permutation (flat_map points ks) s -> Forall (respects s) ks ->
  exists cs, In cs (prodl (map orders ks)) /\ In s (interleavings cs).
Proof.
  intros HC Hnd Hp Hr.
  assert (Hnds : NoDup s) by (eapply Permutation_NoDup; eassumption).
  set (cs := map (fun k => filter (memb (points k)) s) ks).
  assert (HF : Forall2 (fun c k => Permutation (points k) c /\ respects c k) cs ks).
  { unfold cs. clear cs. rewrite Forall_forall in Hr.
    assert (Hsub : forall k, In k ks -> forall x, In x (points k) -> In x s).
    { intros k Hk x Hx. eapply Permutation_in; [exact Hp|]. apply in_flat_map. exists k. split; assumption. }
    assert (Hndk : forall k, In k ks -> NoDup (points k)) by (intros; eapply NoDup_flat_map_in; eassumption).
    clear Hp Hnd HC. induction ks as [|k ks IH]; cbn [map]; constructor.
    - split; [apply filter_perm; [apply Hndk; left; reflexivity| exact Hnds| apply Hsub; left; reflexivity]|].
      apply respects_filter; [intros x Hx; apply memb_In; exact Hx| apply Hr; left; reflexivity].
    - apply IH; intros; [apply Hr| eapply Hsub| apply Hndk]; try right; eauto. }
  exists cs. split.
  - apply prodl_complete. clear -HF HC Hnd. revert HC Hnd. induction HF as [|c k cs' ks' [Hpc Hrc] _ IH]; intros HC Hnd; cbn [map]; constructor.
    + inversion HC; subst. apply H1; [eapply NoDup_flat_map_in; [exact Hnd| left; reflexivity]| exact Hpc| exact Hrc].
    + apply IH; [inversion HC; assumption| cbn [flat_map] in Hnd; apply NoDup_app_r in Hnd; exact Hnd].
  - unfold interleavings. apply inter_complete; [reflexivity| exact Hnds| |].
    + eapply Permutation_trans; [apply Permutation_sym; apply (concat_perm_points ks cs HF)| exact Hp].
    + unfold cs. rewrite Forall_map. apply Forall_forall. intros k _. apply filter_Sub.
Qed.

Lemma complete_all t : complete t.
Proof.
  induction t as [ow ks IH] using tree_ind'. intros o Hnd Hp Hr. cbn [points] in *.
  rewrite respects_unfold, all_respect_forall in Hr. destruct Hr as [H1 H2].
  assert (Hndo : NoDup o) by (eapply Permutation_NoDup; eassumption).
  set (A := flat_map points ks) in *.
  assert (Hsplit : o = filter (memb A) o ++ filter (memb ow) o).
  { apply split_after; [exact Hndo| | |].
    - intros z Hz. apply in_app_or. eapply Permutation_in; [apply Permutation_sym; exact Hp| exact Hz].
    - intros z HzA HzB. clear -Hnd HzA HzB. induction A as [|a A IHA]; [contradiction|].
      cbn [app] in Hnd. inversion Hnd; subst. destruct HzA as [->|HzA]; [apply H1; apply in_or_app; right; exact HzB| apply IHA; assumption].
    - intros x y Hx Hy _ _. apply H1; assumption. }
  set (s := filter (memb A) o) in *. set (p := filter (memb ow) o) in *.
  assert (HndA : NoDup A) by (apply NoDup_app_l in Hnd; exact Hnd).
  assert (Hndow : NoDup ow) by (apply NoDup_app_r in Hnd; exact Hnd).
  assert (HpA : Permutation A s).
  { apply filter_perm; [exact HndA| exact Hndo|]. intros x Hx. eapply Permutation_in; [exact Hp| apply in_or_app; left; exact Hx]. }
  assert (Hpow : Permutation ow p).
  { apply filter_perm; [exact Hndow| exact Hndo|]. intros x Hx. eapply Permutation_in; [exact Hp| apply in_or_app; right; exact Hx]. }
  assert (Hrs : Forall (respects s) ks).
  { rewrite Forall_forall in *. intros k Hk. unfold s. apply respects_filter; [|apply H2; exact Hk].
    intros x Hx. apply memb_In. apply in_flat_map. exists k. split; assumption. }
  destruct (kids_complete ks s IH HndA HpA Hrs) as [cs [Hcs Hs]].
  cbn [orders]. apply in_flat_map. exists cs. split; [exact Hcs|]. apply in_flat_map. exists s. split; [exact Hs|].
  rewrite Hsplit. apply in_map. apply perms_complete; assumption.
Qed.

Theorem orders_complete t o : NoDup (points t) -> Permutation (points t) o -> respects o t -> In o (orders t).
Proof. apply complete_all. Qed.

Theorem forders_complete F o : NoDup (fpoints F) -> Permutation (fpoints F) o -> frespects o F -> In o (forders F).
Proof.
  unfold fpoints, frespects, forders. intros Hnd Hp Hr.
  assert (Hndo : NoDup o) by (eapply Permutation_NoDup; eassumption).
  set (A := flat_map points (roots F)) in *. set (B := outl F) in *.
  set (s := filter (memb A) o). set (p := filter (memb B) o).
  assert (HndA : NoDup A) by (apply NoDup_app_l in Hnd; exact Hnd).
  assert (HndB : NoDup B) by (apply NoDup_app_r in Hnd; exact Hnd).
  assert (HpA : Permutation A s).
  { apply filter_perm; [exact HndA| exact Hndo|]. intros x Hx. eapply Permutation_in; [exact Hp| apply in_or_app; left; exact Hx]. }
  assert (HpB : Permutation B p).
  { apply filter_perm; [exact HndB| exact Hndo|]. intros x Hx. eapply Permutation_in; [exact Hp| apply in_or_app; right; exact Hx]. }
  assert (Hrs : Forall (respects s) (roots F)).
  { rewrite Forall_forall in *. intros k Hk. unfold s. apply respects_filter; [|apply Hr; exact Hk].
    intros x Hx. apply memb_In. apply in_flat_map. exists k. split; assumption. }
  assert (HC : Forall complete (roots F)) by (apply Forall_forall; intros; apply complete_all).
  destruct (kids_complete (roots F) s HC HndA HpA Hrs) as [cs [Hcs Hs]].
  apply in_flat_map. exists cs. split; [exact Hcs|]. apply in_flat_map. exists s. split; [exact Hs|].
  apply in_flat_map. exists p. split; [apply perms_complete; assumption|].
  unfold interleavings. apply inter_complete; [reflexivity| exact Hndo| |].
  - cbn [concat]. rewrite app_nil_r. eapply Permutation_trans; [|exact Hp]. apply Permutation_app; apply Permutation_sym; assumption.
  - constructor; [apply filter_Sub| constructor; [apply filter_Sub| constructor]].
Qed.
