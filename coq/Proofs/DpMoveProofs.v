From PV Require Import Model.DpMove Proofs.GibbsProofs.

Lemma set_pt_set_pt s x h h' : set_pt (set_pt s x h) x h' = set_pt s x h'.
Proof.
  induction s as [|[y k] r IH]; cbn [set_pt]; [reflexivity|].
  destruct (Nat.eqb x y) eqn:Hxy; cbn [set_pt]; rewrite Hxy; [reflexivity| now rewrite IH].
Qed.

(* the candidate list is the same from every candidate *)
Theorem dp_candidates_closed clones on x s s' :
  In s' (cand clones on x s) -> cand clones on x s' = cand clones on x s.
Proof.
  unfold cand. intros Hin. apply in_map_iff in Hin. destruct Hin as [h [<- _]].
  apply map_ext. intros h'. apply set_pt_set_pt.
Qed.
