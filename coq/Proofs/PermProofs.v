From PV Require Import Model.Perm.
From Coq Require Import Permutation.

(* ---------- arithmetic helpers ---------- *)
Lemma qfact_S n : qfact (S n) = qn (S n) * qfact n.
Proof. unfold qfact. cbn [fact]. rewrite qn_mul. reflexivity. Qed.
Lemma qn_1 : qn 1 = 1.
Proof. reflexivity. Qed.
Lemma qfact_0 : qfact 0 = 1.
Proof. reflexivity. Qed.
Lemma qfact_1 : qfact 1 = 1.
Proof. reflexivity. Qed.
Lemma fact_pos n : (0 < fact n)%nat.
Proof. induction n as [|n IH]; cbn [fact]; lia. Qed.
Lemma qfact_pos n : 0 < qfact n.
Proof. unfold qfact. apply qn_pos, fact_pos. Qed.
Lemma qfact_neq0 n : qfact n <> 0.
Proof. apply Qc_pos_neq0, qfact_pos. Qed.
Lemma qnS_neq0 n : qn (S n) <> 0.
Proof. apply Qc_pos_neq0, qn_pos. lia. Qed.
Lemma prodq_pos l : (forall x, In x l -> 0 < x) -> 0 < prodq l.
Proof.
  induction l as [|x l IH]; cbn [prodq]; intros H; [reflexivity|].
  apply Qc_mul_pos; [apply H; left; reflexivity| apply IH; intros y Hy; apply H; right; exact Hy].
Qed.
Lemma prodq_app l1 l2 : prodq (l1 ++ l2) = prodq l1 * prodq l2.
Proof. induction l1 as [|x l IH]; cbn [prodq app]; [ring| rewrite IH; ring]. Qed.

Section Inter.
Context {A : Type}.
Implicit Types (ls : list (list A)).

Definition prodf ls : Qc := prodq (map (fun l => qfact (length l)) ls).
Definition M ls : Qc := qfact (total ls) / prodf ls.

Lemma prodf_pos ls : 0 < prodf ls.
Proof.
  unfold prodf. apply prodq_pos. intros x Hx. apply in_map_iff in Hx.
  destruct Hx as [l [<- _]]. apply qfact_pos.
Qed.
Lemma M_pos ls : 0 < M ls.
Proof. unfold M. apply Qc_div_pos; [apply qfact_pos| apply prodf_pos]. Qed.

Lemma total_cons l ls : total (l :: ls) = (length l + total ls)%nat.
Proof. reflexivity. Qed.

Lemma pops_spec ls p : In p (pops ls) ->
  total ls = S (total (snd p)) /\ prodf ls = prodf (snd p) * qn (snd (fst p)) /\ (0 < snd (fst p))%nat.
Proof.
  revert p. induction ls as [|l rest IH]; intros p Hp; cbn [pops] in Hp; [contradiction|].
  apply in_app_or in Hp. destruct Hp as [Hp|Hp].
  - destruct l as [|x r]; [contradiction|]. destruct Hp as [<-|[]]. cbn [fst snd].
    rewrite !total_cons. cbn [length]. split; [lia|]. split; [|lia].
    unfold prodf. cbn [map prodq length]. rewrite qfact_S. ring.
  - apply in_map_iff in Hp. destruct Hp as [q [<- Hq]]. cbn [fst snd].
    destruct (IH q Hq) as [H1 [H2 H3]]. rewrite !total_cons. split; [lia|]. split; [|exact H3].
    unfold prodf in *. cbn [map prodq]. rewrite H2. ring.
Qed.

Lemma pops_sum ls : list_sum (map (fun p => snd (fst p)) (pops ls)) = total ls.
Proof.
  induction ls as [|l rest IH]; [reflexivity|].
  cbn [pops]. rewrite map_app, list_sum_app, map_map. cbn [fst snd].
  rewrite total_cons. rewrite IH. destruct l as [|x r]; simpl; lia.
Qed.

Lemma M_step ls p n : In p (pops ls) -> total ls = S n ->
  qn (snd (fst p)) / qn (S n) / M (snd p) = / M ls.
Proof.
  intros Hp Ht. destruct (pops_spec ls p Hp) as [H1 [H2 H3]].
  unfold M. rewrite Ht. assert (total (snd p) = n) by lia. subst n.
  rewrite H2, qfact_S.
  pose proof (prodf_pos (snd p)) as Hpf. pose proof (qfact_pos (total (snd p))).
  pose proof (qn_pos _ H3). pose proof (qnS_neq0 (total (snd p))).
  field. repeat split; try (apply Qc_pos_neq0; assumption); assumption.
Qed.

Lemma inter_length n : forall ls, total ls = n -> forall s, In s (inter n ls) -> length s = n.
Proof.
  induction n as [|n IH]; intros ls Ht s Hs; cbn [inter] in Hs.
  - destruct Hs as [<-|[]]; reflexivity.
  - apply in_flat_map in Hs. destruct Hs as [p [Hp Hs]]. apply in_map_iff in Hs.
    destruct Hs as [s' [<- Hs']]. cbn [length]. f_equal. apply (IH (snd p)); [|exact Hs'].
    destruct (pops_spec ls p Hp) as [H1 _]. lia.
Qed.

(* the urn sampler is the uniform law on the enumerated interleavings *)
Lemma urn_uniform n : forall ls, total ls = n -> forall f,
  E (urn n ls) f = sumq (map f (inter n ls)) / M ls.
Proof.
  induction n as [|n IH]; intros ls Ht f.
  - cbn [urn inter map sumq]. rewrite E_ret. unfold M. rewrite Ht.
    assert (Hp : prodf ls = 1).
    { unfold prodf. clear f. induction ls as [|l rest IHl]; [reflexivity|].
      rewrite total_cons in Ht. assert (length l = 0%nat) by lia. assert (total rest = 0%nat) by lia.
      cbn [map prodq]. rewrite IHl by assumption. rewrite H, qfact_0. ring. }
    rewrite Hp, qfact_0. field. discriminate.
  - cbn [urn inter]. rewrite E_bind.
    change (map (fun p => (p, qn (snd (fst p)) / qn (S n))) (pops ls))
      with (wlist (fun p : A * nat * list (list A) => qn (snd (fst p)) / qn (S n)) (pops ls)).
    rewrite E_wlist.
    rewrite flat_map_concat_map, concat_map, map_map.
    rewrite <- flat_map_concat_map, sumq_flat_map.
    unfold Qcdiv at 2. rewrite Qcmult_comm, <- sumq_map_scale.
    apply sumq_map_ext. intros p Hp.
    rewrite E_dmap. rewrite (IH (snd p)).
    2:{ destruct (pops_spec ls p Hp) as [H1 _]. lia. }
    rewrite map_map. rewrite <- (M_step ls p n Hp Ht).
    pose proof (M_pos (snd p)). pose proof (qnS_neq0 n).
    field. split; [assumption| apply Qc_pos_neq0; assumption].
Qed.

Lemma sumq_map_qn {B} (g : B -> nat) (l : list B) : sumq (map (fun b => qn (g b)) l) = qn (list_sum (map g l)).
Proof.
  induction l as [|b l IH]; [reflexivity|].
  change (list_sum (map g (b :: l))) with (g b + list_sum (map g l))%nat.
  cbn [map sumq]. rewrite qn_add, IH; reflexivity.
Qed.

Lemma urn_mass n : forall ls, total ls = n -> mass (urn n ls) = 1.
Proof.
  induction n as [|n IH]; intros ls Ht; unfold mass; cbn [urn].
  - rewrite E_ret; reflexivity.
  - rewrite E_bind.
    change (map (fun p => (p, qn (snd (fst p)) / qn (S n))) (pops ls))
      with (wlist (fun p : A * nat * list (list A) => qn (snd (fst p)) / qn (S n)) (pops ls)).
    rewrite E_wlist.
    rewrite (sumq_map_ext _ (fun p => / qn (S n) * qn (snd (fst p)))).
    + rewrite sumq_map_scale, sumq_map_qn, pops_sum, Ht. field. apply qnS_neq0.
    + intros p Hp. rewrite E_dmap. fold (mass (urn n (snd p))). rewrite IH.
      * unfold Qcdiv. ring.
      * destruct (pops_spec ls p Hp) as [H1 _]. lia.
Qed.

Lemma inter_count n ls : total ls = n -> qn (length (inter n ls)) = M ls.
Proof.
  intros Ht. pose proof (urn_uniform n ls Ht (fun _ => 1)) as H.
  fold (mass (urn n ls)) in H. rewrite (urn_mass n ls Ht) in H.
  rewrite sumq_map_const in H. pose proof (M_pos ls) as HM.
  apply Qc_pos_neq0 in HM.
  apply (f_equal (fun z => z * M ls)) in H.
  rewrite Qcmult_1_l in H. rewrite H. field. exact HM.
Qed.

Lemma interleave_uniform ls f : E (interleave ls) f = sumq (map f (interleavings ls)) / M ls.
Proof. apply urn_uniform. reflexivity. Qed.
Lemma interleave_mass ls : mass (interleave ls) = 1.
Proof. apply urn_mass. reflexivity. Qed.
Lemma interleavings_count ls : qn (length (interleavings ls)) = M ls.
Proof. apply inter_count. reflexivity. Qed.
Lemma interleavings_length ls s : In s (interleavings ls) -> length s = total ls.
Proof. apply inter_length. reflexivity. Qed.

Lemma total_singletons (l : list A) : total (map (fun x => [x]) l) = length l.
Proof. unfold total. rewrite map_map. induction l as [|x l IH]; [reflexivity|]. simpl in *. now rewrite IH. Qed.
Lemma M_singletons (l : list A) : M (map (fun x => [x]) l) = qfact (length l).
Proof.
  unfold M. rewrite total_singletons.
  assert (Hp : prodf (map (fun x => [x]) l) = 1).
  { unfold prodf. rewrite map_map. cbn [length]. induction l as [|x l IH]; cbn [map prodq]; [reflexivity|].
    rewrite IH, qfact_1. ring. }
  rewrite Hp. field. discriminate.
Qed.
Lemma shuffle_uniform (l : list A) f : E (shuffle l) f = sumq (map f (perms l)) / qfact (length l).
Proof. unfold shuffle, perms. rewrite interleave_uniform, M_singletons. reflexivity. Qed.
Lemma perms_count (l : list A) : qn (length (perms l)) = qfact (length l).
Proof. unfold perms. rewrite interleavings_count. apply M_singletons. Qed.
Lemma perms_length (l s : list A) : In s (perms l) -> length s = length l.
Proof. unfold perms. intros H. apply interleavings_length in H. rewrite total_singletons in H. exact H. Qed.
End Inter.

(* M depends only on the lengths *)
Lemma M_multinom {A} (ls : list (list A)) : M ls = multinom (map (@length A) ls).
Proof. unfold M, multinom, prodf, total. rewrite map_map. reflexivity. Qed.

(* ---------- products of alternatives ---------- *)
Lemma seqd_uniform {A} (ds : list (dist (list A))) (os : list (list (list A))) (cs : list Qc) :
  Forall2 (fun d oc => forall f, E d f = sumq (map f (fst oc)) / snd oc) ds (combine os cs) ->
  length os = length cs ->
  forall g, E (seqd ds) g = sumq (map g (prodl os)) / prodq cs.
Proof.
  revert os cs. induction ds as [|d ds IH]; intros os cs HF Hl g.
  - inversion HF as [Hc|]; subst. destruct os as [|o os]; [|destruct cs; cbn in *; try discriminate; lia].
    destruct cs; [|discriminate]. cbn [seqd prodl map sumq prodq]. rewrite E_ret. field. discriminate.
  - destruct os as [|o os]; [inversion HF|]. destruct cs as [|c cs]; [inversion HF|].
    cbn [combine] in HF. inversion HF as [|? ? ? ? Hd HF']; subst. cbn [fst snd] in Hd.
    cbn [seqd prodl prodq]. rewrite E_bind. rewrite Hd.
    rewrite (sumq_map_ext _ (fun x => sumq (map (fun r => g (x :: r)) (prodl os)) / prodq cs)).
    2:{ intros x _. rewrite E_dmap. apply (IH os cs HF'). cbn in Hl; lia. }
    rewrite flat_map_concat_map, concat_map, map_map, <- flat_map_concat_map, sumq_flat_map.
    rewrite (sumq_map_ext (fun x => sumq (map g (map (cons x) (prodl os)))) (fun x => sumq (map (fun r => g (x :: r)) (prodl os)))).
    2:{ intros x _. now rewrite map_map. }
    rewrite (sumq_map_ext _ (fun x => / prodq cs * sumq (map (fun r => g (x :: r)) (prodl os)))).
    2:{ intros x _. unfold Qcdiv. ring. }
    rewrite sumq_map_scale. unfold Qcdiv. rewrite Qcinv_mult_distr. ring.
Qed.

(* ---------- induction on trees ---------- *)
Section TreeInd.
Variable P : tree -> Prop.
Hypothesis H : forall o ks, Forall P ks -> P (Node o ks).
Fixpoint tree_ind' (t : tree) : P t :=
  match t with
  | Node o ks =>
      H o ks ((fix go (l : list tree) : Forall P l :=
                 match l with [] => Forall_nil _ | k :: r => Forall_cons _ (tree_ind' k) (go r) end) ks)
  end.
End TreeInd.

Lemma prodl_in {A} (ls : list (list A)) cs : In cs (prodl ls) -> Forall2 (fun c l => In c l) cs ls.
Proof.
  revert cs. induction ls as [|l ls IH]; intros cs Hc; cbn [prodl] in Hc.
  - destruct Hc as [<-|[]]. constructor.
  - apply in_flat_map in Hc. destruct Hc as [x [Hx Hc]]. apply in_map_iff in Hc.
    destruct Hc as [r [<- Hr]]. constructor; [exact Hx| apply IH; exact Hr].
Qed.

Lemma multinom_pos ks : 0 < multinom ks.
Proof.
  unfold multinom. apply Qc_div_pos; [apply qfact_pos|]. apply prodq_pos.
  intros x Hx. apply in_map_iff in Hx. destruct Hx as [k [<- _]]. apply qfact_pos.
Qed.

Definition good (t : tree) : Prop :=
  0 < count t /\ (forall o, In o (orders t) -> length o = size t)
  /\ forall f, E (sample t) f = sumq (map f (orders t)) / count t.

Lemma kids_lengths ks cs :
  Forall good ks -> In cs (prodl (map orders ks)) -> map (@length nat) cs = map size ks.
Proof.
  intros HF Hc. apply prodl_in in Hc. revert cs Hc.
  induction ks as [|k ks IH]; intros cs Hc; cbn [map] in *.
  - inversion Hc; reflexivity.
  - inversion Hc as [|c ? cs' ? Hin Hrest]; subst. inversion HF as [|? ? Hk HF']; subst.
    cbn [map]. f_equal; [apply Hk; exact Hin| apply IH; assumption].
Qed.

Lemma good_all t : good t.
Proof.
  induction t as [o ks IH] using tree_ind'. unfold good. cbn [count orders sample size].
  assert (Hcpos : 0 < prodq (map count ks)).
  { apply prodq_pos. intros x Hx. apply in_map_iff in Hx. destruct Hx as [k [<- Hk]].
    rewrite Forall_forall in IH. apply (IH k Hk). }
  split; [|split].
  - apply Qc_mul_pos; [apply Qc_mul_pos; [exact Hcpos| apply multinom_pos]| apply qfact_pos].
  - intros o' Ho. apply in_flat_map in Ho. destruct Ho as [cs [Hcs Ho]].
    apply in_flat_map in Ho. destruct Ho as [s [Hs Ho]]. apply in_map_iff in Ho.
    destruct Ho as [p [<- Hp]]. rewrite app_length.
    rewrite (interleavings_length _ _ Hs), (perms_length _ _ Hp).
    unfold total. rewrite (kids_lengths ks cs IH Hcs). lia.
  - intros f. rewrite E_bind.
    rewrite (seqd_uniform (map sample ks) (map orders ks) (map count ks)).
    + rewrite flat_map_concat_map, concat_map, map_map, <- flat_map_concat_map, sumq_flat_map.
      unfold Qcdiv. rewrite Qcmult_comm, <- sumq_map_scale.
      rewrite !Qcinv_mult_distr.
      rewrite (Qcmult_comm (sumq _)), <- sumq_map_scale.
      apply sumq_map_ext. intros cs Hcs.
      rewrite E_bind, interleave_uniform.
      rewrite M_multinom, (kids_lengths ks cs IH Hcs).
      rewrite flat_map_concat_map, concat_map, map_map, <- flat_map_concat_map, sumq_flat_map.
      rewrite (sumq_map_ext (fun s => E (dmap (fun p => s ++ p) (shuffle o)) f)
                            (fun s => / qfact (length o) * sumq (map f (map (fun p => s ++ p) (perms o))))).
      2:{ intros s _. rewrite E_dmap, shuffle_uniform, map_map. unfold Qcdiv. ring. }
      rewrite sumq_map_scale. unfold Qcdiv. ring.
    + clear Hcpos. induction ks as [|k ks IHk]; cbn [map combine]; [constructor|].
      inversion IH as [|? ? Hk HF]; subst. constructor; [|apply IHk; exact HF].
      cbn [fst snd]. apply Hk.
    + rewrite !map_length. reflexivity.
Qed.

Theorem sample_uniform t f : E (sample t) f = sumq (map f (orders t)) / count t.
Proof. apply good_all. Qed.
Theorem orders_length t o : In o (orders t) -> length o = size t.
Proof. apply good_all. Qed.
Theorem count_pos t : 0 < count t.
Proof. apply good_all. Qed.

(* ---------- total mass ---------- *)
Lemma seqd_mass {A} (ds : list (dist A)) : Forall (fun d => mass d = 1) ds -> mass (seqd ds) = 1.
Proof.
  induction ds as [|d ds IH]; intros HF; unfold mass; cbn [seqd].
  - rewrite E_ret; reflexivity.
  - inversion HF as [|? ? Hd HF']; subst. rewrite E_bind.
    rewrite (E_ext _ _ (fun _ => 1)).
    + exact Hd.
    + intros x. rewrite E_dmap. apply IH. exact HF'.
Qed.
Lemma shuffle_mass {A} (l : list A) : mass (shuffle l) = 1.
Proof. apply interleave_mass. Qed.

Lemma sample_mass t : mass (sample t) = 1.
Proof.
  induction t as [o ks IH] using tree_ind'. unfold mass. cbn [sample]. rewrite E_bind.
  rewrite (E_ext _ _ (fun _ => 1)).
  - apply seqd_mass. rewrite Forall_map. exact IH.
  - intros cs. rewrite E_bind. rewrite (E_ext _ _ (fun _ => 1)); [apply interleave_mass|].
    intros s. rewrite E_dmap. apply shuffle_mass.
Qed.

Theorem count_is_number_of_orders t : count t = qn (length (orders t)).
Proof.
  pose proof (sample_uniform t (fun _ => 1)) as H. fold (mass (sample t)) in H.
  rewrite sample_mass, sumq_map_const in H. pose proof (count_pos t) as Hc. apply Qc_pos_neq0 in Hc.
  apply (f_equal (fun z => z * count t)) in H. rewrite Qcmult_1_l in H. rewrite H. field. exact Hc.
Qed.

(* ---------- forests: top-level clones interleaved, then outliers anywhere ---------- *)
Lemma roots_lengths ks cs : In cs (prodl (map orders ks)) -> map (@length nat) cs = map size ks.
Proof. apply kids_lengths. rewrite Forall_forall. intros; apply good_all. Qed.

Lemma M_two {A} (s o : list A) : M [s; o] = binom (length s + length o) (length o).
Proof.
  unfold M, binom, prodf, total. simpl map. simpl list_sum. cbn [prodq]. rewrite Nat.add_0_r.
  replace (length s + length o - length o)%nat with (length s) by lia.
  pose proof (qfact_neq0 (length s)). pose proof (qfact_neq0 (length o)).
  field. split; assumption.
Qed.

Theorem fsample_uniform F f : E (fsample F) f = sumq (map f (forders F)) / fcount F.
Proof.
  unfold fsample, forders, fcount, fcount_pinned, fsize. rewrite E_bind.
  rewrite (seqd_uniform (map sample (roots F)) (map orders (roots F)) (map count (roots F))).
  - rewrite flat_map_concat_map, concat_map, map_map, <- flat_map_concat_map, sumq_flat_map.
    unfold Qcdiv. rewrite Qcmult_comm, <- sumq_map_scale.
    rewrite !Qcinv_mult_distr.
    rewrite (Qcmult_comm (sumq _)), <- sumq_map_scale.
    apply sumq_map_ext. intros cs Hcs.
    rewrite E_bind, interleave_uniform.
    rewrite M_multinom, (roots_lengths _ cs Hcs).
    rewrite flat_map_concat_map, concat_map, map_map, <- flat_map_concat_map, sumq_flat_map.
    rewrite (sumq_map_ext
      (fun s => E (bind (shuffle (outl F)) (fun o => interleave [s; o])) f)
      (fun s => / (binom (list_sum (map size (roots F)) + length (outl F)) (length (outl F)) * qfact (length (outl F)))
                * sumq (map f (flat_map (fun o => interleavings [s; o]) (perms (outl F)))))).
    2:{ intros s Hs. rewrite E_bind, shuffle_uniform.
        rewrite flat_map_concat_map, concat_map, map_map, <- flat_map_concat_map, sumq_flat_map.
        rewrite (sumq_map_ext (fun o => E (interleave [s; o]) f)
                   (fun o => / binom (list_sum (map size (roots F)) + length (outl F)) (length (outl F))
                             * sumq (map f (interleavings [s; o])))).
        - rewrite sumq_map_scale. unfold Qcdiv. rewrite Qcinv_mult_distr. ring.
        - intros o Ho. rewrite interleave_uniform, M_two.
          rewrite (perms_length _ _ Ho), (interleavings_length _ _ Hs).
          unfold total. rewrite (roots_lengths _ cs Hcs). unfold Qcdiv. ring. }
    rewrite sumq_map_scale. unfold Qcdiv. rewrite !Qcinv_mult_distr. ring.
  - induction (roots F) as [|k ks IHk]; cbn [map combine]; [constructor|].
    constructor; [|exact IHk]. cbn [fst snd]. apply sample_uniform.
  - rewrite !map_length. reflexivity.
Qed.

Lemma fsample_mass F : mass (fsample F) = 1.
Proof.
  unfold mass, fsample. rewrite E_bind. rewrite (E_ext _ _ (fun _ => 1)).
  - apply seqd_mass. rewrite Forall_map, Forall_forall. intros; apply sample_mass.
  - intros cs. rewrite E_bind. rewrite (E_ext _ _ (fun _ => 1)); [apply interleave_mass|].
    intros s. rewrite E_bind. rewrite (E_ext _ _ (fun _ => 1)); [apply shuffle_mass|].
    intros o. apply interleave_mass.
Qed.

Lemma binom_pos n k : 0 < binom n k.
Proof. unfold binom. apply Qc_div_pos; [apply qfact_pos| apply Qc_mul_pos; apply qfact_pos]. Qed.
Lemma fcount_pinned_pos F : 0 < fcount_pinned F.
Proof.
  unfold fcount_pinned. apply Qc_mul_pos; [apply Qc_mul_pos|]; [|apply multinom_pos|apply binom_pos].
  apply prodq_pos. intros x Hx. apply in_map_iff in Hx. destruct Hx as [k [<- _]]. apply count_pos.
Qed.
Lemma fcount_pos F : 0 < fcount F.
Proof. unfold fcount. apply Qc_mul_pos; [apply fcount_pinned_pos| apply qfact_pos]. Qed.

Theorem fcount_is_number_of_orders F : fcount F = qn (length (forders F)).
Proof.
  pose proof (fsample_uniform F (fun _ => 1)) as H. fold (mass (fsample F)) in H.
  rewrite fsample_mass, sumq_map_const in H. pose proof (fcount_pos F) as Hc. apply Qc_pos_neq0 in Hc.
  apply (f_equal (fun z => z * fcount F)) in H. rewrite Qcmult_1_l in H. rewrite H. field. exact Hc.
Qed.

(* the pinned implementation's count misses the orderings of the outliers among themselves *)
Theorem fcount_pinned_off_by_outlier_orders F : fcount_pinned F * qfact (length (outl F)) = qn (length (forders F)).
Proof. rewrite <- fcount_is_number_of_orders. reflexivity. Qed.
Theorem fcount_pinned_ok_iff F : fcount_pinned F = qn (length (forders F)) <-> (length (outl F) <= 1)%nat.
Proof.
  rewrite <- fcount_pinned_off_by_outlier_orders. split.
  - intros H. destruct (length (outl F)) as [|[|n]]; [lia|lia|exfalso].
    pose proof (fcount_pinned_pos F) as Hp. apply Qc_pos_neq0 in Hp.
    assert (H1 : qfact (S (S n)) = 1).
    { apply (f_equal (fun z => / fcount_pinned F * z)) in H.
      rewrite Qcmult_assoc, Qcmult_inv_l, Qcmult_1_l in H by exact Hp. symmetry. exact H. }
    unfold qfact in H1. change 1 with (qn 1) in H1. apply qn_inj in H1.
    pose proof (fact_pos n). cbn [fact] in H1. nia.
  - intros Hle. destruct (length (outl F)) as [|[|n]]; [rewrite qfact_0; ring| rewrite qfact_1; ring| lia].
Qed.
