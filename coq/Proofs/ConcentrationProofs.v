(* C13 proofs: the density algebra of the concentration update (over R) and the K, n extraction. *)
From PV Require Import Model.Concentration Proofs.DensityProofs.
From Coq Require Import Lra.
Local Open Scope R_scope.

Lemma Rpower_pos x y : 0 < Rpower x y.
Proof. unfold Rpower. apply exp_pos. Qed.
Lemma Rpower_succ x y : 0 < x -> Rpower x (y + 1) = Rpower x y * x.
Proof. intros Hx. rewrite Rpower_plus, Rpower_1 by exact Hx. reflexivity. Qed.

Section Gibbs.
(* The Gamma function is external: only its functional equation and positivity are used. *)
Variable Gam : R -> R.
Hypothesis Gam_rec : forall s, 0 < s -> Gam (s + 1) = s * Gam s.
Hypothesis Gam_pos : forall s, 0 < s -> 0 < Gam s.

Definition mix_const (a : R) (K n : nat) (r : R) : R :=
  let s := a + INR K - 1 in Rpower r s * r / (Gam s * (s + INR n * r)).

Lemma mix_const_pos a K n r : 0 < a -> (1 <= K)%nat -> 0 < r -> 0 < mix_const a K n r.
Proof.
  intros Ha HK Hr. unfold mix_const. cbv zeta.
  assert (HK' : 1 <= INR K) by (replace 1 with (INR 1) by reflexivity; apply le_INR; exact HK).
  assert (Hs : 0 < a + INR K - 1) by lra.
  assert (Hn : 0 <= INR n) by apply pos_INR.
  apply Rdiv_lt_0_compat.
  - apply Rmult_lt_0_compat; [apply Rpower_pos| exact Hr].
  - apply Rmult_lt_0_compat; [apply Gam_pos; exact Hs|].
    assert (0 <= INR n * r) by (apply Rmult_le_pos; lra). lra.
Qed.

(* the two-component mixture the code samples from is C * target, C independent of x *)
Theorem mixture_is_target a K n r x :
  0 < a -> (1 <= K)%nat -> (K <= n)%nat -> 0 < r -> 0 < x ->
  mixture Gam a K n r x = mix_const a K n r * target a K n r x.
Proof.
  intros Ha HK HKn Hr Hx.
  assert (HK' : 1 <= INR K) by (replace 1 with (INR 1) by reflexivity; apply le_INR; exact HK).
  assert (Hn' : 1 <= INR n).
  { replace 1 with (INR 1) by reflexivity. apply le_INR. lia. }
  unfold mixture, mix_const, target, pi_R, gamma_dens. cbv zeta.
  set (s := a + INR K - 1).
  assert (Hs : 0 < s) by (unfold s; lra).
  replace (a + INR K - 2) with (s - 1) by (unfold s; lra).
  replace (s + 1 - 1) with ((s - 1) + 1) by lra.
  rewrite (Rpower_succ x (s - 1)) by exact Hx.
  rewrite (Rpower_succ r s) by exact Hr.
  rewrite (Gam_rec s Hs).
  replace (x * r) with (r * x) by ring.
  pose proof (Gam_pos s Hs) as HG.
  set (P := Rpower x (s - 1)). set (E := exp (- (r * x))). set (Q := Rpower r s). set (G := Gam s) in *.
  set (N := INR n) in *.
  assert (HNr : 0 < N * r) by (apply Rmult_lt_0_compat; lra).
  assert (H1 : 0 < 1 + s / (N * r)).
  { assert (0 < s / (N * r)) by (apply Rdiv_lt_0_compat; assumption). lra. }
  field. repeat split; lra.
Qed.

(* conditional of eta given alpha: the joint is (a function of alpha) * Beta(alpha + 1, n) density *)
Definition eta_const (a b : R) (K n : nat) (alpha : R) : R :=
  gamma_dens Gam a b alpha * Rpower alpha (INR K - 1) * (alpha + INR n)
  * (Gam (alpha + 1) * Gam (INR n) / Gam (alpha + 1 + INR n)).

Theorem joint_eta_conditional a b K n alpha eta :
  0 < alpha -> (1 <= n)%nat ->
  joint Gam a b K n alpha eta = eta_const a b K n alpha * beta_dens Gam (alpha + 1) (INR n) eta.
Proof.
  intros Halpha Hn.
  assert (Hn' : 1 <= INR n) by (replace 1 with (INR 1) by reflexivity; apply le_INR; exact Hn).
  unfold joint, eta_const, beta_dens.
  replace (alpha + 1 - 1) with alpha by lra.
  pose proof (Gam_pos (alpha + 1) ltac:(lra)) as H1.
  pose proof (Gam_pos (INR n) ltac:(lra)) as H2.
  pose proof (Gam_pos (alpha + 1 + INR n) ltac:(lra)) as H3.
  field. repeat split; lra.
Qed.

(* marginalising eta (the Beta density integrates to one - not formalised) leaves
   prior * CRP likelihood alpha^K Gamma(alpha)/Gamma(alpha+n), up to the constant Gamma(n) *)
Theorem eta_const_is_posterior a b K n alpha :
  0 < alpha -> (1 <= n)%nat -> (1 <= K)%nat ->
  eta_const a b K n alpha = Gam (INR n) * (gamma_dens Gam a b alpha * crp_lik Gam K n alpha).
Proof.
  intros Halpha Hn HK.
  assert (Hn' : 1 <= INR n) by (replace 1 with (INR 1) by reflexivity; apply le_INR; exact Hn).
  unfold eta_const, crp_lik.
  replace (alpha + 1 + INR n) with ((alpha + INR n) + 1) by lra.
  rewrite (Gam_rec (alpha + INR n)) by lra.
  rewrite (Gam_rec alpha) by lra.
  replace (INR K) with ((INR K - 1) + 1) at 2 by lra.
  rewrite (Rpower_succ alpha (INR K - 1)) by exact Halpha.
  pose proof (Gam_pos (alpha + INR n) ltac:(lra)) as H3.
  field. split; lra.
Qed.

(* conditional of alpha given eta: the joint is (a function of eta) * the code's mixture with rate b - ln eta *)
Definition alpha_const (a b : R) (K n : nat) (eta : R) : R :=
  Rpower b a / Gam a * Rpower (1 - eta) (INR n - 1) / mix_const a K n (b - ln eta).

Theorem joint_alpha_conditional a b K n alpha eta :
  0 < a -> 0 < b -> (1 <= K)%nat -> (K <= n)%nat -> 0 < eta < 1 -> 0 < alpha ->
  joint Gam a b K n alpha eta = alpha_const a b K n eta * mixture Gam a K n (b - ln eta) alpha.
Proof.
  intros Ha Hb HK HKn [He0 He1] Halpha.
  assert (Hln : ln eta < 0).
  { rewrite <- ln_1. apply ln_increasing; assumption. }
  assert (Hr : 0 < b - ln eta) by lra.
  rewrite (mixture_is_target a K n (b - ln eta) alpha Ha HK HKn Hr Halpha).
  pose proof (mix_const_pos a K n (b - ln eta) Ha HK Hr) as HC.
  unfold alpha_const, joint, target, gamma_dens.
  (* alpha^(a-1) * alpha^(K-1) = alpha^(a+K-2);  exp(-b alpha) * eta^alpha = exp(-alpha (b - ln eta)) *)
  replace (a + INR K - 2) with ((a - 1) + (INR K - 1)) by lra.
  rewrite Rpower_plus.
  replace (exp (- (alpha * (b - ln eta)))) with (exp (- (b * alpha)) * Rpower eta alpha).
  2:{ unfold Rpower. rewrite <- exp_plus. f_equal. ring. }
  pose proof (Gam_pos a Ha) as HG.
  field. split; lra.
Qed.
End Gibbs.


(* ---- closed forms used by Properties/C13.v ---- *)
Lemma C13_mixture_lemma Gam : Gamma_like Gam ->
  forall (a : R) (K n : nat) (r : R), 0 < a -> (1 <= K)%nat -> (K <= n)%nat -> 0 < r ->
  exists C, 0 < C /\ forall x, 0 < x -> mixture Gam a K n r x = C * target a K n r x.
Proof.
  intros [Hrec Hpos] a K n r Ha HK HKn Hr. exists (mix_const Gam a K n r). split.
  - apply mix_const_pos; assumption.
  - intros x Hx. apply mixture_is_target; assumption.
Qed.

Lemma C13_conditionals_lemma Gam : Gamma_like Gam ->
  forall (a b : R) (K n : nat), 0 < a -> 0 < b -> (1 <= K)%nat -> (K <= n)%nat ->
  (forall alpha, 0 < alpha -> exists g, forall eta, 0 < eta < 1 ->
     joint Gam a b K n alpha eta = g * beta_dens Gam (alpha + 1) (INR n) eta)
  /\
  (forall eta, 0 < eta < 1 -> exists h, forall alpha, 0 < alpha ->
     joint Gam a b K n alpha eta = h * mixture Gam a K n (b - ln eta) alpha).
Proof.
  intros [Hrec Hpos] a b K n Ha Hb HK HKn. split.
  - intros alpha Halpha. exists (eta_const Gam a b K n alpha). intros eta _.
    apply joint_eta_conditional; try assumption. lia.
  - intros eta Heta. exists (alpha_const Gam a b K n eta). intros alpha Halpha.
    apply joint_alpha_conditional; assumption.
Qed.

Lemma C13_gibbs_lemma Gam : Gamma_like Gam ->
  forall (a b : R) (K n : nat) (alpha eta : R), 0 < a -> 0 < b -> (1 <= K)%nat -> (K <= n)%nat -> 0 < alpha -> 0 < eta < 1 ->
  joint Gam a b K n alpha eta = posterior_unnorm Gam a b K n alpha * beta_dens Gam (alpha + 1) (INR n) eta
  /\ joint Gam a b K n alpha eta
     = alpha_const Gam a b K n eta * (mix_const Gam a K n (b - ln eta) * target a K n (b - ln eta) alpha)
  /\ 0 < mix_const Gam a K n (b - ln eta).
Proof.
  intros [Hrec Hpos] a b K n alpha eta Ha Hb HK HKn Halpha Heta.
  assert (Hr : 0 < b - ln eta).
  { destruct Heta as [H0 H1]. assert (ln eta < 0) by (rewrite <- ln_1; apply ln_increasing; assumption). lra. }
  split; [|split].
  - unfold posterior_unnorm. rewrite <- (eta_const_is_posterior Gam Hrec) by (try assumption; lia).
    apply joint_eta_conditional; try assumption. lia.
  - rewrite <- (mixture_is_target Gam Hrec Hpos); try assumption.
    apply joint_alpha_conditional; assumption.
  - apply mix_const_pos; assumption.
Qed.

(* ---- the code's weight, over Qc: pi = shape / (shape + n * rate) ---- *)
Local Open Scope Qc_scope.
Lemma pi_mix_closed a b K n L :
  qn n <> 0 -> rate b L <> 0 -> shape0 a K + qn n * rate b L <> 0 ->
  pi_mix a b K n L = shape0 a K / (shape0 a K + qn n * rate b L).
Proof.
  intros H0 H1 H2. unfold pi_mix, xval. field. repeat split; try assumption.
Qed.

(* ---- run.update_concentration_value: K = number of clones, n = number of data points in clones ---- *)
Lemma K_n_spec F : K_n_of_tree F = (fclones F, list_sum (map size (roots F))).
Proof.
  unfold K_n_of_tree. cbv zeta. rewrite node_data_clones, !map_map, map_length. cbn [snd].
  f_equal; [apply nodes_length|].
  unfold nodes. rewrite flat_map_concat_map, concat_map, map_map.
  assert (H : forall l : list (list nat), list_sum (concat l) = list_sum (map list_sum l)).
  { induction l as [|x l IHl]; cbn [concat map]; [reflexivity|]. rewrite list_sum_app, list_sum_cons, IHl. reflexivity. }
  rewrite H, map_map. f_equal. apply map_ext. intros t. apply flat_sizes.
Qed.
Lemma K_n_ignores_outliers r o o' : K_n_of_tree (mkF r o) = K_n_of_tree (mkF r o').
Proof. rewrite !K_n_spec. reflexivity. Qed.
Lemma pi_mix_closed_pos a b K n L :
  0 < a -> 0 < b -> 0 < L -> (1 <= K)%nat -> (1 <= n)%nat ->
  pi_mix a b K n L = shape0 a K / (shape0 a K + qn n * rate b L).
Proof.
  intros Ha Hb HL HK Hn.
  assert (Hn' : 0 < qn n) by (apply qn_pos; lia).
  assert (Hr : 0 < rate b L) by (unfold rate; qlra).
  assert (Hs : 0 < shape0 a K).
  { unfold shape0. destruct K as [|k]; [lia|]. rewrite qn_S. pose proof (qn_nonneg k). qlra. }
  pose proof (Qc_mul_pos _ _ Hn' Hr) as Hnr.
  apply pi_mix_closed; apply Qc_pos_neq0; try assumption. qlra.
Qed.
