(* C07: every Tree method keeps names unique and every data point held exactly once; every edit changes
   the multiset of data points exactly as specified. *)
From PV Require Import Model.LTree Proofs.LTreeBase Proofs.LTreeCons.
Open Scope nat_scope.

(* ---- lists ------------------------------------------------------------------------------------------ *)
Lemma NoDup_app_intro {A} (a b : list A) :
  NoDup a -> NoDup b -> (forall x, In x a -> ~ In x b) -> NoDup (a ++ b).
Proof.
  induction a as [|x a IH]; intros Ha Hb Hd; [exact Hb|]. inversion Ha; subst. cbn [app]. constructor.
  - intros Hin. apply in_app_or in Hin. destruct Hin as [Hin|Hin]; [contradiction| apply (Hd x); [left; reflexivity| exact Hin]].
  - apply IH; auto. intros y Hy. apply Hd. right. exact Hy.
Qed.
Lemma NoDup_app_l {A} (a b : list A) : NoDup (a ++ b) -> NoDup a.
Proof. induction a as [|x a IH]; intros H; [constructor|]. inversion H; subst. constructor; [|auto]. intros Hin. apply H2. apply in_or_app. left. exact Hin. Qed.
Lemma NoDup_app_r {A} (a b : list A) : NoDup (a ++ b) -> NoDup b.
Proof. induction a as [|x a IH]; intros H; [exact H|]. inversion H; subst. auto. Qed.
Lemma NoDup_app_disj {A} (a b : list A) x : NoDup (a ++ b) -> In x a -> ~ In x b.
Proof.
  induction a as [|y a IH]; intros H Hin; [destruct Hin|]. inversion H; subst. destruct Hin as [<-|Hin]; [|auto].
  intros Hb. apply H2. apply in_or_app. right. exact Hb.
Qed.
Lemma NoDup_mid {A} (a m b : list A) : NoDup (a ++ m ++ b) -> NoDup m.
Proof. intros H. apply NoDup_app_r in H. apply NoDup_app_l in H. exact H. Qed.
Lemma idxs_app a b : idxs (a ++ b) = idxs a ++ idxs b.
Proof. apply map_app. Qed.

(* ---- set comparisons used by Tree.__eq__ -------------------------------------------------------------- *)
Lemma subsetb_spec {A} (eqb : A -> A -> bool) a b :
  subsetb eqb a b = true -> forall x, In x a -> exists y, In y b /\ eqb x y = true.
Proof. unfold subsetb. rewrite forallb_forall. intros H x Hx. apply H in Hx. apply existsb_exists in Hx. exact Hx. Qed.
Lemma subsetb_refl {A} (eqb : A -> A -> bool) a : (forall x, eqb x x = true) -> subsetb eqb a a = true.
Proof. intros Hr. unfold subsetb. apply forallb_forall. intros x Hx. apply existsb_exists. exists x. auto. Qed.
Lemma seteqb_refl {A} (eqb : A -> A -> bool) a : (forall x, eqb x x = true) -> seteqb eqb a a = true.
Proof. intros Hr. unfold seteqb. rewrite subsetb_refl by exact Hr. reflexivity. Qed.
Lemma seteqb_nat_incl a b : seteqb Nat.eqb a b = true -> incl a b.
Proof.
  unfold seteqb. intros H. apply andb_true_iff in H. destruct H as [H _]. intros x Hx.
  destruct (subsetb_spec _ _ _ H x Hx) as [y [Hy E]]. apply Nat.eqb_eq in E. subst. exact Hy.
Qed.
Lemma tree_eqb_refl t : tree_eqb t t = true.
Proof.
  unfold tree_eqb. rewrite !seteqb_refl; auto using Nat.eqb_refl. intros x. apply seteqb_refl. apply Nat.eqb_refl.
Qed.

(* every point lies in the clade of a root; every clade of a node lies inside the node's points *)
Lemma clades_n_head n : exists rest, clades_n n = clade_n n :: rest.
Proof. destruct n. cbn [clades_n]. eauto. Qed.
Lemma root_clade_in ns i : In i (idxs (points_f ns)) -> exists c, In c (flat_map clades_n ns) /\ In i c.
Proof.
  induction ns as [|k ns IH]; cbn [points_f flat_map]; intros H; [destruct H|].
  rewrite idxs_app in H. apply in_app_or in H. destruct H as [H|H].
  - destruct (clades_n_head k) as [rest E]. exists (clade_n k). split; [|exact H]. apply in_or_app. left. rewrite E. left. reflexivity.
  - destruct (IH H) as [c [Hc Hi]]. exists c. split; [apply in_or_app; right; exact Hc| exact Hi].
Qed.
Lemma clades_n_incl : forall n c, In c (clades_n n) -> incl c (idxs (points_n n)).
Proof.
  induction n as [l o p r ks IH] using lnode_ind'. intros c Hc. cbn [clades_n] in Hc. destruct Hc as [<-|Hc]; [apply incl_refl|].
  cbn [points_n]. rewrite idxs_app. intros i Hi. apply in_or_app. right.
  induction ks as [|k ks IHks]; cbn [flat_map] in *; [destruct Hc|]. inversion IH; subst. rewrite idxs_app.
  apply in_app_or in Hc. destruct Hc as [Hc|Hc]; apply in_or_app; [left; eapply H1; eauto| right; auto].
Qed.

Section Wf.
Variable Sf : list vec -> vec.
Variable prior : vec.
Variable vone : vec.
Notation update := (update Sf prior).
Notation update_n := (update_n Sf).
Notation fresh := (fresh Sf prior).
Notation step := (step Sf prior vone).
Notation run := (run Sf prior vone).
Notation pre := (pre Sf prior vone).
Notation pres := (pres Sf prior vone).
Notation get_subtree := (get_subtree Sf prior vone).
Notation remove_subtree := (remove_subtree Sf prior vone).
Notation add_subtree := (add_subtree Sf prior).
Notation extract := (extract Sf prior vone).

Lemma wf_perm t t' : wf t -> Permutation (points t') (points t) -> NoDup (labels t') -> wf t'.
Proof.
  intros [_ H] P L. split; [exact L|]. eapply Permutation_NoDup; [|exact H]. apply Permutation_sym, Permutation_map. exact P.
Qed.
Lemma wf_empty : wf (empty_tree vone).
Proof. split; constructor. Qed.

(* ---- single methods ------------------------------------------------------------------------------------ *)
Lemma add_data_point_wf d x t t' : wf t -> add_data_point Sf prior d x t = Some t' ->
  wf t' /\ Permutation (points t') (d :: points t).
Proof.
  intros [L P] E. destruct (add_data_point_spec _ _ _ _ _ _ E) as [Hn [Hp Hl]]. split; [|exact Hp]. split; [rewrite Hl; exact L|].
  eapply Permutation_NoDup; [apply Permutation_sym, Permutation_map; exact Hp|]. cbn [map]. constructor; assumption.
Qed.
Lemma remove_data_point_wf i x t d t' : wf t -> remove_data_point Sf prior i x t = Some (d, t') ->
  wf t' /\ Permutation (points t) (d :: points t').
Proof.
  intros [L P] E. destruct (remove_data_point_spec _ _ _ _ _ _ _ E) as [_ [Hp Hl]]. split; [|exact Hp]. split; [rewrite Hl; exact L|].
  assert (H : NoDup (idxs (d :: points t'))) by (eapply Permutation_NoDup; [apply Permutation_map; exact Hp| exact P]).
  inversion H; subst. assumption.
Qed.
Lemma create_root_node_wf cs data t t' : wf t -> contiguous t -> new_points data t ->
  create_root_node Sf prior cs data t = Some t' -> wf t' /\ Permutation (points t') (data ++ points t).
Proof.
  intros [L P] Hc [N1 N2] E. destruct (create_root_node_spec _ _ _ _ _ _ E) as [Hp [Hl _]]. split; [|exact Hp]. split.
  - eapply Permutation_NoDup; [apply Permutation_sym; exact Hl|]. constructor; [|exact L].
    intros Hin. unfold contiguous in Hc. rewrite Forall_forall in Hc. apply Hc in Hin. lia.
  - eapply Permutation_NoDup; [apply Permutation_sym, Permutation_map; exact Hp|]. rewrite idxs_app.
    apply NoDup_app_intro; assumption.
Qed.

Lemma get_subtree_wf x t sub : wf t -> get_subtree x t = Some sub ->
  exists n, find_f x (troots t) = Some n /\ troots sub = [update_n n] /\ outl sub = [] /\ wf sub
            /\ points sub = points_n n /\ labels sub = labels_n n.
Proof.
  intros [L P] E. destruct (get_subtree_spec _ _ _ _ _ _ E) as [n [Ef [Er [Eo _]]]]. exists n.
  assert (Hp : points sub = points_n n).
  { unfold points. rewrite Er, Eo. cbn [points_f flat_map]. rewrite !app_nil_r. apply points_update_n. }
  assert (Hl : labels sub = labels_n n).
  { unfold labels. rewrite Er. cbn [labels_f flat_map]. rewrite app_nil_r. apply labels_update_n. }
  repeat split; auto.
  - rewrite Hl. destruct (find_f_labels x _ _ Ef) as [A [B EE]]. unfold labels in L. rewrite EE in L. eapply NoDup_mid; eauto.
  - rewrite Hp. destruct (find_f_points x _ _ Ef) as [A [B EE]]. unfold points in P. rewrite EE, <- !app_assoc, !idxs_app in P.
    eapply NoDup_mid; eauto.
Qed.

(* Tree.__eq__ says "equal" only if the subtree really is the whole tree (given unique data points) *)
Lemma eqb_whole x t n sub : wf t -> find_f x (troots t) = Some n -> troots sub = [update_n n] -> outl sub = [] ->
  tree_eqb sub t = true -> points t = points_n n.
Proof.
  intros [_ P] Ef Er Eo E. unfold tree_eqb in E. apply andb_true_iff in E. destruct E as [E1 E2].
  (* no outliers in t *)
  assert (Ho : outl t = []).
  { rewrite Eo in E2. unfold seteqb in E2. apply andb_true_iff in E2. destruct E2 as [_ E2].
    destruct (outl t) as [|d o]; [reflexivity|]. cbn in E2. discriminate. }
  destruct (find_f_points x _ _ Ef) as [A [B EE]]. unfold points in *. rewrite Ho, app_nil_r in *. rewrite EE in *.
  (* every index of A or B would also be inside n: impossible without duplicates *)
  assert (Hin : forall i, In i (idxs (A ++ points_n n ++ B)) -> In i (idxs (points_n n))).
  { intros i Hi. rewrite <- EE in Hi. destruct (root_clade_in _ _ Hi) as [c [Hc Hic]].
    unfold seteqb in E1. apply andb_true_iff in E1. destruct E1 as [_ E1].
    destruct (subsetb_spec _ _ _ E1 c Hc) as [c' [Hc' Ecc]]. apply seteqb_nat_incl in Ecc.
    unfold clades in Hc'. rewrite Er in Hc'. cbn [flat_map] in Hc'. rewrite app_nil_r in Hc'.
    apply clades_n_incl in Hc'. rewrite points_update_n in Hc'. apply Hc', Ecc, Hic. }
  rewrite !idxs_app in P.
  destruct A as [|a A].
  - destruct B as [|b B]; [rewrite app_nil_r; reflexivity|]. exfalso.
    change (idxs [] ++ idxs (points_n n) ++ idxs (b :: B)) with (idxs (points_n n) ++ dp_idx b :: idxs B) in P.
    apply (NoDup_app_disj _ _ (dp_idx b) P); [|left; reflexivity].
    apply Hin. rewrite !idxs_app. apply in_or_app. right. apply in_or_app. right. left. reflexivity.
  - exfalso. change (idxs (a :: A)) with (dp_idx a :: idxs A) in P.
    apply (NoDup_app_disj _ _ (dp_idx a) P); [left; reflexivity|].
    apply in_or_app. left. apply Hin. left. reflexivity.
Qed.

(* prune = get_subtree + remove_subtree: what is cut plus what stays is the tree *)
Lemma prune_wf x t sub t' : wf t -> get_subtree x t = Some sub -> remove_subtree sub t = Some t' ->
  wf sub /\ outl sub = [] /\ wf t' /\ Permutation (points t) (points sub ++ points t').
Proof.
  intros Hwf Eg Er. destruct (get_subtree_wf _ _ _ Hwf Eg) as [n [Ef [Et [Eo [Hs [Hp Hl]]]]]].
  split; [exact Hs|]. split; [exact Eo|]. unfold LTree.remove_subtree in Er. destruct (tree_eqb sub t) eqn:Eq.
  - inversion Er; subst. split; [apply wf_empty|]. rewrite (eqb_whole _ _ _ _ Hwf Ef Et Eo Eq), Hp.
    unfold points, empty_tree. cbn. rewrite app_nil_r. apply Permutation_refl.
  - rewrite Et in Er. destruct (mod_t_prune_spec _ _ _ _ _ Er) as [m [Ef' [Ho [_ [[A [B [P1 P2]]] [A' [B' [L1 L2]]]]]]]].
    assert (Hx : lbl (update_n n) = x) by (destruct n; cbn; apply (find_f_lbl _ _ _ Ef)).
    rewrite Hx in Ef'. assert (m = n) by congruence. subst m. destruct Hwf as [L P]. split; [split|].
    + rewrite L2. rewrite L1 in L. eapply NoDup_app_remove_mid; eauto.
    + unfold points in *. rewrite P2, Ho. rewrite P1, <- !app_assoc, !idxs_app in P. rewrite <- !app_assoc, !idxs_app.
      eapply NoDup_app_remove_mid; eauto.
    + rewrite Hp. unfold points. rewrite P1, P2, Ho. perm_dp.
Qed.

Lemma add_subtree_wf sub par t t' : wf t -> wf sub -> add_subtree sub par t = Some t' ->
  NoDup (labels t') /\ Permutation (points t') (points_f (troots sub) ++ points t) /\ outl t' = outl t.
Proof.
  intros [L P] [Ls Ps] E. destruct (add_subtree_spec _ _ _ _ _ _ E) as [Hp [Hl [Ho _]]]. split; [|split; assumption].
  eapply Permutation_NoDup; [apply Permutation_sym; exact Hl|]. rewrite graft_roots_labels.
  destruct (rename_spec (labels sub) (labels t) (first_label (labels t) (labels sub))) as [R1 R2]; auto.
  - intros u Hu. apply first_label_ge. apply in_or_app. left. exact Hu.
  - intros u Hu. apply first_label_ge. apply in_or_app. right. exact Hu.
  - apply NoDup_app_intro; auto.
Qed.

Lemma update_wf t : wf t -> wf (update t).
Proof. intros [L P]. split; [rewrite labels_update; exact L| rewrite points_update; exact P]. Qed.

Lemma hand_over_points ds s s' : hand_over Sf prior ds s = Some s' -> points s' = points s ++ ds /\ labels s' = labels s.
Proof.
  intros E. destruct (hand_over_spec _ _ _ _ _ E) as [E1 [_ [E3 _]]]. unfold points, labels. rewrite E1, E3, app_assoc. auto.
Qed.

Lemma extract_wf x t par s rest : wf t -> extract x t = Some (par, s, rest) ->
  wf rest /\ Permutation (points t) (points s ++ points rest).
Proof.
  intros Hwf E. unfold LTree.extract in E. destruct x as [y|].
  - destruct (parent_of y t) as [pr|]; [|discriminate].
    destruct (get_subtree y t) as [sub|] eqn:Eg; [|discriminate].
    destruct (remove_subtree sub t) as [rest0|] eqn:Er; [|discriminate].
    destruct (hand_over Sf prior (outl rest0) sub) as [sub1|] eqn:Eh; [|discriminate]. inversion E; subst.
    destruct (prune_wf _ _ _ _ Hwf Eg Er) as [_ [_ [[L0 P0] Hp]]]. destruct (hand_over_points _ _ _ Eh) as [Hs _].
    split; [split|].
    + exact L0.
    + unfold points in *. cbn [troots outl]. rewrite app_nil_r. rewrite idxs_app in P0. eapply NoDup_app_l; eauto.
    + rewrite Hs. unfold points at 3. cbn [troots outl]. rewrite app_nil_r. unfold points at 3 in Hp. perm_dp.
  - unfold copy in E. destruct (remove_subtree t t) as [rest0|] eqn:Er; [|discriminate]. inversion E; subst.
    unfold LTree.remove_subtree in Er. rewrite tree_eqb_refl in Er. inversion Er; subst. split; [apply wf_empty|].
    unfold points at 3. cbn. rewrite !app_nil_r. apply Permutation_refl.
Qed.

(* ---- every edit of the grammar ------------------------------------------------------------------------ *)
Theorem wf_step e t t' : wf t -> pre e t -> step e t = Some t' ->
  wf t' /\ Permutation (points t') (delta e ++ points t).
Proof.
  intros Hwf Hpre E. destruct e as [cs data|d x|i src dst|x par|x s| | | |]; cbn [LTree.step LTree.pre LTree.delta app] in *.
  - destruct Hpre as [Hc Hn]. eapply create_root_node_wf; eauto.
  - eapply add_data_point_wf; eauto.
  - unfold LTree.move_point, copy in E. destruct (remove_data_point Sf prior i src t) as [[d t1]|] eqn:Er; [|discriminate].
    destruct (remove_data_point_wf _ _ _ _ _ Hwf Er) as [W1 P1]. destruct (add_data_point_wf _ _ _ _ W1 E) as [W2 P2].
    split; [exact W2|]. perm_dp.
  - unfold LTree.prune_regraft, copy in E. destruct (get_subtree x t) as [sub|] eqn:Eg; [|discriminate].
    destruct (remove_subtree sub t) as [pruned|] eqn:Er; [|discriminate].
    destruct (add_subtree sub par pruned) as [t1|] eqn:Ea; [|discriminate]. cbn [option_map] in E. inversion E; subst.
    destruct (prune_wf _ _ _ _ Hwf Eg Er) as [Ws [Eo [Wp Hp]]]. destruct (add_subtree_wf _ _ _ _ Wp Ws Ea) as [L1 [P1 _]].
    assert (Hperm : Permutation (points t1) (points t)).
    { unfold points at 2 in Hp. rewrite Eo, app_nil_r in Hp. perm_dp. }
    rewrite points_update. split; [|exact Hperm]. apply update_wf. exact (wf_perm t t1 Hwf Hperm L1).
  - destruct Hpre as [Ws Hsame]. unfold LTree.subtree_resample, copy in E.
    destruct (extract x t) as [[[pr s0] rest]|] eqn:Ee; [|discriminate].
    destruct (add_subtree s pr rest) as [t1|] eqn:Ea; [|discriminate].
    destruct (hand_over Sf prior (outl s) t1) as [t2|] eqn:Eh; [|discriminate]. cbn [option_map] in E. inversion E; subst.
    destruct (extract_wf _ _ _ _ _ Hwf Ee) as [Wr Hp]. specialize (Hsame _ _ _ eq_refl).
    destruct (add_subtree_wf _ _ _ _ Wr Ws Ea) as [L1 [P1 _]]. destruct (hand_over_points _ _ _ Eh) as [H2 L2].
    assert (Hperm : Permutation (points t2) (points t)).
    { rewrite H2. unfold points at 1 in Hsame. perm_dp. }
    rewrite points_update. split; [|exact Hperm]. apply update_wf. apply (wf_perm t t2 Hwf Hperm). rewrite L2. exact L1.
  - inversion E; subst. rewrite points_relabel. split; [|apply Permutation_refl]. destruct Hwf as [L P]. split.
    + rewrite labels_relabel. apply seq_NoDup.
    + rewrite points_relabel. exact P.
  - inversion E; subst. split; [exact Hwf| apply Permutation_refl].
  - inversion E; subst. unfold to_from_dict. rewrite points_fresh. split; [|apply Permutation_refl]. destruct Hwf as [L P].
    split; [rewrite labels_fresh; exact L| rewrite points_fresh; exact P].
  - inversion E; subst. rewrite points_update. split; [apply update_wf; exact Hwf| apply Permutation_refl].
Qed.

Fixpoint deltas (es : list edit) : list dp := match es with [] => [] | e :: rest => deltas rest ++ delta e end.
Theorem wf_run : forall es t t', wf t -> pres es t -> run es t = Some t' ->
  wf t' /\ Permutation (points t') (deltas es ++ points t).
Proof.
  induction es as [|e es IH]; intros t t' Hwf Hp E; cbn [LTree.run LTree.pres deltas] in *.
  - inversion E; subst. split; [exact Hwf| apply Permutation_refl].
  - destruct Hp as [Hpre Hrest]. destruct (step e t) as [t1|] eqn:Es; [|discriminate].
    destruct (wf_step _ _ _ Hwf Hpre Es) as [W1 P1]. destruct (IH _ _ W1 (Hrest _ eq_refl) E) as [W2 P2].
    split; [exact W2|]. perm_dp.
Qed.
End Wf.

(* ---- corollaries for whole sampler passes -------------------------------------------------------------- *)
Lemma deltas_nil es : Forall (fun e => delta e = []) es -> deltas es = [].
Proof. induction 1 as [|e es He _ IH]; cbn [deltas]; [reflexivity|]. rewrite IH, He. reflexivity. Qed.
(* any composition of moves (nothing added) returns exactly the data it was given *)
Theorem moves_conserve Sf prior vone es t t' :
  wf t -> pres Sf prior vone es t -> Forall (fun e => delta e = []) es -> run Sf prior vone es t = Some t' ->
  wf t' /\ Permutation (points t') (points t).
Proof.
  intros Hwf Hp Hd E. destruct (wf_run Sf prior vone es t t' Hwf Hp E) as [W P]. split; [exact W|].
  rewrite (deltas_nil es Hd) in P. exact P.
Qed.
(* a pass that builds a tree from the empty one holds exactly the points its steps added (an SMC pass adds
   the k-th point of the permutation at step k, by NewClone / AddPoint) *)
Theorem build_conserves Sf prior vone es t' :
  pres Sf prior vone es (empty_tree vone) -> run Sf prior vone es (empty_tree vone) = Some t' ->
  wf t' /\ Permutation (points t') (deltas es).
Proof.
  intros Hp E. destruct (wf_run Sf prior vone es _ t' (wf_empty vone) Hp E) as [W P]. split; [exact W|].
  unfold points at 2 in P. cbn [empty_tree troots outl points_f flat_map app] in P. rewrite app_nil_r in P. exact P.
Qed.
