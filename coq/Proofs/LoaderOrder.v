(* C17 proofs, part 1: the identifier order is a strict total order; sort_u is the unique strictly sorted
   list of the distinct elements, hence invariant under permutation (and duplication) of its input. *)
From PV Require Import Model.Loader.
From Coq Require Import Permutation.

Definition lt_id (a b : ident) : Prop := id_cmp a b = Lt.

Lemma id_cmp_refl a : id_cmp a a = Eq.
Proof. induction a as [|x a IH]; cbn [id_cmp]; [reflexivity|]. rewrite Nat.compare_refl. exact IH. Qed.

Lemma id_cmp_eq a : forall b, id_cmp a b = Eq -> a = b.
Proof.
  induction a as [|x a IH]; intros [|y b] H; cbn [id_cmp] in H; try discriminate; [reflexivity|].
  destruct (Nat.compare x y) eqn:E; try discriminate.
  apply Nat.compare_eq_iff in E. subst y. f_equal. apply IH. exact H.
Qed.

Lemma id_cmp_antisym a : forall b, id_cmp b a = CompOpp (id_cmp a b).
Proof.
  induction a as [|x a IH]; intros [|y b]; cbn [id_cmp]; try reflexivity.
  rewrite (Nat.compare_antisym x y). destruct (Nat.compare x y); cbn [CompOpp]; try reflexivity. apply IH.
Qed.

Lemma lt_id_irrefl a : ~ lt_id a a.
Proof. unfold lt_id. rewrite id_cmp_refl. discriminate. Qed.

Lemma lt_id_trans a : forall b c, lt_id a b -> lt_id b c -> lt_id a c.
Proof.
  unfold lt_id. induction a as [|x a IH]; intros [|y b] [|z c] H1 H2; cbn [id_cmp] in *; try discriminate; try reflexivity.
  destruct (Nat.compare_spec x y) as [E1|E1|E1]; try discriminate;
  destruct (Nat.compare_spec y z) as [E2|E2|E2]; try discriminate;
  destruct (Nat.compare_spec x z) as [E3|E3|E3]; try lia; try reflexivity.
  eapply IH; eassumption.
Qed.

Lemma lt_id_gt a b : id_cmp a b = Gt -> lt_id b a.
Proof. intros H. unfold lt_id. rewrite id_cmp_antisym, H. reflexivity. Qed.

Lemma id_eqb_eq a b : id_eqb a b = true <-> a = b.
Proof.
  unfold id_eqb. split.
  - destruct (id_cmp a b) eqn:E; try discriminate. intros _. apply id_cmp_eq. exact E.
  - intros ->. rewrite id_cmp_refl. reflexivity.
Qed.
Lemma id_eqb_refl a : id_eqb a a = true.
Proof. apply id_eqb_eq. reflexivity. Qed.
Lemma id_eqb_neq a b : id_eqb a b = false <-> a <> b.
Proof.
  split.
  - intros H E. apply id_eqb_eq in E. congruence.
  - intros H. destruct (id_eqb a b) eqn:E; [|reflexivity]. apply id_eqb_eq in E. contradiction.
Qed.
Lemma id_eqb_sym a b : id_eqb a b = id_eqb b a.
Proof.
  destruct (id_eqb a b) eqn:E.
  - apply id_eqb_eq in E. subst. symmetry. apply id_eqb_refl.
  - symmetry. apply id_eqb_neq. apply id_eqb_neq in E. congruence.
Qed.

(* ---- strictly sorted lists ------------------------------------------------------------------- *)
Fixpoint ssorted (l : list ident) : Prop :=
  match l with
  | [] => True
  | x :: r => (forall y, In y r -> lt_id x y) /\ ssorted r
  end.

Lemma In_insert_u x l y : In y (insert_u x l) <-> y = x \/ In y l.
Proof.
  induction l as [|z l IH]; cbn [insert_u In]; [intuition|].
  destruct (id_cmp x z) eqn:E; cbn [In].
  - apply id_cmp_eq in E. subst z. intuition.
  - intuition.
  - rewrite IH. intuition.
Qed.

Lemma In_sort_u l y : In y (sort_u l) <-> In y l.
Proof.
  unfold sort_u. induction l as [|x l IH]; cbn [fold_right In]; [tauto|].
  rewrite In_insert_u, IH. intuition.
Qed.

Lemma ssorted_insert_u x l : ssorted l -> ssorted (insert_u x l).
Proof.
  induction l as [|z l IH]; cbn [insert_u ssorted]; [intros _; split; [intros y []| exact I]|].
  intros [Hz Hl]. destruct (id_cmp x z) eqn:E; cbn [ssorted].
  - split; assumption.
  - split; [|split; assumption]. intros y [<-|Hy]; [exact E|].
    apply lt_id_trans with z; [exact E| apply Hz; exact Hy].
  - split; [|apply IH; exact Hl]. intros y Hy. apply In_insert_u in Hy. destruct Hy as [->|Hy].
    + apply lt_id_gt. exact E.
    + apply Hz. exact Hy.
Qed.

Lemma ssorted_sort_u l : ssorted (sort_u l).
Proof. unfold sort_u. induction l as [|x l IH]; cbn [fold_right]; [exact I| apply ssorted_insert_u; exact IH]. Qed.

Lemma ssorted_unique l1 : forall l2, ssorted l1 -> ssorted l2 -> (forall x, In x l1 <-> In x l2) -> l1 = l2.
Proof.
  induction l1 as [|x r1 IH]; intros [|y r2] S1 S2 H.
  - reflexivity.
  - exfalso. apply (proj2 (H y)). left; reflexivity.
  - exfalso. apply (proj1 (H x)). left; reflexivity.
  - destruct S1 as [Hx S1]. destruct S2 as [Hy S2].
    assert (E : x = y).
    { destruct (proj1 (H x) (or_introl eq_refl)) as [E|Hx2]; [congruence|].
      destruct (proj2 (H y) (or_introl eq_refl)) as [E|Hy1]; [congruence|].
      exfalso. apply (lt_id_irrefl x). apply lt_id_trans with y; [apply Hx; exact Hy1| apply Hy; exact Hx2]. }
    subst y. f_equal. apply IH; try assumption.
    intros z. split; intros Hz.
    + destruct (proj1 (H z) (or_intror Hz)) as [E|Hz2]; [|exact Hz2].
      subst z. exfalso. apply (lt_id_irrefl x). apply Hx. exact Hz.
    + destruct (proj2 (H z) (or_intror Hz)) as [E|Hz1]; [|exact Hz1].
      subst z. exfalso. apply (lt_id_irrefl x). apply Hy. exact Hz.
Qed.

Lemma sort_u_ext l l' : (forall x, In x l <-> In x l') -> sort_u l = sort_u l'.
Proof.
  intros H. apply ssorted_unique; try apply ssorted_sort_u.
  intros x. rewrite !In_sort_u. apply H.
Qed.

Lemma sort_u_perm l l' : Permutation l l' -> sort_u l = sort_u l'.
Proof.
  intros H. apply sort_u_ext. intros x. split; apply Permutation_in; [exact H| apply Permutation_sym; exact H].
Qed.

Lemma ssorted_NoDup l : ssorted l -> NoDup l.
Proof.
  induction l as [|x l IH]; cbn [ssorted]; [constructor|]. intros [Hx Hl]. constructor; [|apply IH; exact Hl].
  intros Hin. apply (lt_id_irrefl x). apply Hx. exact Hin.
Qed.
Lemma NoDup_sort_u l : NoDup (sort_u l).
Proof. apply ssorted_NoDup, ssorted_sort_u. Qed.

(* position i < position j  ->  element i < element j : "numbered 0..n-1 in sorted identifier order" *)
Lemma ssorted_nth l d : ssorted l -> forall i j, (i < j)%nat -> (j < length l)%nat -> lt_id (nth i l d) (nth j l d).
Proof.
  induction l as [|x l IH]; cbn [ssorted length]; [intros _ i j _ Hj; lia|].
  intros [Hx Hl] i j Hij Hj. destruct j as [|j]; [lia|]. destruct i as [|i]; cbn [nth].
  - apply Hx. apply nth_In. lia.
  - apply IH; [exact Hl| lia| lia].
Qed.

(* ---- filter and permutations ------------------------------------------------------------------ *)
Lemma Permutation_filter {A} (p : A -> bool) l l' : Permutation l l' -> Permutation (filter p l) (filter p l').
Proof.
  induction 1 as [|x l l' H IH|x y l|l l' l'' H1 IH1 H2 IH2]; cbn [filter].
  - constructor.
  - destruct (p x); [constructor|]; exact IH.
  - destruct (p x), (p y); try apply Permutation_refl. apply perm_swap.
  - eapply Permutation_trans; eassumption.
Qed.

Lemma single_perm {A} (a b : list A) : Permutation a b ->
  match a with [r] => Some r | _ => None end = match b with [r] => Some r | _ => None end.
Proof.
  intros H. destruct a as [|x [|x' a]].
  - apply Permutation_nil in H. subst b. reflexivity.
  - apply Permutation_length_1_inv in H. subst b. reflexivity.
  - apply Permutation_length in H. destruct b as [|y [|y' b]]; cbn [length] in H; try discriminate. reflexivity.
Qed.
