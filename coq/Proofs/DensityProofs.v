(* C03 proofs, part 1: the three code paths compute the spec; the outlier marginal is the single-clone marginal. *)
From PV Require Import Model.Density Proofs.PermProofs.

(* [qc_lra] unfolds Qcminus after Qcplus: unfold it first *)
Ltac qlra := unfold Qcminus in *; qc_lra.
(* side conditions of [field] *)
Ltac fside := repeat split; try assumption; try (apply Qc_pos_neq0; reflexivity).

(* ---------- products ---------- *)
Lemma prodq_fold_left {A} (f : A -> Qc) l : forall a, fold_left (fun acc x => acc * f x) l a = a * prodq (map f l).
Proof.
  induction l as [|x l IH]; intros a; cbn [fold_left map prodq]; [ring|]. rewrite IH. ring.
Qed.
Lemma prodq_perm l l' : Permutation l l' -> prodq l = prodq l'.
Proof.
  induction 1; cbn [prodq]; [reflexivity| now rewrite IHPermutation| ring| congruence].
Qed.
Lemma list_sum_perm l l' : Permutation l l' -> list_sum l = list_sum l'.
Proof.
  induction 1; cbn [list_sum fold_right]; [reflexivity| unfold list_sum in *; lia| lia| congruence].
Qed.
Lemma prodq_flat_map {A B} (f : B -> Qc) (g : A -> list B) l :
  prodq (map f (flat_map g l)) = prodq (map (fun x => prodq (map f (g x))) l).
Proof.
  induction l as [|x l IH]; cbn [flat_map map prodq]; [reflexivity|].
  rewrite map_app, prodq_app, IH. reflexivity.
Qed.
Lemma prodq_map_ext {A} (f g : A -> Qc) l : (forall a, In a l -> f a = g a) -> prodq (map f l) = prodq (map g l).
Proof.
  induction l as [|x l IH]; cbn [map prodq]; intros H; [reflexivity|].
  rewrite (H x) by (left; reflexivity). rewrite IH; [reflexivity|]. intros a Ha. apply H. right. exact Ha.
Qed.
Lemma list_sum_cons x l : list_sum (x :: l) = (x + list_sum l)%nat.
Proof. reflexivity. Qed.
Lemma length_flat_map {A B} (g : A -> list B) l : length (flat_map g l) = list_sum (map (fun x => length (g x)) l).
Proof.
  induction l as [|x l IH]; cbn [flat_map map]; [reflexivity|]. rewrite app_length, list_sum_cons, IH. reflexivity.
Qed.
Lemma map_ext_Forall {A B} (f g : A -> B) l : Forall (fun x => f x = g x) l -> map f l = map g l.
Proof. induction 1; cbn [map]; congruence. Qed.

(* ---------- flat iteration over the graph nodes = structural recursion ---------- *)
Lemma flat_length t : length (flat t) = nclones t.
Proof.
  induction t as [o ks IH] using tree_ind'. cbn [flat nclones length]. f_equal.
  rewrite length_flat_map. f_equal. apply map_ext_Forall. exact IH.
Qed.
Lemma nodes_length F : get_number_of_nodes F = fclones F.
Proof.
  unfold get_number_of_nodes, nodes, fclones. rewrite length_flat_map. f_equal.
  apply map_ext_in. intros t _. apply flat_length.
Qed.
Lemma flat_crp t : prodq (map (fun n => qfact (length (own n) - 1)) (flat t)) = crp_tree t.
Proof.
  induction t as [o ks IH] using tree_ind'. cbn [flat crp_tree map prodq own]. f_equal.
  rewrite prodq_flat_map. f_equal. apply map_ext_Forall. exact IH.
Qed.
Lemma flat_mult t : prodq (map (fun n => qfact (length (kids n))) (flat t)) = mult_tree t.
Proof.
  induction t as [o ks IH] using tree_ind'. cbn [flat mult_tree map prodq kids]. f_equal.
  rewrite prodq_flat_map. f_equal. apply map_ext_Forall. exact IH.
Qed.
Lemma flat_points (f : nat -> Qc) t :
  prodq (map (fun n => prodq (map f (own n))) (flat t)) = prodq (map f (points t)).
Proof.
  induction t as [o ks IH] using tree_ind'. cbn [flat points map prodq own].
  rewrite map_app, prodq_app, !prodq_flat_map.
  rewrite (map_ext_Forall _ _ ks IH). ring.
Qed.
Lemma flat_sizes t : list_sum (map (fun n => length (own n)) (flat t)) = size t.
Proof.
  induction t as [o ks IH] using tree_ind'. cbn [flat size map own]. rewrite list_sum_cons. f_equal.
  rewrite flat_map_concat_map, concat_map, map_map.
  assert (H : forall l : list (list nat), list_sum (concat l) = list_sum (map list_sum l)).
  { induction l as [|x l IHl]; cbn [concat map]; [reflexivity|]. rewrite list_sum_app, list_sum_cons, IHl. reflexivity. }
  rewrite H, map_map. f_equal. apply map_ext_Forall. exact IH.
Qed.

Lemma node_data_clones F :
  filter (fun kv : bool * list nat => negb (fst kv)) (node_data F) = map (fun n => (false, own n)) (nodes F).
Proof.
  unfold node_data. rewrite filter_app. cbn [filter fst negb]. rewrite app_nil_r.
  induction (nodes F) as [|n l IH]; cbn [map filter fst negb]; [reflexivity| now rewrite IH].
Qed.

Lemma alpha_crp_spec alpha F : alpha_crp alpha F = (spec_crp alpha F, fclones F).
Proof.
  unfold alpha_crp, spec_crp. rewrite node_data_clones, nodes_length, map_map. cbn [snd].
  f_equal. f_equal. unfold nodes. rewrite prodq_flat_map. f_equal.
  apply map_ext. intros t. apply flat_crp.
Qed.
Lemma multiplicity_spec F : / multiplicity F = spec_mult F.
Proof.
  unfold multiplicity, spec_mult, nodes. rewrite prodq_flat_map. do 3 f_equal.
  apply map_ext. intros t. apply flat_mult.
Qed.

(* ---------- the falsy-zero fall-through never changes the value ---------- *)
Lemma start_values_recompute alpha F :
  start_values alpha F (Some (fst (alpha_crp alpha F))) (Some (snd (alpha_crp alpha F))) = alpha_crp alpha F.
Proof.
  unfold start_values. destruct (falsyQ _ || falsyN _); [reflexivity|]. destruct (alpha_crp alpha F); reflexivity.
Qed.
Lemma start_values_none alpha F : start_values alpha F None None = alpha_crp alpha F.
Proof. reflexivity. Qed.
Lemma mult_value_recompute F : mult_value F (Some (multiplicity F)) = multiplicity F.
Proof. unfold mult_value. destruct (falsyQ _); reflexivity. Qed.

(* ---------- the root-count penalty ---------- *)
Lemma Qcpower_S q n : q ^ S n = q * q ^ n.
Proof. reflexivity. Qed.
Lemma Qcpower_O q : q ^ 0 = 1.
Proof. reflexivity. Qed.
Lemma Qcpower_one q : q ^ 1 = q.
Proof. rewrite Qcpower_S, Qcpower_O. ring. Qed.
Lemma Qcpower_neq0 q n : q <> 0 -> q ^ n <> 0.
Proof.
  intros Hq. induction n as [|n IH].
  - intros H. discriminate H.
  - rewrite Qcpower_S. intros H. apply Qcmult_integral in H. tauto.
Qed.
Lemma Qcpower_gt0 q n : 0 < q -> 0 < q ^ n.
Proof.
  intros Hq. induction n as [|n IH]; [reflexivity|]. rewrite Qcpower_S. apply Qc_mul_pos; assumption.
Qed.

Lemma geom_closed c R : 1 < c -> geom c R = (1 - / (c ^ R)) / (1 - / c).
Proof.
  intros Hc.
  assert (Hc0 : c <> 0) by (apply Qc_pos_neq0; qlra).
  assert (Hc1 : c - 1 <> 0) by (apply Qc_pos_neq0; qlra).
  induction R as [|r IH]; cbn [geom].
  - rewrite Qcpower_O. field. fside.
  - rewrite IH, Qcpower_S. pose proof (Qcpower_neq0 c r Hc0). field. fside.
Qed.
Lemma geom_pos c R : 0 < c -> 0 < geom c (S R).
Proof.
  intros Hc. induction R as [|r IH]; cbn [geom] in *.
  - rewrite Qcpower_O. reflexivity.
  - apply Qc_add_pos_pos; [exact IH|]. apply Qc_inv_pos, Qcpower_gt0, Hc.
Qed.

Lemma r_term_spec c R nn : 1 < c -> r_term c R nn = root_penalty c R.
Proof.
  intros Hc.
  assert (Hc0 : c <> 0) by (apply Qc_pos_neq0; qlra).
  assert (Hc1 : c - 1 <> 0) by (apply Qc_pos_neq0; qlra).
  unfold r_term, z_term, root_penalty. cbv zeta. rewrite Qcpower_1.
  destruct R as [|r].
  - cbn [Nat.sub]. rewrite Qcpower_O. field. fside.
  - rewrite (geom_closed c (S r) Hc). cbn [Nat.sub]. rewrite Nat.sub_0_r.
    rewrite Qcpower_one. rewrite Qcpower_S.
    pose proof (Qcpower_neq0 c r Hc0) as Hp.
    assert (Hd : c * c ^ r - 1 <> 0).
    { apply Qc_pos_neq0. pose proof (Qcpower_gt0 c r ltac:(qlra)) as Hg.
      assert (1 * 1 < c * c ^ r).
      { apply Qclt_le_trans with (c * 1); [qlra|]. rewrite !(Qcmult_comm c).
        destruct r as [|r']; [rewrite Qcpower_O; apply Qcle_refl|].
        apply Qclt_le_weak. apply Qcmult_lt_compat_r; [qlra|].
        clear Hp Hg. induction r' as [|r'' IHr]; [rewrite Qcpower_one; qlra|].
        rewrite Qcpower_S. apply Qclt_trans with (1 * c ^ S r''); [qlra|].
        apply Qcmult_lt_compat_r; [apply Qcpower_gt0; qlra| exact Hc]. }
      qlra. }
    field. fside.
Qed.

(* ---------- number of ways below a top-level clone ---------- *)
Lemma num_ways_spec roots_ :
  / fold_left (fun acc root => acc * qn (get_number_of_descendants root + 1) ^ (get_number_of_descendants root + 1 - 1)) roots_ 1
  = prodq (map (fun t => / (qn (nclones t) ^ (nclones t - 1))) roots_).
Proof.
  rewrite (prodq_fold_left (fun root => qn (get_number_of_descendants root + 1) ^ (get_number_of_descendants root + 1 - 1))).
  rewrite Qcmult_1_l.
  induction roots_ as [|t l IH]; cbn [map prodq]; [reflexivity|].
  rewrite Qcinv_mult_distr, IH. f_equal.
  unfold get_number_of_descendants. rewrite flat_length.
  assert (H : (nclones t - 1 + 1 = nclones t)%nat) by (destruct t; cbn [nclones]; lia).
  rewrite H. reflexivity.
Qed.

(* ---------- prior paths ---------- *)
Definition spec_prior_marg alpha F := spec_crp alpha F * spec_topo_marg F * spec_mult F.
Definition spec_prior_one alpha c F := spec_crp alpha F * spec_topo_one c F * spec_mult F.

Lemma prior_log_p_none alpha F : prior_log_p alpha F None None None = spec_prior_marg alpha F.
Proof.
  unfold prior_log_p. rewrite start_values_none, alpha_crp_spec. cbn [mult_value].
  rewrite multiplicity_spec. reflexivity.
Qed.
Lemma prior_log_p_one_none alpha c F : 1 < c -> prior_log_p_one alpha c F None None None = spec_prior_one alpha c F.
Proof.
  intros Hc. unfold prior_log_p_one. rewrite start_values_none, alpha_crp_spec. cbn [mult_value]. cbv zeta.
  rewrite multiplicity_spec, r_term_spec by exact Hc.
  rewrite (num_ways_spec (roots F)). reflexivity.
Qed.
Lemma prior_both_spec alpha c F : 1 < c -> prior_both alpha c F = (spec_prior_marg alpha F, spec_prior_one alpha c F).
Proof.
  intros Hc. unfold prior_both.
  pose proof (start_values_recompute alpha F) as Hs. pose proof (mult_value_recompute F) as Hm.
  destruct (alpha_crp alpha F) as [st nn] eqn:E. cbn [fst snd] in Hs.
  unfold prior_log_p, prior_log_p_one. rewrite Hs, Hm.
  rewrite alpha_crp_spec in E. injection E as <- <-. cbv zeta.
  rewrite multiplicity_spec, r_term_spec by exact Hc. rewrite (num_ways_spec (roots F)). reflexivity.
Qed.

(* ---------- outlier prior ---------- *)
Lemma Qcpower_lt1 p n : 0 < p -> p < 1 -> p ^ S n < 1.
Proof.
  intros H0 H1. induction n as [|n IH]; [rewrite Qcpower_one; qlra|].
  rewrite Qcpower_S. apply Qclt_trans with (1 * p ^ S n); [|qlra].
  apply Qcmult_lt_compat_r; [apply Qcpower_gt0; exact H0| exact H1].
Qed.

Definition point_factor (D : nat -> dpoint) (is_out : bool) (i : nat) : Qc :=
  if is_out then prior_out (D i) else prior_in (D i).

Lemma outlier_prior_point D (b : bool) i (acc : Qc) : dp_ok (D i) ->
  (if Qc_eq_dec (i_op (data_point (D i))) 1 then acc
   else if b then acc * i_op (data_point (D i)) else acc * i_opn (data_point (D i)))
  = acc * point_factor D b i.
Proof.
  intros [H0 [H1 Hs]]. unfold point_factor, data_point, compute_outlier_prob, prior_out, prior_in.
  destruct (Qc_eq_dec (dp_p (D i)) 0) as [Hp|Hp]; cbn [i_op i_opn].
  - destruct (Qc_eq_dec 1 1) as [_|N]; [|congruence]. destruct b; ring.
  - destruct (Qc_eq_dec (dp_p (D i) ^ dp_size (D i)) 1) as [E|_].
    + exfalso. destruct (dp_size (D i)) as [|n]; [lia|].
      assert (Hpos : 0 < dp_p (D i)).
      { destruct (Qcle_lt_or_eq _ _ H0) as [Hlt|Heq]; [exact Hlt| congruence]. }
      pose proof (Qcpower_lt1 _ n Hpos H1) as Hlt. rewrite E in Hlt. revert Hlt. apply Qclt_irrefl || (intros Hlt; qlra).
    + destruct b; reflexivity.
Qed.

Lemma outlier_prior_inner D (b : bool) l : (forall i, In i l -> dp_ok (D i)) -> forall acc,
  fold_left (fun (acc : Qc) (i : nat) =>
      if Qc_eq_dec (i_op (data_point (D i))) 1 then acc
      else if b then acc * i_op (data_point (D i)) else acc * i_opn (data_point (D i))) l acc
  = acc * prodq (map (point_factor D b) l).
Proof.
  induction l as [|i l IH]; intros H acc; cbn [fold_left map prodq]; [ring|].
  rewrite outlier_prior_point by (apply H; left; reflexivity).
  rewrite IH by (intros j Hj; apply H; right; exact Hj). ring.
Qed.

Lemma outlier_prior_fold D nd :
  (forall kv i, In kv nd -> In i (snd kv) -> dp_ok (D i)) -> forall acc,
  fold_left (fun (acc : Qc) (kv : bool * list nat) =>
    fold_left (fun (acc : Qc) (i : nat) =>
      if Qc_eq_dec (i_op (data_point (D i))) 1 then acc
      else if fst kv then acc * i_op (data_point (D i)) else acc * i_opn (data_point (D i))) (snd kv) acc) nd acc
  = acc * prodq (map (fun kv => prodq (map (point_factor D (fst kv)) (snd kv))) nd).
Proof.
  induction nd as [|kv nd IH]; intros H acc; cbn [fold_left map prodq]; [ring|].
  rewrite outlier_prior_inner by (intros i Hi; apply (H kv i); [left; reflexivity| exact Hi]).
  rewrite IH by (intros kv' i Hkv Hi; apply (H kv' i); [right; exact Hkv| exact Hi]). ring.
Qed.

Lemma in_flat_own t : forall n i, In n (flat t) -> In i (own n) -> In i (points t).
Proof.
  induction t as [o ks IH] using tree_ind'. intros n i Hn Hi. cbn [flat points] in *.
  destruct Hn as [<-|Hn]; [apply in_or_app; right; exact Hi|].
  apply in_or_app; left. apply in_flat_map in Hn. destruct Hn as [k [Hk Hn]].
  apply in_flat_map. exists k. split; [exact Hk|]. rewrite Forall_forall in IH. apply (IH k Hk n i Hn Hi).
Qed.

Lemma outlier_prior_spec D F : (forall i, In i (fpoints F) -> dp_ok (D i)) ->
  outlier_prior (fun i => data_point (D i)) (node_data F) = spec_outlier_prior D F.
Proof.
  intros Hok. unfold outlier_prior. rewrite outlier_prior_fold.
  - rewrite Qcmult_1_l. unfold node_data, spec_outlier_prior. rewrite map_app, prodq_app, map_map. cbn [map prodq fst snd].
    unfold nodes. rewrite prodq_flat_map.
    rewrite (prodq_flat_map (fun i => prior_in (D i)) points).
    rewrite (map_ext _ _ (fun t => flat_points (fun i => prior_in (D i)) t)).
    unfold point_factor. ring.
  - intros kv i Hkv Hi. apply Hok. unfold fpoints. unfold node_data in Hkv. apply in_app_or in Hkv.
    destruct Hkv as [Hkv|[<-|[]]].
    + apply in_map_iff in Hkv. destruct Hkv as [n [<- Hn]]. cbn [snd] in Hi.
      apply in_or_app; left. unfold nodes in Hn. apply in_flat_map in Hn. destruct Hn as [t [Ht Hn]].
      apply in_flat_map. exists t. split; [exact Ht| apply (in_flat_own t n i Hn Hi)].
    + apply in_or_app; right. exact Hi.
Qed.

(* ---------- data term and outliers ---------- *)
Lemma has_children_roots F : has_children F = match roots F with [] => false | _ => true end.
Proof. unfold has_children. destruct (roots F); reflexivity. Qed.

Lemma fold_pair_fst {A} (f g : A -> Qc) l : forall p,
  fold_left (fun (acc : Qc * Qc) x => (fst acc * f x, snd acc * g x)) l p
  = (fst p * prodq (map f l), snd p * prodq (map g l)).
Proof.
  induction l as [|x l IH]; intros [a b]; cbn [fold_left map prodq fst snd]; [f_equal; ring|].
  rewrite IH. cbn [fst snd]. f_equal; ring.
Qed.

(* ---------- DataPoint.__init__: running sum = prefix sums ---------- *)
Lemma accum_from_prefix l : forall acc,
  accum_from acc l = map (fun k => acc + sumq (firstn (S k) l)) (seq 0 (length l)).
Proof.
  induction l as [|x l IH]; intros acc; cbn [accum_from length seq map]; [reflexivity|].
  f_equal; [cbn [firstn sumq]; ring|].
  rewrite IH, <- seq_shift, map_map. apply map_ext. intros k. cbn [firstn sumq]. ring.
Qed.
Lemma accumulate_prefix l : accumulate l = map (fun k => sumq (firstn (S k) l)) (seq 0 (length l)).
Proof.
  destruct l as [|x l]; [reflexivity|]. cbn [accumulate length seq map]. f_equal; [cbn [firstn sumq]; ring|].
  rewrite accum_from_prefix, <- seq_shift, map_map. apply map_ext. intros k. cbn [firstn sumq]. reflexivity.
Qed.

Theorem outlier_marginal_single_clone val : outlier_marginal_prob val = spec_outlier_marg val.
Proof.
  unfold outlier_marginal_prob, spec_outlier_marg, spec_data_marg. cbn [roots]. rewrite map_map.
  apply prodq_map_ext. intros v _. cbv zeta. unfold single_clone_rootR. cbv zeta.
  rewrite accumulate_prefix, !map_map, map_length. f_equal. apply map_ext. intros k.
  rewrite firstn_map, Qcmult_comm. f_equal. f_equal. apply map_ext. intros x. ring.
Qed.

Lemma outliers_fold D F acc :
  fold_left (fun acc i => acc * i_omarg (data_point (D i))) (outl F) acc = acc * spec_outliers D F.
Proof.
  rewrite (prodq_fold_left (fun i => i_omarg (data_point (D i)))). unfold spec_outliers. f_equal. f_equal.
  apply map_ext. intros i. unfold data_point. destruct (compute_outlier_prob _ _). cbn [i_omarg].
  apply outlier_marginal_single_clone.
Qed.

(* ---------- the three code paths ---------- *)
Section Paths.
Variables (alpha c : Qc) (D : nat -> dpoint) (F : forest) (rootR : list (list Qc)).
Hypothesis Hc : 1 < c.
Hypothesis Hok : forall i, In i (fpoints F) -> dp_ok (D i).

Theorem impl_log_p_spec : impl_log_p alpha D F rootR = spec_log_p alpha D F rootR.
Proof.
  unfold impl_log_p, spec_log_p. cbv zeta. rewrite outliers_fold, prior_log_p_none, outlier_prior_spec by exact Hok.
  unfold spec_prior_marg, spec_data_marg. rewrite has_children_roots.
  destruct (roots F) as [|t l] eqn:E; [ring|].
  rewrite (prodq_fold_left sumq). ring.
Qed.

Theorem impl_log_p_one_spec : impl_log_p_one alpha c D F rootR = spec_log_p_one alpha c D F rootR.
Proof.
  unfold impl_log_p_one, spec_log_p_one. cbv zeta.
  rewrite outliers_fold, prior_log_p_one_none, outlier_prior_spec by assumption.
  unfold spec_prior_one, spec_data_one. rewrite has_children_roots.
  destruct (roots F) as [|t l] eqn:E; [ring|].
  rewrite (prodq_fold_left (fun row => last row 0)). ring.
Qed.

Theorem impl_both_spec : impl_both alpha c D F rootR = (spec_log_p alpha D F rootR, spec_log_p_one alpha c D F rootR).
Proof.
  unfold impl_both. cbv zeta. rewrite prior_both_spec by exact Hc.
  rewrite outlier_prior_spec by exact Hok.
  rewrite (fold_pair_fst (fun i => i_omarg (data_point (D i))) (fun i => i_omarg (data_point (D i)))).
  assert (Ho : prodq (map (fun i => i_omarg (data_point (D i))) (outl F)) = spec_outliers D F).
  { pose proof (outliers_fold D F 1) as H. rewrite (prodq_fold_left (fun i => i_omarg (data_point (D i)))) in H.
    rewrite !Qcmult_1_l in H. exact H. }
  rewrite Ho. unfold spec_log_p, spec_log_p_one, spec_prior_marg, spec_prior_one, spec_data_marg, spec_data_one.
  rewrite has_children_roots.
  destruct (roots F) as [|t l] eqn:E; cbn [fst snd]; [f_equal; ring|].
  rewrite (fold_pair_fst sumq (fun row => last row 0)). cbn [fst snd]. f_equal; ring.
Qed.

Theorem fused_eq_separate :
  impl_both alpha c D F rootR = (impl_log_p alpha D F rootR, impl_log_p_one alpha c D F rootR).
Proof. rewrite impl_both_spec, impl_log_p_spec, impl_log_p_one_spec. reflexivity. Qed.
End Paths.
