(* C15: a restored tree can be edited further exactly like the original.
   With at least one clone the restored tree IS the original (C15_roundtrip_identity).  Without clones the two
   differ in the virtual root's cached vector, which nothing reads: every edit of the grammar treats two such
   trees alike (same partiality, results again equal up to that vector). *)
From PV Require Import Model.LTree Proofs.LTreeBase Proofs.LTreeCons Proofs.LTreeWf.
Open Scope nat_scope.

(* equal up to the root vector of a rootless tree *)
Definition eqv (a b : ltree) : Prop :=
  troots a = troots b /\ outl a = outl b /\ LTree.last a = LTree.last b /\ (troots a <> [] -> rootr a = rootr b).
Definition eqv_opt (a b : option ltree) : Prop :=
  match a, b with Some x, Some y => eqv x y | None, None => True | _, _ => False end.

Lemma eqv_refl a : eqv a a.
Proof. repeat split. Qed.
Lemma eqv_opt_refl a : eqv_opt a a.
Proof. destruct a; cbn; [apply eqv_refl| exact I]. Qed.
Lemma eqv_clones a b : eqv a b -> troots a <> [] -> a = b.
Proof. intros [H1 [H2 [H3 H4]]] Hne. destruct a, b. cbn in *. subst. rewrite (H4 Hne). reflexivity. Qed.

Section E.
Variable Sf : list vec -> vec.
Variable prior : vec.
Variable vone : vec.
Notation step := (step Sf prior vone).
Notation mod_t := (mod_t Sf prior).

(* most methods never look at the cached root vector *)
Lemma mod_t_blind x f a b : eqv a b -> mod_t x f a = mod_t x f b.
Proof. intros [H1 [H2 [H3 _]]]. unfold LTree.mod_t, set_root. rewrite H1, H2, H3. reflexivity. Qed.
Lemma points_blind a b : eqv a b -> points a = points b.
Proof. intros [H1 [H2 _]]. unfold points. rewrite H1, H2. reflexivity. Qed.
Lemma labels_blind a b : eqv a b -> labels a = labels b.
Proof. intros [H1 _]. unfold labels. rewrite H1. reflexivity. Qed.

Lemma add_data_point_eqv d x a b : eqv a b -> eqv_opt (add_data_point Sf prior d x a) (add_data_point Sf prior d x b).
Proof.
  intros H. unfold LTree.add_data_point, in_tree. rewrite (points_blind a b H). destruct (has_idx (dp_idx d) (points b)); [exact I|].
  destruct x as [y|].
  - rewrite (mod_t_blind y _ a b H). apply eqv_opt_refl.
  - destruct H as [H1 [H2 [H3 H4]]]. cbn. repeat split; cbn [troots outl LTree.last rootr]; auto. rewrite H2. reflexivity.
Qed.
Lemma remove_data_point_eqv i x a b : eqv a b ->
  match remove_data_point Sf prior i x a, remove_data_point Sf prior i x b with
  | Some (d1, a'), Some (d2, b') => d1 = d2 /\ eqv a' b' | None, None => True | _, _ => False end.
Proof.
  intros H. unfold LTree.remove_data_point. destruct x as [y|].
  - rewrite (mod_t_blind y _ a b H). destruct H as [H1 _]. rewrite H1. destruct (find_f y (troots b)) as [n|]; [|exact I].
    destruct (take_idx i (own n)) as [[d o']|]; [|exact I]. destruct (mod_t y _ b); cbn; [split; [reflexivity| apply eqv_refl]| exact I].
  - destruct H as [H1 [H2 [H3 H4]]]. rewrite H2. destruct (take_idx i (outl b)) as [[d o']|]; [|exact I]. split; [reflexivity|].
    repeat split; cbn [troots outl LTree.last rootr]; auto.
Qed.
Lemma create_root_node_blind cs data a b : eqv a b -> create_root_node Sf prior cs data a = create_root_node Sf prior cs data b.
Proof. intros H. unfold LTree.create_root_node, num_nodes, set_root. rewrite (labels_blind a b H). destruct H as [H1 [H2 [H3 _]]]. rewrite H1, H2. reflexivity. Qed.
Lemma get_subtree_blind x a b : eqv a b -> get_subtree Sf prior vone x a = get_subtree Sf prior vone x b.
Proof. intros [H1 _]. unfold LTree.get_subtree. rewrite H1. reflexivity. Qed.
Lemma tree_eqb_blind s a b : eqv a b -> tree_eqb s a = tree_eqb s b.
Proof. intros [H1 [H2 _]]. unfold tree_eqb, clades. rewrite H1, H2. reflexivity. Qed.
Lemma remove_subtree_blind s a b : eqv a b -> remove_subtree Sf prior vone s a = remove_subtree Sf prior vone s b.
Proof.
  intros H. unfold LTree.remove_subtree. rewrite (tree_eqb_blind s a b H). destruct (tree_eqb s b); [reflexivity|].
  destruct (troots s) as [|n [|? ?]]; try reflexivity. apply mod_t_blind. exact H.
Qed.
Lemma add_subtree_blind s par a b : eqv a b -> add_subtree Sf prior s par a = add_subtree Sf prior s par b.
Proof.
  intros H. unfold LTree.add_subtree, graft_roots. rewrite (labels_blind a b H). destruct par as [x|].
  - rewrite (mod_t_blind x _ a b H). reflexivity.
  - destruct H as [H1 [H2 [H3 _]]]. unfold set_root. rewrite H1, H2, H3. reflexivity.
Qed.
Lemma hand_over_eqv : forall ds a b, eqv a b -> eqv_opt (hand_over Sf prior ds a) (hand_over Sf prior ds b).
Proof.
  induction ds as [|d ds IH]; intros a b H; cbn [LTree.hand_over]; [exact H|].
  pose proof (add_data_point_eqv d None a b H) as E.
  destruct (add_data_point Sf prior d None a), (add_data_point Sf prior d None b); cbn in E; try contradiction; [apply IH; exact E| exact I].
Qed.
Lemma update_blind a b : eqv a b -> update Sf prior a = update Sf prior b.
Proof. intros [H1 [H2 [H3 _]]]. unfold update, set_root. rewrite H1, H2, H3. reflexivity. Qed.
Lemma fresh_blind a b : eqv a b -> fresh Sf prior a = fresh Sf prior b.
Proof. intros [H1 [H2 [H3 _]]]. unfold fresh, set_root. rewrite H1, H2, H3. reflexivity. Qed.
Lemma extract_blind x a b : eqv a b ->
  match extract Sf prior vone x a, extract Sf prior vone x b with
  | Some (p1, _, r1), Some (p2, _, r2) => p1 = p2 /\ r1 = r2 | None, None => True | _, _ => False end.
Proof.
  intros H. unfold LTree.extract. destruct x as [y|].
  - unfold parent_of. rewrite (get_subtree_blind y a b H). destruct H as [H1 H']. rewrite H1.
    destruct (if existsb _ (troots b) then _ else _) as [pr|]; [|exact I].
    destruct (get_subtree Sf prior vone y b) as [sub|]; [|exact I].
    rewrite (remove_subtree_blind sub a b (conj H1 H')). destruct (remove_subtree Sf prior vone sub b) as [rest|]; [|exact I].
    destruct (hand_over Sf prior (outl rest) sub); [split; reflexivity| exact I].
  - unfold copy, LTree.remove_subtree. rewrite !tree_eqb_refl. split; reflexivity.
Qed.

Theorem step_eqv e a b : eqv a b -> eqv_opt (step e a) (step e b).
Proof.
  intros H. destruct e as [cs data|d x|i src dst|x par|x s| | | |]; cbn [LTree.step].
  - rewrite (create_root_node_blind cs data a b H). apply eqv_opt_refl.
  - apply add_data_point_eqv. exact H.
  - unfold move_point, copy. pose proof (remove_data_point_eqv i src a b H) as E.
    destruct (remove_data_point Sf prior i src a) as [[d1 a']|], (remove_data_point Sf prior i src b) as [[d2 b']|]; try contradiction; [|exact I].
    destruct E as [-> E]. apply add_data_point_eqv. exact E.
  - unfold prune_regraft, copy. rewrite (get_subtree_blind x a b H). destruct (get_subtree Sf prior vone x b) as [sub|]; [|exact I].
    rewrite (remove_subtree_blind sub a b H). apply eqv_opt_refl.
  - unfold subtree_resample, copy. pose proof (extract_blind x a b H) as E.
    destruct (extract Sf prior vone x a) as [[[p1 s1] r1]|], (extract Sf prior vone x b) as [[[p2 s2] r2]|]; try contradiction; [|exact I].
    destruct E as [-> ->]. apply eqv_opt_refl.
  - cbn. destruct H as [H1 [H2 [H3 H4]]]. unfold relabel_nodes. repeat split; cbn [troots outl LTree.last rootr]; try congruence.
    intros Hne. apply H4. intros E. apply Hne. rewrite E. reflexivity.
  - exact H.
  - cbn. unfold to_from_dict. rewrite (fresh_blind a b H). apply eqv_refl.
  - cbn. rewrite (update_blind a b H). apply eqv_refl.
Qed.
Theorem run_eqv : forall es a b, eqv a b -> eqv_opt (run Sf prior vone es a) (run Sf prior vone es b).
Proof.
  induction es as [|e es IH]; intros a b H; cbn [LTree.run]; [exact H|].
  pose proof (step_eqv e a b H) as E. destruct (step e a), (step e b); cbn in E; try contradiction; [apply IH; exact E| exact I].
Qed.
End E.

From PV Require Import Proofs.LTreeCache Model.DictForm Proofs.DictFormProofs.
Lemma fresh_eqv Sf prior t : cache_ok Sf prior t -> eqv (fresh Sf prior t) t.
Proof.
  intros H. pose proof (cache_ok_fresh_roots Sf prior t H) as E. split; [exact E|]. split; [reflexivity|]. split; [reflexivity|].
  intros Hne. rewrite E in Hne. destruct H as [_ H]. rewrite (H Hne). unfold fresh, set_root in *. cbn [rootr troots] in *. rewrite E. reflexivity.
Qed.
Theorem restored_edits_like_original Sf prior vone g t es :
  gwf g -> abs g = Some t -> cache_ok Sf prior t ->
  exists t', from_dict Sf prior vone (to_dict g) = Some t' /\ eqv t' t
             /\ eqv_opt (run Sf prior vone es t') (run Sf prior vone es t).
Proof.
  intros H1 H2 H3. exists (fresh Sf prior t). split; [apply dict_roundtrip; assumption|].
  pose proof (fresh_eqv Sf prior t H3) as E. split; [exact E| apply run_eqv; exact E].
Qed.
