(* The assembled theorem with PhyClone's ACTUAL incremental weights and adapted proposals.

   Kernel.create_particle (phyclone/smc/kernels/base.py, with a permutation distribution) computes
       log_w = log_p(new) + log_pdf(new) - log_p(parent) - log_pdf(parent) - log_q
   i.e. the ratio of the intermediate targets  gt(tree) = exp(log_p(tree)) x 1 / #orders(tree)  of the PARTIAL trees, and
   the sampler's last step adds log_p_one - log_p (smc/samplers/base.py:_get_log_w), so the final target is
   exp(log_p_one) x 1 / #orders.  The fully-adapted proposal weighs the candidate trees by exp(log_p) (not by gt: no order
   density, no last-step correction), the semi-adapted one does so for the existing clones / the outlier letter.
   Here:  h_real = dens_marg of the partial rose forest  (what the adapted proposals are proportional to),
          gt_real = dens_marg x 1/fcount before the last letter, dens_one x 1/fcount after it (the weight targets),
   with dens_marg / dens_one C03's specification on C02's root vectors and fcount C09's count.  The generic theorem over the
   grammar (any positive proposal of unit mass, any positive intermediate targets ending in gamma x order density) applies:
   the premise "ends in gam_fscrp x gcden" is PROVED from the alignment of the rose-forest grammar, the well-definedness
   of the target and C09's order density. *)
From PV Require Import Model.EndToEnd Proofs.PermProofs Proofs.PermDensity Proofs.GrammarSound Proofs.ProposalsProofs Proofs.ProposalsPoint.
From PV Require Import Proofs.EndToEndPos Proofs.EndToEndAlign Proofs.EndToEndFeq Proofs.EndToEndRel Proofs.GrammarProposals.
From PV Require Import Model.Csmc Model.CsmcCases Proofs.CsmcEss Proofs.PgAssembly Proofs.CsmcSupport.
From Coq Require Import Bool Permutation.

Section Real.
Variables (n G nsamp : nat) (on : bool) (alpha c : Qc) (D : nat -> dpoint).
Hypothesis Hn : (1 <= n)%nat.
Hypothesis HG : (1 <= G)%nat.
Hypothesis Ha : 0 < alpha.
Hypothesis Hc : 0 < c.
Hypothesis Hd : data_ok G nsamp D.

(* the partial rose forest of a history (newest letter first) along an order *)
Definition fstate (sg : list nat) (p : list place) : forest := frun f0 sg (rev p).
Definition h_real (sg : list nat) (p : list place) : Qc := dens_marg alpha G nsamp D (fstate sg p).
Definition gt_real (sg : list nat) (p : list place) : Qc :=
  (if (length p =? n)%nat then dens_one alpha c G nsamp D (fstate sg p) else dens_marg alpha G nsamp D (fstate sg p))
  * / fcount (fstate sg p).
Definition gam_real : list (list bool) -> Qc := gam_fscrp alpha c G nsamp D n on.

Lemma h_real_pos sg p : 0 < h_real sg p.
Proof. unfold h_real. exact (dens_marg_pos G nsamp D HG Hd alpha (fstate sg p) Ha). Qed.
Lemma gt_real_pos sg p : 0 < gt_real sg p.
Proof.
  unfold gt_real. apply Qc_mul_pos; [|apply Qc_inv_pos, fcount_pos].
  destruct (length p =? n)%nat; [exact (dens_one_pos G nsamp D HG Hd alpha c (fstate sg p) Ha Hc)| exact (dens_marg_pos G nsamp D HG Hd alpha (fstate sg p) Ha)].
Qed.

Lemma gt_real_final sg path : In sg (gorders n) -> In path (gpaths n on sg) ->
  gt_real sg (rev path) = gam_real (gdec n sg (rev path)) * gcden n sg (gdec n sg (rev path)).
Proof.
  intros Hsg Hp. pose proof (proj1 (gpaths_valid n on sg path Hsg) Hp) as Hv.
  destruct (order_facts n sg Hsg) as [Hnd [Hlen Hin]].
  pose proof (al_run on sg path g0 f0 ginv_g0 al_0 Hnd (fun _ _ H => H) Hv) as Hal.
  destruct (grun_inv on sg path g0 ginv_g0 Hnd (fun _ _ H => H) Hv) as [Hinv Hpl]. cbn [g0 gpl] in Hpl. rewrite app_nil_r in Hpl.
  unfold gt_real, fstate. rewrite rev_involutive, rev_length.
  set (F := frun f0 sg path) in *.
  assert (Hl : length path = n).
  { clear - Hv Hlen. rewrite <- Hlen. clear Hlen. revert Hv. generalize g0. revert path.
    induction sg as [|x sg IH]; intros [|a w] s Hv; cbn [gvalid] in Hv; try contradiction; [reflexivity|].
    destruct Hv as [_ Hv]. cbn [length]. f_equal. apply (IH w _ Hv). }
  rewrite Hl, Nat.eqb_refl.
  assert (HpF : Permutation (seq 0 n) (fpoints F)).
  { eapply Permutation_trans; [|apply Permutation_sym, (al_pts _ _ Hal)]. rewrite Hpl.
    eapply Permutation_trans; [|apply Permutation_rev]. apply NoDup_Permutation; [apply seq_NoDup| exact Hnd|].
    intros z. rewrite in_seq, Hin. lia. }
  assert (HwF : Density.wf F).
  { split; [eapply Permutation_NoDup; [apply Permutation_sym, (al_pts _ _ Hal)| apply (gi_nd _ Hinv)]| apply (al_ne _ _ Hal)]. }
  assert (Ht : gdec n sg (rev path) = tab n (frel F)).
  { rewrite gdec_rev. apply tab_ext. intros a b _ _. apply (al_le _ _ Hal). }
  assert (Hfor : In (gdec n sg (rev path)) (forests n on)).
  { apply in_forests. exists sg, path. repeat split; [exact Hsg| exact Hv| apply gdec_rev]. }
  f_equal.
  - unfold gam_real. rewrite Ht in Hfor |- *. exact (gam_fscrp_well_defined n on alpha c G nsamp D (tab n (frel F)) F Hfor HwF HpF eq_refl).
  - rewrite Ht. rewrite (gcden_is_order_density n F HpF sg Hsg). unfold order_density.
    destruct (in_dec order_eq_dec sg (forders F)) as [_|Hno]; [reflexivity|]. exfalso. apply Hno.
    apply (cb_iff_forders n F HpF sg Hsg). rewrite <- Ht, gdec_rev. apply (cb_of_reach n on sg path Hsg Hv).
Qed.

(* the adapted proposals over h_real: positive with unit mass over the alphabet *)
Lemma q_full_h_pos sg p a : 0 < q_full on h_real sg p a.
Proof. unfold q_full. apply Qc_div_pos; [apply h_real_pos| apply (full_total_pos on h_real h_real_pos)]. Qed.
Lemma q_full_h_sum sg p : sumq (map (q_full on h_real sg p) (gsup on sg p)) = 1.
Proof.
  unfold q_full. pose proof (full_total_pos on h_real h_real_pos sg p) as Hp. apply Qc_pos_neq0 in Hp.
  set (T := sumq (map (fun a' => h_real sg (a' :: p)) (gsup on sg p))) in *.
  rewrite (sumq_map_ext _ (fun a => / T * h_real sg (a :: p))) by (intros; unfold Qcdiv; ring).
  rewrite sumq_map_scale. fold T. field. exact Hp.
Qed.
Lemma q_semi_h_pos sg p a : 0 < q_semi on h_real sg p a.
Proof. apply pclamp_pos. Qed.

(* (the two facts below are GrammarProposals.semi_totals / semi_dens_pos for a weight function that need not be the target) *)
Lemma semi_totals_h sg p :
  (nroots sg p = 0%nat -> total (fun a' => h_real sg (a' :: p)) ((if on then [Outlier] else []) ++ [NewOver []]) <> 0)
  /\ (nroots sg p <> 0%nat -> total (fun a' => h_real sg (a' :: p)) (semi_exist (nroots sg p) on) <> 0).
Proof.
  split; intros H; apply Qc_pos_neq0; unfold total; apply GrammarProposals.sumq_pos; try (intros; apply h_real_pos).
  - destruct on; discriminate.
  - unfold semi_exist, roots_of. destruct (nroots sg p); [congruence| cbn [seq map app]; discriminate].
Qed.
Lemma semi_dens_pos_h sg p a : In a (gsup on sg p) -> 0 < semi_dens (fun a' => h_real sg (a' :: p)) (nroots sg p) on a.
Proof.
  intros Ha0. unfold gsup, gsupp in Ha0. fold (nroots sg p) in Ha0.
  unfold semi_dens. destruct (Nat.eqb (nroots sg p) 0) eqn:E.
  - apply Nat.eqb_eq in E. apply Qc_div_pos; [apply h_real_pos|]. unfold total. apply GrammarProposals.sumq_pos; [destruct on; discriminate| intros; apply h_real_pos].
  - apply Nat.eqb_neq in E. destruct a as [i|sub|].
    + apply Qc_mul_pos; [exact half_pos|]. apply Qc_div_pos; [apply h_real_pos|]. unfold total. apply GrammarProposals.sumq_pos; [|intros; apply h_real_pos].
      unfold semi_exist, roots_of. destruct (nroots sg p); [congruence| cbn [seq map app]; discriminate].
    + apply (new_dens_pos _ on sub Ha0).
    + apply Qc_mul_pos; [exact half_pos|]. apply Qc_div_pos; [apply h_real_pos|]. unfold total. apply GrammarProposals.sumq_pos; [|intros; apply h_real_pos].
      unfold semi_exist, roots_of. destruct (nroots sg p); [congruence| cbn [seq map app]; discriminate].
Qed.
Lemma q_semi_h_sum sg p : sumq (map (q_semi on h_real sg p) (gsup on sg p)) = 1.
Proof.
  unfold q_semi. rewrite sumq_clamp by (intros a Ha0; apply semi_dens_pos_h; exact Ha0).
  destruct (semi_totals_h sg p) as [T0 T1]. unfold gsup, gsupp. fold (nroots sg p).
  rewrite <- (semi_sample_mass (fun a' => h_real sg (a' :: p)) (nroots sg p) on T0 T1). unfold mass.
  rewrite (semi_sample_is_density (fun a' => h_real sg (a' :: p)) (nroots sg p) on _ T0 T1).
  apply sumq_map_ext. intros; ring.
Qed.

Theorem phyclone_update_invariant_real (thr : Q) (N : nat) :
  invariant (wlist gam_real (forests n on))
    (pg_update (gorders n) (gcden n) (gsup on) (q_full on h_real) gt_real (gdec n) (genc n on) (ess_rs thr) N (schedule n))
  /\ invariant (wlist gam_real (forests n on))
    (pg_update (gorders n) (gcden n) (gsup on) (q_semi on h_real) gt_real (gdec n) (genc n on) (ess_rs thr) N (schedule n))
  /\ (forall po : Qc, po < 1 -> (on = true -> 0 < po) -> (on = false -> po = 0) ->
      invariant (wlist gam_real (forests n on))
        (pg_update (gorders n) (gcden n) (gsup on) (q_boot po) gt_real (gdec n) (genc n on) (ess_rs thr) N (schedule n))).
Proof.
  split; [|split].
  - apply pg_update_invariant_grammar; [apply (schedule_count n Hn)| exact q_full_h_pos| exact gt_real_pos| exact q_full_h_sum| apply ess_rs_symmetric| exact gt_real_final].
  - apply pg_update_invariant_grammar; [apply (schedule_count n Hn)| exact q_semi_h_pos| exact gt_real_pos| exact q_semi_h_sum| apply ess_rs_symmetric| exact gt_real_final].
  - intros po H1 H2 H3.
    apply (phyclone_update_invariant_bootstrap n Hn on gam_real gt_real gt_real_pos gt_real_final thr N po H1 H2 H3).
Qed.
End Real.
