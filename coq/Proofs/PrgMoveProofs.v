From PV Require Import Model.PrgMove Proofs.GibbsProofs Proofs.DpMoveProofs Proofs.DpMoveInvariant.
From Coq Require Import Bool.

Lemma lookup_set_pt_other s v h u : u <> v -> lookup (set_pt s v h) u = lookup s u.
Proof.
  intros Hne. induction s as [|[y k] r IH]; cbn [set_pt lookup]; [reflexivity|].
  destruct (Nat.eqb v y) eqn:Hvy; cbn [lookup].
  - apply Nat.eqb_eq in Hvy. subst y. destruct (Nat.eqb u v) eqn:Huv; [apply Nat.eqb_eq in Huv; congruence| reflexivity].
  - destruct (Nat.eqb u y); [reflexivity| exact IH].
Qed.

(* regrafting v does not change which nodes lie below v *)
Lemma reach_set_pt s v h fuel : forall u, u <> v -> reach (set_pt s v h) v fuel u = reach s v fuel u.
Proof.
  induction fuel as [|f IH]; intros u Hne; cbn [reach]; [reflexivity|].
  rewrite lookup_set_pt_other by exact Hne. destruct (lookup s u) as [p|]; [|reflexivity].
  destruct (Nat.eqb p v) eqn:Hpv; [reflexivity|]. cbn [orb]. apply IH. apply Nat.eqb_neq. exact Hpv.
Qed.
Lemma set_pt_length s v h : length (set_pt s v h) = length s.
Proof. rewrite <- (map_length fst), set_pt_keys, map_length. reflexivity. Qed.

Lemma attach_points_set_pt s v h : attach_points (set_pt s v h) v = attach_points s v.
Proof.
  unfold attach_points. f_equal. f_equal. rewrite set_pt_keys. apply filter_ext_in. intros u _.
  unfold outside. rewrite set_pt_length. destruct (Nat.eqb u v) eqn:Huv; [reflexivity|].
  cbn [negb andb]. f_equal. apply reach_set_pt. apply Nat.eqb_neq. exact Huv.
Qed.

(* the candidate list is the same from every candidate *)
Theorem prg_candidates_closed v s s' : In s' (prg_cand v s) -> prg_cand v s' = prg_cand v s.
Proof.
  unfold prg_cand. intros Hin. apply in_map_iff in Hin. destruct Hin as [h [<- _]].
  rewrite attach_points_set_pt. apply map_ext. intros h'. apply set_pt_set_pt.
Qed.

(* hence, for a fixed pruned node, the move is a Gibbs step on fibers *)
Theorem prg_fixed_node_invariant (gamma : state -> Qc) v (reps : list state) f :
  (forall r, In r reps -> total gamma (prg_cand v r) <> 0) ->
  let S := concat (map (prg_cand v) reps) in
  E (wlist gamma S) (fun s => E (gibbs gamma (prg_cand v s)) f) = E (wlist gamma S) f.
Proof.
  intros Htot S. unfold S. apply (gibbs_partition_invariant gamma (map (prg_cand v) reps) (prg_cand v) f).
  - intros b Hb. apply in_map_iff in Hb. destruct Hb as [r [<- Hr]]. apply Htot. exact Hr.
  - intros b s Hb Hs. apply in_map_iff in Hb. destruct Hb as [r [<- Hr]]. apply prg_candidates_closed. exact Hs.
Qed.

(* every candidate has the same node list, so the uniform choice of the pruned node is state-independent on a fiber *)
Lemma prg_cand_keys v s s' : In s' (prg_cand v s) -> map fst s' = map fst s.
Proof. unfold prg_cand. intros Hin. apply in_map_iff in Hin. destruct Hin as [h [<- _]]. apply set_pt_keys. Qed.
