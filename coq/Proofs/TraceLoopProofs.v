(* C15, trace shape: which iterations are recorded, in which order, with which state. *)
From PV Require Import Model.TraceLoop.
Open Scope nat_scope.

Section TL.
Variable St : Type.
Variable Tree : Type.
Variable sweep : nat -> St -> St.
Variable stop : nat -> St -> bool.
Variable alpha_of : St -> Qc.
Variable tree_of : St -> Tree.
Variable lp1 : Qc -> Tree -> Qc.
Variable thin : nat.
Notation loop := (loop St Tree sweep stop alpha_of tree_of lp1 thin).
Notation trace := (trace St Tree sweep stop alpha_of tree_of lp1 thin).
Notation executed := (executed St sweep stop).
Notation state_after := (state_after St sweep).
Notation record := (record St Tree alpha_of tree_of lp1).
Definition mult (i : nat) : bool := i mod thin =? 0.

Lemma loop_iters : forall f i s, map (e_iter Tree) (loop f i s) = filter mult (seq i (executed f i s)).
Proof.
  induction f as [|f IH]; intros i s; cbn [TraceLoop.loop TraceLoop.executed]; [reflexivity|].
  rewrite map_app. cbn [seq filter]. unfold mult at 1.
  destruct (i mod thin =? 0); cbn [map app e_iter record]; [f_equal|];
    (destruct (stop i (sweep i s)); [reflexivity| apply IH]).
Qed.
Lemma loop_states s0 : forall f i e, In e (loop f i (state_after s0 i)) -> e = record (e_iter Tree e) (state_after s0 (S (e_iter Tree e))).
Proof.
  induction f as [|f IH]; intros i e; cbn [TraceLoop.loop]; [intros []|]. intros H. apply in_app_or in H. destruct H as [H|H].
  - destruct (i mod thin =? 0); [|destruct H]. destruct H as [<-|[]]. reflexivity.
  - destruct (stop i (sweep i (state_after s0 i))); [destruct H|]. apply (IH (S i)). exact H.
Qed.
Lemma executed_le : forall f i s, executed f i s <= f.
Proof. induction f as [|f IH]; intros i s; cbn [TraceLoop.executed]; [lia|]. destruct (stop i (sweep i s)); [lia|]. specialize (IH (S i) (sweep i s)). lia. Qed.
(* no stop before the last executed iteration; a stop at it if the loop ended early *)
Lemma executed_spec s0 : forall f i,
  let m := executed f i (state_after s0 i) in
  (forall j, i <= j -> S j < i + m -> stop j (state_after s0 (S j)) = false)
  /\ (m < f -> 0 < m /\ stop (i + m - 1) (state_after s0 (i + m)) = true).
Proof.
  induction f as [|f IH]; intros i; cbn [TraceLoop.executed]; cbn zeta.
  - split; [intros; lia| intros; lia].
  - change (sweep i (state_after s0 i)) with (state_after s0 (S i)).
    destruct (stop i (state_after s0 (S i))) eqn:Es.
    + split; [intros; lia|]. intros _. split; [lia|]. replace (i + 1 - 1) with i by lia. replace (i + 1) with (S i) by lia. exact Es.
    + destruct (IH (S i)) as [H1 H2]. cbn zeta in H1, H2. split.
      * intros j Hj Hlt. destruct (Nat.eq_dec j i) as [->|Hne]; [exact Es|]. apply H1; lia.
      * intros Hlt. destruct H2 as [H2 H3]; [lia|]. split; [lia|].
        replace (i + S (executed f (S i) (state_after s0 (S i))) - 1) with (S i + executed f (S i) (state_after s0 (S i)) - 1) by lia.
        replace (i + S (executed f (S i) (state_after s0 (S i)))) with (S i + executed f (S i) (state_after s0 (S i))) by lia. exact H3.
Qed.

Theorem trace_shape n s0 :
  let m := executed n 0 s0 in
  map (e_iter Tree) (trace n s0) = 0 :: filter mult (seq 0 m)
  /\ m <= n
  /\ (forall j, S j < m -> stop j (state_after s0 (S j)) = false)
  /\ (m < n -> 0 < m /\ stop (m - 1) (state_after s0 m) = true)
  /\ hd_error (trace n s0) = Some (record 0 s0)
  /\ (forall e, In e (tl (trace n s0)) -> e = record (e_iter Tree e) (state_after s0 (S (e_iter Tree e))))
  /\ (forall e, In e (trace n s0) -> e_lp1 Tree e = lp1 (e_alpha Tree e) (e_tree Tree e)).
Proof.
  cbn zeta. unfold TraceLoop.trace. cbn [map e_iter record hd_error tl].
  destruct (executed_spec s0 n 0) as [X1 X2]. cbn zeta in X1, X2. cbn [TraceLoop.state_after Nat.add] in X1, X2.
  split; [f_equal; apply loop_iters|]. split; [apply executed_le|]. split; [intros j Hj; apply X1; lia|].
  split; [intros Hlt; apply X2; exact Hlt|]. split; [reflexivity|]. split.
  - intros e He. apply (loop_states s0 n 0). exact He.
  - intros e [<-|He]; [reflexivity|]. rewrite (loop_states s0 n 0 e He). reflexivity.
Qed.

(* the recorded iteration numbers, explicitly, for thin >= 1: 0 (post burn-in), then 0, thin, 2 thin, ... < m *)
Lemma mult_spec i : 1 <= thin -> mult i = true <-> exists k, i = k * thin.
Proof.
  intros Ht. unfold mult. rewrite Nat.eqb_eq. split.
  - intros H. exists (i / thin). pose proof (Nat.div_mod i thin ltac:(lia)). lia.
  - intros [k ->]. apply Nat.mod_mul. lia.
Qed.
End TL.
