(* C13 proofs, part 2: (a) the executable Qc parameter model denotes the real-valued weight / shape / rate of the
   density algebra; (b) the premises on the Gamma function are satisfiable. *)
From PV Require Import Model.Concentration Proofs.DensityProofs Proofs.ConcentrationProofs.
From Coq Require Import Qreals Lra.
Local Open Scope Qc_scope.

(* ---------- (a) Qc -> R ---------- *)
Definition qr (x : Qc) : R := Q2R (this x).

Lemma qr_plus x y : qr (x + y) = (qr x + qr y)%R.
Proof. unfold qr, Qcplus, Q2Qc. cbn [this]. rewrite (Qeq_eqR _ _ (Qred_correct _)). apply Q2R_plus. Qed.
Lemma qr_mult x y : qr (x * y) = (qr x * qr y)%R.
Proof. unfold qr, Qcmult, Q2Qc. cbn [this]. rewrite (Qeq_eqR _ _ (Qred_correct _)). apply Q2R_mult. Qed.
Lemma qr_opp x : qr (- x) = (- qr x)%R.
Proof. unfold qr, Qcopp, Q2Qc. cbn [this]. rewrite (Qeq_eqR _ _ (Qred_correct _)). apply Q2R_opp. Qed.
Lemma qr_minus x y : qr (x - y) = (qr x - qr y)%R.
Proof. unfold Qcminus. rewrite qr_plus, qr_opp. reflexivity. Qed.
Lemma qr_0 : qr 0 = 0%R.
Proof. unfold qr. cbn. lra. Qed.
Lemma qr_1 : qr 1 = 1%R.
Proof. unfold qr. cbn. lra. Qed.
Lemma qr_neq0 (x : Qc) : x <> 0%Qc -> ~ (this x == 0)%Q.
Proof. intros Hx H. apply Hx. apply Qc_is_canon. exact H. Qed.
Lemma qr_inv (x : Qc) : x <> 0%Qc -> qr (/ x) = (/ qr x)%R.
Proof.
  intros Hx. unfold qr, Qcinv, Q2Qc. cbn [this]. rewrite (Qeq_eqR _ _ (Qred_correct _)).
  apply Q2R_inv. apply qr_neq0. exact Hx.
Qed.
Lemma qr_div (x y : Qc) : y <> 0%Qc -> qr (x / y) = (qr x / qr y)%R.
Proof. intros Hy. unfold Qcdiv. rewrite qr_mult, qr_inv by exact Hy. reflexivity. Qed.
Lemma qr_qn n : qr (qn n) = INR n.
Proof.
  unfold qr, qn, Q2Qc. cbn [this]. rewrite (Qeq_eqR _ _ (Qred_correct _)).
  unfold Q2R. cbn. rewrite INR_IZR_INZ. field.
Qed.
Lemma qr_lt (x y : Qc) : (x < y)%Qc -> (qr x < qr y)%R.
Proof. unfold Qclt, qr. apply Qlt_Rlt. Qed.

(* the parameters computed by the code (Qc model) are the real-valued ones of the density algebra, with r = b + L *)
Theorem params_denote (a b : Qc) K n (L : Qc) z :
  (0 < a)%Qc -> (0 < b)%Qc -> (0 < L)%Qc -> (1 <= K)%nat -> (1 <= n)%nat ->
  qr (pi_mix a b K n L) = pi_R (qr a) K n (qr b + qr L)
  /\ qr (shape1 a K z) = (qr a + INR K - 1 + (if z then 1 else 0))%R
  /\ qr (scale b L) = (/ (qr b + qr L))%R
  /\ qr (beta_a a) = (qr a + 1)%R /\ qr (beta_b n) = INR n.
Proof.
  intros Ha Hb HL HK Hn.
  assert (Hn' : 0 < qn n) by (apply qn_pos; lia).
  assert (Hr : 0 < rate b L) by (unfold rate; qlra).
  assert (Hs : 0 < shape0 a K).
  { unfold shape0. destruct K as [|k]; [lia|]. rewrite qn_S. pose proof (qn_nonneg k). qlra. }
  pose proof (Qc_mul_pos _ _ Hn' Hr) as Hnr.
  assert (Hx : 0 < xval a b K n L) by (unfold xval; apply Qc_div_pos; assumption).
  assert (H1x : 0 < 1 + xval a b K n L) by qlra.
  assert (Hshape : qr (shape0 a K) = (qr a + INR K - 1)%R).
  { unfold shape0. rewrite qr_minus, qr_plus, qr_qn, qr_1. reflexivity. }
  assert (Hrate : qr (rate b L) = (qr b + qr L)%R) by (unfold rate; apply qr_plus).
  repeat split.
  - unfold pi_mix, pi_R. cbv zeta.
    rewrite qr_div by (apply Qc_pos_neq0; exact H1x). rewrite qr_plus, qr_1.
    unfold xval. rewrite qr_div by (apply Qc_pos_neq0; exact Hnr).
    rewrite qr_mult, qr_qn, Hshape, Hrate. reflexivity.
  - unfold shape1. rewrite qr_plus, Hshape. destruct z; [rewrite qr_1| rewrite qr_0]; reflexivity.
  - unfold scale. rewrite qr_div by (apply Qc_pos_neq0; exact Hr). rewrite qr_1, Hrate. unfold Rdiv. ring.
  - unfold beta_a. rewrite qr_plus, qr_1. reflexivity.
  - unfold beta_b. apply qr_qn.
Qed.

(* ---------- (b) a function satisfying the two premises on Gam ---------- *)
Local Open Scope R_scope.
Fixpoint gprod (m : nat) (s : R) : R :=
  match m with O => 1 | S k => (s - INR (S k)) * gprod k s end.
Definition Gw (s : R) : R := if Rlt_dec s 1 then / s else gprod (Z.to_nat (up s - 2)) s.

Lemma gprod_shift m s : gprod m (s + 1) * (s - INR m) = s * gprod m s.
Proof.
  induction m as [|m IH]; [cbn [gprod INR]; ring|].
  cbn [gprod]. rewrite !S_INR in *.
  replace ((s + 1 - (INR m + 1)) * gprod m (s + 1) * (s - (INR m + 1)))
    with ((gprod m (s + 1) * (s - INR m)) * (s - (INR m + 1))) by ring.
  rewrite IH. ring.
Qed.
Lemma gprod_pos m s : INR m + 1 <= s -> 0 < gprod m s.
Proof.
  induction m as [|m IH]; intros H; cbn [gprod]; [lra|].
  rewrite S_INR in *. apply Rmult_lt_0_compat; [lra| apply IH; lra].
Qed.
Lemma up_ge1 s : 1 <= s -> (2 <= up s)%Z /\ INR (Z.to_nat (up s - 2)) = IZR (up s) - 2.
Proof.
  intros Hs. destruct (archimed s) as [H1 H2].
  assert (Hu : (2 <= up s)%Z).
  { assert (H : 1 < IZR (up s)) by lra. apply lt_IZR in H. lia. }
  split; [exact Hu|].
  rewrite INR_IZR_INZ, Z2Nat.id by lia. rewrite minus_IZR. reflexivity.
Qed.

Theorem Gamma_like_satisfiable : Gamma_like Gw.
Proof.
  split.
  - intros s Hs. unfold Gw. destruct (Rlt_dec (s + 1) 1) as [Hlt|_]; [lra|].
    destruct (Rlt_dec s 1) as [Hs1|Hs1].
    + (* 0 < s < 1: up (s + 1) = 2 *)
      assert (Hup : up (s + 1) = 2%Z) by (symmetry; apply tech_up; simpl; lra).
      rewrite Hup. cbn [Z.sub Z.to_nat gprod]. simpl. field. lra.
    + assert (Hs1' : 1 <= s) by lra.
      destruct (up_ge1 s Hs1') as [Hu Hm]. destruct (archimed s) as [H1 H2].
      assert (Hup : up (s + 1) = (up s + 1)%Z).
      { symmetry. apply tech_up; rewrite plus_IZR; simpl; lra. }
      rewrite Hup. replace (up s + 1 - 2)%Z with (Z.succ (up s - 2)) by lia.
      rewrite Z2Nat.inj_succ by lia. set (m := Z.to_nat (up s - 2)) in *.
      cbn [gprod]. rewrite S_INR. replace (s + 1 - (INR m + 1)) with (s - INR m) by ring.
      rewrite Rmult_comm. apply gprod_shift.
  - intros s Hs. unfold Gw. destruct (Rlt_dec s 1) as [Hs1|Hs1]; [apply Rinv_0_lt_compat; exact Hs|].
    assert (Hs1' : 1 <= s) by lra. destruct (up_ge1 s Hs1') as [Hu Hm]. destruct (archimed s) as [H1 H2].
    apply gprod_pos. rewrite Hm. lra.
Qed.
