(* C05 proofs, part 2: genotypes, expected VAF bounds, mixture normalisation, cluster product, outlier terms. *)
From PV Require Import Model.Emission Proofs.EmissionProofs.

(* ---- order helpers --------------------------------------------------------------------------- *)
Lemma Qc_mul_le_l a b c : 0 <= a -> b <= c -> a * b <= a * c.
Proof. intros Ha Hbc. rewrite (Qcmult_comm a b), (Qcmult_comm a c). apply Qcmult_le_compat_r; assumption. Qed.

Lemma Qc_le_div lo n d : 0 < d -> lo * d <= n -> lo <= n / d.
Proof.
  intros Hd H. replace lo with (lo * d * / d) by (field; apply Qc_pos_neq0; exact Hd).
  unfold Qcdiv. apply Qcmult_le_compat_r; [exact H| apply Qc_lt_le, Qc_inv_pos; exact Hd].
Qed.
Lemma Qc_div_le hi n d : 0 < d -> n <= hi * d -> n / d <= hi.
Proof.
  intros Hd H. replace hi with (hi * d * / d) by (field; apply Qc_pos_neq0; exact Hd).
  unfold Qcdiv. apply Qcmult_le_compat_r; [exact H| apply Qc_lt_le, Qc_inv_pos; exact Hd].
Qed.

Lemma qn_ge_1 n : (1 <= n)%nat -> 1 <= qn n.
Proof. destruct n as [|n]; [lia|]. intros _. rewrite qn_S. pose proof (qn_nonneg n). qlra. Qed.
Lemma qn_le n m : (n <= m)%nat -> qn n <= qn m.
Proof.
  intros H. replace m with (n + (m - n))%nat by lia. rewrite qn_add. pose proof (qn_nonneg (m - n)). qlra.
Qed.

(* weighted average of three values with non-negative weights *)
Lemma wavg_bounds e0 e1 e2 m0 m1 m2 lo hi :
  0 <= e0 -> 0 <= e1 -> 0 <= e2 -> 0 < e0 + e1 + e2 ->
  lo <= m0 <= hi -> lo <= m1 <= hi -> lo <= m2 <= hi ->
  lo <= (e0 * m0 + e1 * m1 + e2 * m2) / (e0 + e1 + e2) <= hi.
Proof.
  intros H0 H1 H2 HD [L0 U0] [L1 U1] [L2 U2].
  pose proof (Qc_mul_le_l e0 _ _ H0 L0). pose proof (Qc_mul_le_l e0 _ _ H0 U0).
  pose proof (Qc_mul_le_l e1 _ _ H1 L1). pose proof (Qc_mul_le_l e1 _ _ H1 U1).
  pose proof (Qc_mul_le_l e2 _ _ H2 L2). pose proof (Qc_mul_le_l e2 _ _ H2 U2).
  split; [apply Qc_le_div| apply Qc_div_le]; try exact HD.
  - replace (lo * (e0 + e1 + e2)) with (e0 * lo + e1 * lo + e2 * lo) by ring. qlra.
  - replace (hi * (e0 + e1 + e2)) with (e0 * hi + e1 * hi + e2 * hi) by ring. qlra.
Qed.

(* ---- qcmin ------------------------------------------------------------------------------------ *)
Lemma qcmin_le_l a b : qcmin a b <= a.
Proof.
  unfold qcmin. destruct (Qle_bool (this a) (this b)) eqn:E; [apply Qcle_refl|].
  unfold Qcle. destruct (Qlt_le_dec (this b) (this a)) as [H|H]; [apply Qlt_le_weak; exact H|].
  apply Qle_bool_iff in H. congruence.
Qed.
Lemma qcmin_le_r a b : qcmin a b <= b.
Proof.
  unfold qcmin. destruct (Qle_bool (this a) (this b)) eqn:E; [|apply Qcle_refl].
  apply Qle_bool_iff in E. exact E.
Qed.
Lemma qcmin_glb c a b : c <= a -> c <= b -> c <= qcmin a b.
Proof. intros Ha Hb. unfold qcmin. destruct (Qle_bool (this a) (this b)); assumption. Qed.
Lemma qcmin_pos a b : 0 < a -> 0 < b -> 0 < qcmin a b.
Proof. intros Ha Hb. unfold qcmin. destruct (Qle_bool (this a) (this b)); assumption. Qed.

(* ---- genotype enumeration --------------------------------------------------------------------- *)
(* shape of every enumerated genotype: x >= 1 mutated copies out of total; the reference population has
   the normal or the total copy number *)
Definition geno_shape (major minor normal : nat) (err : Qc) (g : geno) : Prop :=
  cn0 g = normal /\ (cn1 g = normal \/ cn1 g = (major + minor)%nat) /\ cn2 g = (major + minor)%nat /\
  mu0 g = err /\ mu1 g = err /\
  exists x, (1 <= x)%nat /\ mu2 g = qcmin (1 - err) (qn x / qn (major + minor)).

Lemma before_genos_shape major minor normal err g :
  In g (before_genos major (major + minor) normal err) -> geno_shape major minor normal err g.
Proof.
  unfold before_genos. intros H. apply in_map_iff in H. destruct H as [x [<- Hx]].
  apply in_seq in Hx. unfold geno_shape. cbn [cn0 cn1 cn2 mu0 mu1 mu2].
  repeat split; try reflexivity; [left; reflexivity|]. exists x. split; [lia| reflexivity].
Qed.

Lemma genotypes_shape major minor normal err g :
  In g (genotypes major minor normal err) -> geno_shape major minor normal err g.
Proof.
  unfold genotypes. intros H.
  destruct (existsb _ _).
  - apply before_genos_shape; exact H.
  - apply in_app_or in H. destruct H as [H|[<-|[]]]; [apply before_genos_shape; exact H|].
    unfold geno_shape. cbn [cn0 cn1 cn2 mu0 mu1 mu2].
    repeat split; try reflexivity; [right; reflexivity|]. exists 1%nat. split; [lia|reflexivity].
Qed.

Lemma genotypes_nonempty major minor normal err : (1 <= major)%nat -> genotypes major minor normal err <> [].
Proof.
  intros Hm. unfold genotypes, before_genos. destruct major as [|major]; [lia|].
  cbn [seq map]. destruct (existsb _ _); [discriminate|]. cbn [app]. discriminate.
Qed.

(* number of genotypes: major, plus one unless normal = total *)
Lemma genotypes_length major minor normal err : (1 <= major)%nat ->
  length (genotypes major minor normal err)
  = if Nat.eqb normal (major + minor) then major else S major.
Proof.
  intros Hm. unfold genotypes.
  assert (E : existsb (fun g => cn_eqb g normal (major + minor) (major + minor))
                      (before_genos major (major + minor) normal err) = Nat.eqb normal (major + minor)).
  { unfold before_genos. destruct major as [|major]; [lia|].
    assert (K : forall l, l <> [] -> existsb (fun g => cn_eqb g normal (S major + minor) (S major + minor))
              (map (fun x => mkG normal normal (S major + minor) err err
                                 (qcmin (1 - err) (qn x / qn (S major + minor)))) l)
              = Nat.eqb normal (S major + minor)).
    { induction l as [|y l IH]; [congruence|]. intros _. cbn [map existsb].
      unfold cn_eqb at 1. cbn [cn0 cn1 cn2]. rewrite !Nat.eqb_refl. cbn [andb]. rewrite Bool.andb_true_r.
      destruct l as [|z l]; [cbn [map existsb]; apply Bool.orb_false_r|].
      rewrite IH by discriminate. apply Bool.orb_diag. }
    apply K. cbn [seq]. discriminate. }
  rewrite E. destruct (Nat.eqb normal (major + minor)).
  - unfold before_genos. rewrite map_length, seq_length. reflexivity.
  - rewrite app_length. unfold before_genos. rewrite map_length, seq_length. cbn [length]. lia.
Qed.

(* ---- expected VAF ----------------------------------------------------------------------------- *)
Section Evaf.
Variables (major minor normal : nat) (err t f : Qc).
Hypothesis Hmajor : (1 <= major)%nat.
Hypothesis Hnormal : (1 <= normal)%nat.
Hypothesis Ht : 0 < t /\ t <= 1.
Hypothesis Herr : 0 < err /\ err < Q2Qc (1 # 2).
Hypothesis Hf : 0 <= f <= 1.

Lemma half_plus_half : Q2Qc (1 # 2) + Q2Qc (1 # 2) = 1.
Proof. apply Qc_is_canon. reflexivity. Qed.

Lemma weights_ok g : geno_shape major minor normal err g ->
  0 <= ecn0 g t f /\ 0 <= ecn1 g t f /\ 0 <= ecn2 g t f /\ 0 < norm_const g t f.
Proof.
  intros (E0 & E1 & E2 & _). destruct Ht as [Ht0 Ht1]. destruct Hf as [Hf0 Hf1].
  assert (W0 : 0 <= 1 - t) by qlra.
  assert (W1 : 0 <= 1 - f) by qlra.
  assert (C1 : 1 <= qn (cn1 g)) by (apply qn_ge_1; destruct E1 as [-> | ->]; lia).
  assert (C2 : 1 <= qn (cn2 g)) by (apply qn_ge_1; rewrite E2; lia).
  assert (A0 : 0 <= ecn0 g t f) by (unfold ecn0; apply Qc_mul_nonneg; [exact W0| apply qn_nonneg]).
  assert (A1 : (1 - f) * 1 <= (1 - f) * qn (cn1 g)) by (apply Qc_mul_le_l; assumption).
  assert (A2 : f * 1 <= f * qn (cn2 g)) by (apply Qc_mul_le_l; assumption).
  assert (B : 1 <= (1 - f) * qn (cn1 g) + f * qn (cn2 g)) by qlra.
  assert (B1 : 0 <= (1 - f) * qn (cn1 g)) by (apply Qc_mul_nonneg; [exact W1| qlra]).
  assert (B2 : 0 <= f * qn (cn2 g)) by (apply Qc_mul_nonneg; [exact Hf0| qlra]).
  assert (T : t * 1 <= t * ((1 - f) * qn (cn1 g) + f * qn (cn2 g))) by (apply Qc_mul_le_l; [qlra| exact B]).
  repeat split; try exact A0.
  - unfold ecn1. replace (t * (1 - f) * qn (cn1 g)) with (t * ((1 - f) * qn (cn1 g))) by ring.
    apply Qc_mul_nonneg; [qlra| exact B1].
  - unfold ecn2. replace (t * f * qn (cn2 g)) with (t * (f * qn (cn2 g))) by ring.
    apply Qc_mul_nonneg; [qlra| exact B2].
  - unfold norm_const, ecn1, ecn2.
    replace (ecn0 g t f + t * (1 - f) * qn (cn1 g) + t * f * qn (cn2 g))
      with (ecn0 g t f + t * ((1 - f) * qn (cn1 g) + f * qn (cn2 g))) by ring.
    qlra.
Qed.

Definition evaf_lo : Qc := qcmin err (/ qn (major + minor)).

Lemma evaf_lo_pos : 0 < evaf_lo.
Proof.
  apply qcmin_pos; [apply Herr|]. apply Qc_inv_pos, qn_pos. lia.
Qed.

(* the stated interval [err, 1 - err] holds when err <= 1/total; in general the lower end is
   min(err, 1/total) because a single mutated copy out of `total` can have a fraction below err *)
Lemma evaf_bounds g : geno_shape major minor normal err g ->
  evaf_lo <= evaf g t f <= 1 - err.
Proof.
  intros Hg. destruct (weights_ok g Hg) as (A0 & A1 & A2 & AD).
  destruct Hg as (_ & _ & _ & M0 & M1 & x & Hx & M2).
  destruct Herr as [He0 He1]. pose proof half_plus_half as HH.
  assert (L : evaf_lo <= err) by apply qcmin_le_l.
  assert (U : err <= 1 - err) by qlra.
  unfold evaf. apply wavg_bounds; try assumption.
  - rewrite M0. split; assumption.
  - rewrite M1. split; assumption.
  - rewrite M2. split; [|apply qcmin_le_l].
    apply qcmin_glb; [qlra|].
    apply Qcle_trans with (/ qn (major + minor)); [apply qcmin_le_r|].
    unfold Qcdiv. rewrite <- (Qcmult_1_l (/ qn (major + minor))) at 1.
    apply Qcmult_le_compat_r; [apply qn_ge_1; exact Hx|].
    apply Qc_lt_le, Qc_inv_pos, qn_pos. lia.
Qed.

Lemma evaf_open_unit g : geno_shape major minor normal err g -> 0 < evaf g t f /\ evaf g t f < 1.
Proof.
  intros Hg. destruct (evaf_bounds g Hg) as [L U]. pose proof evaf_lo_pos. destruct Herr. split; qlra.
Qed.

Lemma evaf_ge_err g : err * qn (major + minor) <= 1 ->
  geno_shape major minor normal err g -> err <= evaf g t f.
Proof.
  intros Hsmall Hg. destruct (evaf_bounds g Hg) as [L _].
  apply Qcle_trans with evaf_lo; [|exact L].
  apply qcmin_glb; [apply Qcle_refl|].
  assert (P : 0 < qn (major + minor)) by (apply qn_pos; lia).
  replace (/ qn (major + minor)) with (1 / qn (major + minor)) by (unfold Qcdiv; ring).
  apply Qc_le_div; assumption.
Qed.
End Evaf.

(* ---- grid points lie in [0, 1] --------------------------------------------------------------- *)
Lemma grid_f_unit G i : (i < G)%nat -> 0 <= grid_f G i <= 1.
Proof.
  intros Hi. unfold grid_f. destruct (Nat.eq_dec G 1) as [->|HG].
  - assert (i = 0%nat) by lia. subst i. cbn [Nat.sub]. rewrite qn_0. unfold Qcdiv. rewrite Qcmult_0_l.
    split; [apply Qcle_refl| apply Qc_lt_le; reflexivity].
  - assert (P : 0 < qn (G - 1)) by (apply qn_pos; lia). split.
    + apply Qc_le_div; [exact P|]. rewrite Qcmult_0_l. apply qn_nonneg.
    + apply Qc_div_le; [exact P|]. rewrite Qcmult_1_l. apply qn_le. lia.
Qed.
Lemma grid_f_first G : grid_f G 0 = 0.
Proof. unfold grid_f, Qcdiv. rewrite qn_0. ring. Qed.
Lemma grid_f_last G : (2 <= G)%nat -> grid_f G (G - 1) = 1.
Proof. intros H. unfold grid_f. field. apply Qc_pos_neq0, qn_pos. lia. Qed.

(* ---- mixture normalisation ------------------------------------------------------------------- *)
Definition density_ok (d : density) : Prop := match d with Binomial => True | BetaBinomial s => 0 < s end.

Lemma geno_pmf_sum_one d n e : density_ok d -> sumn (fun x => geno_pmf d n x e) (S n) = 1.
Proof.
  destruct d as [|s]; cbn [geno_pmf density_ok]; intros Hs.
  - apply binom_sum_one.
  - apply betabinom_sum_one. replace (e * s + (s - e * s)) with s by ring.
    apply Qc_pos_neq0, rising_pos. exact Hs.
Qed.

Lemma mixture_sum_one d gs t f n : density_ok d -> gs <> [] ->
  sumn (fun x => mixture d gs t f n x) (S n) = 1.
Proof.
  intros Hd Hgs. unfold mixture.
  rewrite (sumn_sumq (fun g x => / qn (length gs) * geno_pmf d n x (evaf g t f)) gs (S n)).
  rewrite (sumq_map_ext _ (fun _ => / qn (length gs))).
  2:{ intros g _. rewrite sumn_scale, geno_pmf_sum_one by exact Hd. ring. }
  rewrite sumq_map_const. field. apply Qc_pos_neq0, qn_pos.
  destruct gs; [congruence| cbn [length]; lia].
Qed.

Lemma sample_pmf_sum_one d gs t f n : density_ok d -> gs <> [] ->
  sumn (fun x => sample_pmf d (mkS (n - x) x gs t) f) (S n) = 1.
Proof.
  intros Hd Hgs. rewrite <- (mixture_sum_one d gs t f n Hd Hgs).
  apply sumn_ext. intros x Hx. unfold sample_pmf. cbn [s_ref s_alt s_gs s_t].
  replace (n - x + x)%nat with n by lia. reflexivity.
Qed.

Lemma geno_pmf_nonneg d n x e : density_ok d -> 0 < e -> e < 1 -> 0 <= geno_pmf d n x e.
Proof.
  destruct d as [|s]; cbn [geno_pmf density_ok]; intros Hs H0 H1.
  - apply binom_pmf_nonneg; apply Qc_lt_le; assumption.
  - apply betabinom_pmf_nonneg; [apply Qc_mul_pos; assumption|].
    replace (s - e * s) with ((1 - e) * s) by ring. apply Qc_mul_pos; [qlra| exact Hs].
Qed.

Lemma mixture_nonneg d gs t f n x : density_ok d ->
  (forall g, In g gs -> 0 < evaf g t f /\ evaf g t f < 1) -> 0 <= mixture d gs t f n x.
Proof.
  intros Hd H. unfold mixture. apply sumq_nonneg. intros y Hy.
  apply in_map_iff in Hy. destruct Hy as [g [<- Hg]]. destruct (H g Hg) as [H0 H1].
  apply Qc_mul_nonneg; [|apply geno_pmf_nonneg; assumption].
  destruct gs as [|g0 gs']; [destruct Hg|]. apply Qc_lt_le, Qc_inv_pos, qn_pos. cbn [length]. lia.
Qed.

(* ---- the code's division is defined under the guard normal >= 1 --------------------------------- *)
Lemma qc_is0_false x : x <> 0 -> qc_is0 x = false.
Proof.
  intros H. unfold qc_is0. destruct (Qeq_bool (this x) 0) eqn:E; [|reflexivity].
  exfalso. apply H. apply Qc_is_canon. apply Qeq_bool_iff in E. exact E.
Qed.
Lemma qc_is0_true x : qc_is0 x = true -> x = 0.
Proof. unfold qc_is0. intros E. apply Qc_is_canon. apply Qeq_bool_iff in E. exact E. Qed.

Lemma grid_defined_ok G major minor normal err ref alt (t : Qc) :
  (1 <= major)%nat -> (1 <= normal)%nat -> 0 < t /\ t <= 1 ->
  grid_defined G (mkS ref alt (genotypes major minor normal err) t) = true.
Proof.
  intros Hm Hn Ht. unfold grid_defined. cbn [s_gs s_t].
  apply forallb_forall. intros i Hi. apply in_seq in Hi.
  apply forallb_forall. intros g Hg. apply genotypes_shape in Hg.
  pose proof (grid_f_unit G i ltac:(lia)) as Hf.
  destruct (weights_ok major minor normal err t (grid_f G i) Hm Hn Ht Hf g Hg) as (_ & _ & _ & HD).
  rewrite qc_is0_false; [reflexivity| apply Qc_pos_neq0; exact HD].
Qed.

(* ---- clusters: entry-wise product ------------------------------------------------------------- *)
Lemma zipw_nil_r {A} (f : A -> A -> A) a : zipw f a [] = [].
Proof. destruct a; reflexivity. Qed.
Lemma nth_zipw_mul a : forall b i, nth i (zipw Qcmult a b) 0 = nth i a 0 * nth i b 0.
Proof.
  induction a as [|x a IH]; intros b i.
  - cbn [zipw]. destruct i; cbn [nth]; ring.
  - destruct b as [|y b]; [cbn [zipw]; destruct i; cbn [nth]; ring|].
    cbn [zipw]. destruct i as [|i]; cbn [nth]; [reflexivity| apply IH].
Qed.
Lemma nth_gmul a : forall b s, nth s (gmul a b) [] = zipw Qcmult (nth s a []) (nth s b []).
Proof.
  unfold gmul. induction a as [|x a IH]; intros b s.
  - cbn [zipw]. destruct s; reflexivity.
  - destruct b as [|y b]; [cbn [zipw]; destruct s; cbn [nth]; rewrite zipw_nil_r; reflexivity|].
    cbn [zipw]. destruct s as [|s]; cbn [nth]; [reflexivity| apply IH].
Qed.
Lemma entry_gmul a b s i : entry (gmul a b) s i = entry a s i * entry b s i.
Proof. unfold entry. rewrite nth_gmul, nth_zipw_mul. reflexivity. Qed.

Lemma cluster_is_product members s i : members <> [] ->
  entry (cluster_grid members) s i = prodq (map (fun m => entry m s i) members).
Proof.
  destruct members as [|m r]; [congruence|]. intros _. cbn [cluster_grid map prodq].
  revert m. induction r as [|m' r IH]; intros m; cbn [fold_left map prodq]; [ring|].
  rewrite IH, entry_gmul. ring.
Qed.

(* ---- outlier terms ---------------------------------------------------------------------------- *)
Lemma outlier_terms_nonzero p size : p <> 0 -> outlier_terms p size = (qpow p size, qpow (1 - p) size).
Proof. intros H. unfold outlier_terms. rewrite qc_is0_false by exact H. reflexivity. Qed.
Lemma outlier_terms_zero size : outlier_terms 0 size = (1, 1).
Proof. reflexivity. Qed.
Lemma qpow_qpow p k : qpow (qpow p 1) k = qpow p k.
Proof. cbn [qpow]. replace (p * 1) with p by ring. reflexivity. Qed.
(* cluster of `size` mutations = `size`-fold product of the per-mutation terms (log p * size) *)
Lemma outlier_terms_power p size :
  outlier_terms p size = (qpow (fst (outlier_terms p 1)) size, qpow (snd (outlier_terms p 1)) size).
Proof.
  unfold outlier_terms. destruct (qc_is0 p); cbn [fst snd].
  - rewrite qpow_1. reflexivity.
  - rewrite !qpow_qpow. reflexivity.
Qed.
Lemma cluster_p_spec global col :
  cluster_p global col =
  if qc_is0 global then 0 else match col with None => global | Some c => if qc_is0 c then global else c end.
Proof. reflexivity. Qed.
