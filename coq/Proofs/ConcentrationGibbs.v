(* C13, the integration half.  A two-block Gibbs sweep on a product space leaves the first marginal of the joint invariant
   - for ANY pair of "integration" functionals that are linear in constants, only look at the function on the domain, and
   commute (Fubini).  Nothing else about measures is used, so the measure theory the property needs is isolated in exactly
   those three visible premises (which Lebesgue integration of non-negative functions on (0,oo) and (0,1) satisfies: Tonelli).
   Then the instance for the concentration update: joint = C13's augmented joint, the first draw is Beta(alpha + 1, n) and
   the second is the normalised two-component Gamma mixture with rate b - ln eta (C13_joint_conditionals gives both
   factorisations), the invariant density is the posterior of the statement. *)
From PV Require Import Model.Concentration Proofs.ConcentrationProofs.
From Coq Require Import Reals Lra.
Local Open Scope R_scope.

Section TwoBlock.
Variables (Pa Pe : R -> Prop).                       (* the two domains *)
Variables (Ia Ie : (R -> R) -> R).                   (* integration over the first / the second variable *)
Hypothesis Ia_ext : forall f g, (forall x, Pa x -> f x = g x) -> Ia f = Ia g.
Hypothesis Ie_ext : forall f g, (forall y, Pe y -> f y = g y) -> Ie f = Ie g.
Hypothesis Ia_scal : forall c f, Ia (fun x => c * f x) = c * Ia f.
Hypothesis Ie_scal : forall c f, Ie (fun y => c * f y) = c * Ie f.
Hypothesis fubini : forall f : R -> R -> R, Ia (fun x => Ie (fun y => f x y)) = Ie (fun y => Ia (fun x => f x y)).

Variable J : R -> R -> R.                            (* the (unnormalised) joint density *)
Definition margA (x : R) : R := Ie (fun y => J x y).
Definition margE (y : R) : R := Ia (fun x => J x y).
Hypothesis margA_nz : forall x, Pa x -> margA x <> 0.
Hypothesis margE_nz : forall y, Pe y -> margE y <> 0.

(* density of one sweep: y from its full conditional given x, then x' from its full conditional given y *)
Definition sweep (x x' : R) : R := Ie (fun y => (J x y / margA x) * (J x' y / margE y)).

Theorem two_block_gibbs_invariant x' : Ia (fun x => margA x * sweep x x') = margA x'.
Proof.
  unfold sweep.
  rewrite (Ia_ext _ (fun x => Ie (fun y => J x y * (J x' y / margE y)))).
  - rewrite fubini.
    rewrite (Ie_ext _ (fun y => J x' y)); [reflexivity|].
    intros y Hy. rewrite (Ia_ext _ (fun x => (J x' y / margE y) * J x y)) by (intros; ring).
    rewrite Ia_scal. fold (margE y). field. apply margE_nz. exact Hy.
  - intros x Hx. rewrite <- Ie_scal. apply Ie_ext. intros y _. generalize (J x' y / margE y). intros Z.
    replace (margA x * (J x y / margA x * Z)) with ((margA x * / margA x) * (J x y * Z)) by (unfold Rdiv; ring).
    rewrite Rinv_r by (apply margA_nz; exact Hx). ring.
Qed.
End TwoBlock.

(* ---- the concentration update ---- *)
Section Conc.
Variable Gam : R -> R.
Hypothesis HGam : Gamma_like Gam.
Variables (a b : R) (K n : nat).
Hypothesis Ha : 0 < a.
Hypothesis Hb : 0 < b.
Hypothesis HK : (1 <= K)%nat.
Hypothesis HKn : (K <= n)%nat.

Definition Pa (x : R) : Prop := 0 < x.
Definition Pe (y : R) : Prop := 0 < y < 1.
Variables (Ia Ie : (R -> R) -> R).
Hypothesis Ia_ext : forall f g, (forall x, Pa x -> f x = g x) -> Ia f = Ia g.
Hypothesis Ie_ext : forall f g, (forall y, Pe y -> f y = g y) -> Ie f = Ie g.
Hypothesis Ia_scal : forall c f, Ia (fun x => c * f x) = c * Ia f.
Hypothesis Ie_scal : forall c f, Ie (fun y => c * f y) = c * Ie f.
Hypothesis fubini : forall f : R -> R -> R, Ia (fun x => Ie (fun y => f x y)) = Ie (fun y => Ia (fun x => f x y)).
(* the two families of densities the code samples from are integrable with non-zero mass, the Beta density with mass one *)
Hypothesis beta_mass : forall alpha, 0 < alpha -> Ie (beta_dens Gam (alpha + 1) (INR n)) = 1.
Hypothesis mix_mass_nz : forall eta, 0 < eta < 1 -> Ia (mixture Gam a K n (b - ln eta)) <> 0.

Let J := joint Gam a b K n.

Lemma posterior_pos alpha : 0 < alpha -> posterior_unnorm Gam a b K n alpha <> 0.
Proof.
  intros Hal. destruct HGam as [Hrec Hpos]. unfold posterior_unnorm, gamma_dens, crp_lik.
  assert (0 < INR n) by (apply lt_0_INR; lia).
  repeat apply Rmult_integral_contrapositive_currified; try apply Rinv_neq_0_compat;
    try (apply Rgt_not_eq; first [apply Rpower_pos| apply exp_pos| apply Hpos; lra]).
Qed.

Lemma margA_is_posterior alpha : 0 < alpha -> margA Ie J alpha = posterior_unnorm Gam a b K n alpha.
Proof.
  intros Hal. unfold margA, J.
  rewrite (Ie_ext _ (fun eta => posterior_unnorm Gam a b K n alpha * beta_dens Gam (alpha + 1) (INR n) eta)).
  - rewrite Ie_scal, (beta_mass alpha Hal). ring.
  - intros eta Heta. apply (C13_gibbs_lemma Gam HGam a b K n alpha eta); assumption.
Qed.

Lemma alpha_const_nz eta : 0 < eta < 1 -> alpha_const Gam a b K n eta <> 0.
Proof.
  intros Heta. destruct HGam as [Hrec Hpos]. unfold alpha_const.
  assert (Hr : 0 < b - ln eta).
  { destruct Heta as [H0 H1]. assert (ln eta < 0) by (rewrite <- ln_1; apply ln_increasing; assumption). lra. }
  pose proof (mix_const_pos Gam Hpos a K n (b - ln eta) Ha HK Hr) as Hm.
  unfold Rdiv. repeat apply Rmult_integral_contrapositive_currified; try apply Rinv_neq_0_compat;
    try (apply Rgt_not_eq; first [apply Rpower_pos| apply Hpos; lra| exact Hm]).
Qed.

Lemma margE_is_mixture eta : 0 < eta < 1 ->
  margE Ia J eta = alpha_const Gam a b K n eta * Ia (mixture Gam a K n (b - ln eta)).
Proof.
  intros Heta. unfold margE, J. destruct HGam as [Hrec Hpos].
  rewrite (Ia_ext _ (fun alpha => alpha_const Gam a b K n eta * mixture Gam a K n (b - ln eta) alpha)).
  - apply Ia_scal.
  - intros alpha Hal. apply (joint_alpha_conditional Gam Hrec Hpos); assumption.
Qed.

(* the density of the code's update: eta ~ Beta(alpha + 1, n), then alpha' ~ the normalised mixture with rate b - ln eta *)
Definition update_dens (alpha alpha' : R) : R :=
  Ie (fun eta => beta_dens Gam (alpha + 1) (INR n) eta
                 * (mixture Gam a K n (b - ln eta) alpha' / Ia (mixture Gam a K n (b - ln eta)))).

Lemma update_is_sweep alpha alpha' : 0 < alpha -> 0 < alpha' -> update_dens alpha alpha' = sweep Ia Ie J alpha alpha'.
Proof.
  intros Hal Hal'. unfold update_dens, sweep. apply Ie_ext. intros eta Heta.
  rewrite (margA_is_posterior alpha Hal), (margE_is_mixture eta Heta). unfold J. destruct HGam as [Hrec Hpos].
  rewrite (proj1 (C13_gibbs_lemma Gam (conj Hrec Hpos) a b K n alpha eta Ha Hb HK HKn Hal Heta)).
  rewrite (joint_alpha_conditional Gam Hrec Hpos a b K n alpha' eta Ha Hb HK HKn Heta Hal').
  field. repeat split; [apply (mix_mass_nz eta Heta)| apply (alpha_const_nz eta Heta)| apply (posterior_pos alpha Hal)].
Qed.

Theorem concentration_update_invariant alpha' : 0 < alpha' ->
  Ia (fun alpha => posterior_unnorm Gam a b K n alpha * update_dens alpha alpha') = posterior_unnorm Gam a b K n alpha'.
Proof.
  intros Hal'. rewrite <- (margA_is_posterior alpha' Hal').
  rewrite <- (two_block_gibbs_invariant Pa Pe Ia Ie Ia_ext Ie_ext Ia_scal Ie_scal fubini J) with (x' := alpha').
  - apply Ia_ext. intros alpha Hal. rewrite (margA_is_posterior alpha Hal), (update_is_sweep alpha alpha' Hal Hal'). reflexivity.
  - intros x Hx. rewrite (margA_is_posterior x Hx). apply posterior_pos. exact Hx.
  - intros y Hy. rewrite (margE_is_mixture y Hy). apply Rmult_integral_contrapositive_currified; [apply alpha_const_nz; exact Hy| apply mix_mass_nz; exact Hy].
Qed.
End Conc.
