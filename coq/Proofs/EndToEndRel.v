(* A well-formed rose forest is determined, up to [feq], by its ancestor-or-equal relation on the data points: two
   well-formed forests over the same points with the same relation have the same clades and the same outliers
   (hence are [feq] by C03_clades_determine_tree), hence the same end-to-end density.  So gam_fscrp, defined through one
   particular forest of the table, is the density of EVERY well-formed forest the table denotes. *)
From PV Require Import Model.EndToEnd Proofs.PermProofs Proofs.DensityProofs Proofs.DensityEquiv Proofs.DensityClades.
From PV Require Import Proofs.EndToEndAlign Proofs.EndToEndFeq Proofs.EndToEndPos.
From Coq Require Import Bool Permutation.

Lemma nd_disj {A} (l1 l2 : list A) y : NoDup (l1 ++ l2) -> In y l1 -> In y l2 -> False.
Proof. apply GrammarPerm.NoDup_app_disjoint. Qed.

Lemma flat_own_nonempty t : nonempty t -> forall nd, In nd (flat t) -> own nd <> [].
Proof.
  induction t as [o ks IH] using tree_ind'. intros Hne nd Hnd. apply nonempty_node in Hne. destruct Hne as [Ho Hks].
  cbn [flat] in Hnd. destruct Hnd as [<-|Hnd]; [exact Ho|].
  apply in_flat_map in Hnd. destruct Hnd as [k [Hk Hnd]]. rewrite Forall_forall in IH, Hks. apply (IH k Hk (Hks k Hk) nd Hnd).
Qed.

Lemma map_flat_map {A B C} (f : B -> C) (g : A -> list B) l : map f (flat_map g l) = flat_map (fun a => map f (g a)) l.
Proof. induction l as [|a l IH]; cbn [flat_map map]; [reflexivity| rewrite map_app, IH; reflexivity]. Qed.
Lemma flat_map_ext_in {A B} (f g : A -> list B) l : (forall a, In a l -> f a = g a) -> flat_map f l = flat_map g l.
Proof. induction l as [|a l IH]; intros H; cbn [flat_map]; [reflexivity| rewrite (H a (or_introl eq_refl)), IH; [reflexivity| intros b Hb; apply H; right; exact Hb]]. Qed.

Lemma clades_t_flat t : clades_t t = map points (flat t).
Proof.
  induction t as [o ks IH] using tree_ind'. cbn [clades_t flat map]. f_equal. rewrite map_flat_map.
  apply flat_map_ext_in. intros k Hk. rewrite Forall_forall in IH. apply IH, Hk.
Qed.
Lemma clades_nodes F : clades F = map points (nodes F).
Proof.
  unfold clades, nodes. rewrite map_flat_map. apply flat_map_ext_in. intros t _. apply clades_t_flat.
Qed.

Lemma points_own t x : In x (points t) -> exists nd, In nd (flat t) /\ In x (own nd).
Proof.
  induction t as [o ks IH] using tree_ind'. cbn [points flat]. intros H. apply in_app_or in H. destruct H as [H|H].
  - apply in_flat_map in H. destruct H as [k [Hk Hx]]. rewrite Forall_forall in IH. destruct (IH k Hk Hx) as [nd [Hnd Ho]].
    exists nd. split; [right; apply in_flat_map; exists k; auto| exact Ho].
  - exists (Node o ks). split; [left; reflexivity| exact H].
Qed.

(* within a tree: the points related below a point of clone nd are exactly the points of nd's subtree *)
Lemma trel_own_char t : NoDup (points t) -> forall nd a, In nd (flat t) -> In a (own nd) -> forall b, trel t a b = true <-> In b (points nd).
Proof.
  induction t as [o ks IH] using tree_ind'. intros Hnd nd a Hin Ha b. cbn [flat] in Hin. cbn [points] in Hnd.
  destruct Hin as [<-|Hin].
  - cbn [own] in Ha. cbn [trel points]. assert (Hi : inb a o = true) by (apply inb_In; exact Ha). rewrite Hi. cbn [andb]. split.
    + intros H. apply orb_true_iff in H. destruct H as [H|H].
      * apply orb_true_iff in H. destruct H as [H|H]; apply inb_In in H; apply in_or_app; [right| left]; exact H.
      * apply existsb_exists in H. destruct H as [k [Hk Ht]]. destruct (trel_points k a b Ht) as [_ Hb].
        apply in_or_app. left. apply in_flat_map. exists k. auto.
    + intros H. apply in_app_or in H. apply orb_true_iff. left. apply orb_true_iff.
      destruct H as [H|H]; [right| left]; apply inb_In; exact H.
  - apply in_flat_map in Hin. destruct Hin as [k [Hk Hin]].
    assert (Hak : In a (points k)) by (apply (in_flat_own k nd a Hin Ha)).
    assert (Hndk : NoDup (flat_map points ks)) by (apply nd_app_l in Hnd; exact Hnd).
    assert (Hao : inb a o = false).
    { apply inb_false. intros H. apply (nd_disj _ _ a Hnd); [apply in_flat_map; exists k; auto| exact H]. }
    cbn [trel]. rewrite Hao. cbn [andb orb]. rewrite (existsb_trel_unique ks k a b Hndk Hk Hak).
    rewrite Forall_forall in IH. apply (IH k Hk); try assumption.
    apply in_split in Hk. destruct Hk as [l1 [l2 ->]]. rewrite flat_map_app in Hndk. cbn [flat_map] in Hndk.
    apply nd_app_r in Hndk. apply nd_app_l in Hndk. exact Hndk.
Qed.

Lemma trel_refl_own t a : trel t a a = true -> exists nd, In nd (flat t) /\ In a (own nd).
Proof. intros H. destruct (trel_points t a a H) as [Ha _]. apply points_own. exact Ha. Qed.

Section Forest.
Variable F : forest.
Hypothesis Hnd : NoDup (flat_map points (roots F)).

Lemma node_root nd : In nd (nodes F) -> exists t, In t (roots F) /\ In nd (flat t).
Proof. unfold nodes. intros H. apply in_flat_map in H. exact H. Qed.
Lemma root_nodup t : In t (roots F) -> NoDup (points t).
Proof.
  intros Ht. apply in_split in Ht. destruct Ht as [l1 [l2 E]]. pose proof Hnd as H. rewrite E, flat_map_app in H.
  cbn [flat_map] in H. apply nd_app_r in H. apply nd_app_l in H. exact H.
Qed.

Lemma frel_own_char nd a : In nd (nodes F) -> In a (own nd) -> forall b, frel F a b = true <-> In b (points nd).
Proof.
  intros Hn Ha b. destruct (node_root nd Hn) as [t [Ht Hin]].
  unfold frel. rewrite (existsb_trel_unique (roots F) t a b Hnd Ht (in_flat_own t nd a Hin Ha)).
  apply (trel_own_char t (root_nodup t Ht) nd a Hin Ha).
Qed.
Lemma frel_refl_own a : frel F a a = true -> exists nd, In nd (nodes F) /\ In a (own nd).
Proof.
  unfold frel. intros H. apply existsb_exists in H. destruct H as [t [Ht Hr]]. destruct (trel_refl_own t a Hr) as [nd [Hin Ha]].
  exists nd. split; [unfold nodes; apply in_flat_map; exists t; auto| exact Ha].
Qed.
Lemma clone_point_refl x : In x (flat_map points (roots F)) <-> frel F x x = true.
Proof.
  split.
  - intros H. apply in_flat_map in H. destruct H as [t [Ht Hx]]. destruct (points_own t x Hx) as [nd [Hin Ho]].
    apply (frel_own_char nd x); [unfold nodes; apply in_flat_map; exists t; auto| exact Ho| apply own_points; exact Ho].
  - unfold frel. intros H. apply existsb_exists in H. destruct H as [t [Ht Hr]]. destruct (trel_points t x x Hr) as [Hx _].
    apply in_flat_map. exists t. auto.
Qed.
End Forest.

Section Same.
Variables F F' : forest.
Hypothesis Hwf : Density.wf F.
Hypothesis Hwf' : Density.wf F'.
Hypothesis Hrel : forall a b, frel F a b = frel F' a b.
Hypothesis Hpts : Permutation (fpoints F) (fpoints F').

Let Hnd : NoDup (flat_map points (roots F)).
Proof. destruct Hwf as [H _]. unfold fpoints in H. apply nd_app_l in H. exact H. Qed.
Let Hnd' : NoDup (flat_map points (roots F')).
Proof. destruct Hwf' as [H _]. unfold fpoints in H. apply nd_app_l in H. exact H. Qed.

Lemma node_own_nonempty (G : forest) : Density.wf G -> forall nd, In nd (nodes G) -> own nd <> [].
Proof.
  intros [_ Hne] nd Hn. unfold nodes in Hn. apply in_flat_map in Hn. destruct Hn as [t [Ht Hin]].
  rewrite Forall_forall in Hne. apply (flat_own_nonempty t (Hne t Ht) nd Hin).
Qed.

Lemma family_incl (G G' : forest) : Density.wf G -> NoDup (flat_map points (roots G)) -> NoDup (flat_map points (roots G')) ->
  (forall a b, frel G a b = frel G' a b) ->
  forall c, In c (clades G) -> exists c', In c' (clades G') /\ same_set c c'.
Proof.
  intros HwG HnG HnG' Hr c Hc. rewrite clades_nodes in Hc. apply in_map_iff in Hc. destruct Hc as [nd [<- Hn]].
  pose proof (node_own_nonempty G HwG nd Hn) as Hne. destruct (own nd) as [|a o] eqn:Eo; [congruence|].
  assert (Ha : In a (own nd)) by (rewrite Eo; left; reflexivity).
  assert (Haa : frel G a a = true) by (apply (frel_own_char G HnG nd a Hn Ha); apply own_points; exact Ha).
  rewrite Hr in Haa. destruct (frel_refl_own G' a Haa) as [nd' [Hn' Ha']].
  exists (points nd'). split; [rewrite clades_nodes; apply in_map; exact Hn'|].
  intros b. rewrite <- (frel_own_char G HnG nd a Hn Ha b), <- (frel_own_char G' HnG' nd' a Hn' Ha' b), Hr. tauto.
Qed.

Lemma same_relation_tree_eq : tree_eq F F'.
Proof.
  split.
  - split.
    + intros c Hc. apply (family_incl F F' Hwf Hnd Hnd' Hrel c Hc).
    + intros c' Hc'. destruct (family_incl F' F Hwf' Hnd' Hnd (fun a b => eq_sym (Hrel a b)) c' Hc') as [c [Hc Hs]].
      exists c. split; [exact Hc| intros x; specialize (Hs x); tauto].
  - assert (Hone : forall (G G' : forest), NoDup (fpoints G) -> NoDup (flat_map points (roots G)) -> NoDup (flat_map points (roots G')) ->
               (forall a b, frel G a b = frel G' a b) -> Permutation (fpoints G) (fpoints G') ->
               forall x, In x (outl G) -> In x (outl G')).
    { intros G G' HndG HnG HnG' Hr Hp x Hx.
      assert (Hx' : In x (fpoints G')) by (eapply Permutation_in; [exact Hp| unfold fpoints; apply in_or_app; right; exact Hx]).
      unfold fpoints in Hx'. apply in_app_or in Hx'. destruct Hx' as [Hx'|Hx']; [|exact Hx']. exfalso.
      apply (clone_point_refl G' HnG') in Hx'. rewrite <- Hr in Hx'. apply (clone_point_refl G HnG) in Hx'.
      unfold fpoints in HndG. apply (nd_disj _ _ x HndG Hx' Hx). }
    intros x. split.
    + apply (Hone F F'); try assumption. destruct Hwf; assumption.
    + apply (Hone F' F); try assumption; [destruct Hwf'; assumption| intros a b; symmetry; apply Hrel| apply Permutation_sym; exact Hpts].
Qed.

Theorem same_relation_feq : feq F F'.
Proof. apply (clades_determine_tree F F' Hwf Hwf'). exact same_relation_tree_eq. Qed.
End Same.

(* the density of a state is the density of every well-formed forest the state denotes *)
Theorem gam_fscrp_well_defined (n : nat) (on : bool) (alpha c : Qc) (G nsamp : nat) (D : nat -> dpoint) (t : list (list bool)) (F : forest) :
  In t (forests n on) -> Density.wf F -> Permutation (seq 0 n) (fpoints F) -> tab n (frel F) = t ->
  dens_one alpha c G nsamp D F = gam_fscrp alpha c G nsamp D n on t.
Proof.
  intros Ht Hwf Hp Htab. destruct (forest_of_table_spec n on t Ht) as [Htab0 [Hwf0 [Hp0 _]]].
  unfold gam_fscrp. set (F0 := forest_of_table n on t) in *. clearbody F0.
  assert (HF : feq F F0); [|destruct (dens_feq alpha c G nsamp D F F0 HF) as [H1 _]; exact H1].
  apply same_relation_feq; try assumption.
  - intros a b. destruct (Nat.lt_ge_cases a n) as [Ha|Ha]; [destruct (Nat.lt_ge_cases b n) as [Hb|Hb]|].
    + apply (tab_inj n); [congruence| exact Ha| exact Hb].
    + assert (Hout : forall H : forest, Permutation (seq 0 n) (fpoints H) -> frel H a b = false).
      { intros H HpH. destruct (frel H a b) eqn:E; [|reflexivity]. exfalso. unfold frel in E. apply existsb_exists in E.
        destruct E as [tr [Htr Hr]]. destruct (trel_points tr a b Hr) as [_ Hbp].
        assert (In b (seq 0 n)).
        { eapply Permutation_in; [apply Permutation_sym, HpH|]. unfold fpoints. apply in_or_app. left. apply in_flat_map. exists tr. auto. }
        apply in_seq in H0. lia. }
      rewrite (Hout F Hp), (Hout _ Hp0). reflexivity.
    + assert (Hout : forall H : forest, Permutation (seq 0 n) (fpoints H) -> frel H a b = false).
      { intros H HpH. destruct (frel H a b) eqn:E; [|reflexivity]. exfalso. unfold frel in E. apply existsb_exists in E.
        destruct E as [tr [Htr Hr]]. destruct (trel_points tr a b Hr) as [Hap _].
        assert (In a (seq 0 n)).
        { eapply Permutation_in; [apply Permutation_sym, HpH|]. unfold fpoints. apply in_or_app. left. apply in_flat_map. exists tr. auto. }
        apply in_seq in H0. lia. }
      rewrite (Hout F Hp), (Hout _ Hp0). reflexivity.
  - eapply Permutation_trans; [apply Permutation_sym; exact Hp| exact Hp0].
Qed.
