(* Proofs for the chain-pool model (C18). *)
From PV Require Import Model.Chains.
Open Scope nat_scope.

Section Assemble.
Variable Tr : Type.
Implicit Types (l : list (nat * Tr)) (m : results Tr).

Lemma fold_store_notin l : forall m k, ~ In k (map fst l) -> fold_left store l m k = m k.
Proof.
  induction l as [|[j t] l IH]; intros m k H; cbn [fold_left]; [reflexivity|].
  rewrite IH by (intros Hin; apply H; right; exact Hin).
  unfold store. cbn [fst snd]. destruct (k =? j) eqn:E; [|reflexivity].
  apply Nat.eqb_eq in E. subst. exfalso. apply H. left. reflexivity.
Qed.

Lemma fold_store_in l : forall m k t, NoDup (map fst l) -> In (k, t) l -> fold_left store l m k = Some t.
Proof.
  induction l as [|[j u] l IH]; intros m k t Hnd Hin; [contradiction|].
  cbn [map fst] in Hnd. inversion Hnd as [|? ? Hj Hnd']; subst. cbn [fold_left].
  destruct Hin as [E|Hin].
  - injection E as -> ->. rewrite fold_store_notin by exact Hj.
    unfold store. cbn [fst snd]. now rewrite Nat.eqb_refl.
  - apply IH; assumption.
Qed.

Lemma in_keys l k : In k (map fst l) -> exists t, In (k, t) l.
Proof.
  induction l as [|[j u] l IH]; cbn [map fst]; [contradiction|].
  intros [->|H]; [exists u; left; reflexivity|]. destruct (IH H) as [t Ht]. exists t. right. exact Ht.
Qed.

(* the dictionary does not depend on the order in which the results arrive *)
Theorem assemble_perm l1 l2 :
  Permutation l1 l2 -> NoDup (map fst l1) -> forall k, assemble l1 k = assemble l2 k.
Proof.
  intros Hp Hnd k. unfold assemble.
  assert (Hnd2 : NoDup (map fst l2)) by (eapply Permutation_NoDup; [apply Permutation_map; exact Hp| exact Hnd]).
  destruct (in_dec Nat.eq_dec k (map fst l1)) as [Hin|Hnin].
  - destruct (in_keys l1 k Hin) as [t Ht].
    rewrite (fold_store_in l1 empty k t Hnd Ht).
    rewrite (fold_store_in l2 empty k t Hnd2 (Permutation_in _ Hp Ht)). reflexivity.
  - rewrite fold_store_notin by exact Hnin.
    rewrite fold_store_notin; [reflexivity|].
    intros H. apply Hnin. eapply Permutation_in; [apply Permutation_map, Permutation_sym; exact Hp| exact H].
Qed.
End Assemble.

Section Run.
Variables I St Tr : Type.
Variable run_chain : I -> nat -> St -> Tr.

Lemma chain_keys inp (streams : list St) :
  map fst (chain_results I St Tr run_chain inp streams) = seq 0 (length streams).
Proof.
  unfold chain_results. rewrite map_map. cbn [fst].
  rewrite <- (map_map fst (fun x => x)). rewrite map_id.
  generalize 0. induction streams as [|s l IH]; intros a; cbn [length seq combine map fst]; [reflexivity|].
  now rewrite IH.
Qed.

Lemma chain_nodup inp (streams : list St) : NoDup (map fst (chain_results I St Tr run_chain inp streams)).
Proof. rewrite chain_keys. apply seq_NoDup. Qed.

Lemma chain_in inp (streams : list St) i s :
  nth_error streams i = Some s -> In (i, run_chain inp i s) (chain_results I St Tr run_chain inp streams).
Proof.
  unfold chain_results. intros H. apply in_map_iff. exists (i, s). split; [reflexivity|].
  assert (G : forall a, nth_error streams i = Some s -> In (a + i, s) (combine (seq a (length streams)) streams)).
  { clear H. revert i. induction streams as [|x l IH]; intros i a H; [destruct i; discriminate|].
    cbn [length seq combine]. destruct i as [|i]; cbn [nth_error] in H.
    - injection H as ->. left. f_equal. lia.
    - right. replace (a + S i) with (S a + i) by lia. apply IH. exact H. }
  exact (G 0 H).
Qed.

(* every completion order gives the same dictionary *)
Theorem assembly_order_free inp (streams : list St) o1 o2 :
  Permutation o1 (chain_results I St Tr run_chain inp streams) ->
  Permutation o2 (chain_results I St Tr run_chain inp streams) ->
  forall k, assemble o1 k = assemble o2 k.
Proof.
  intros H1 H2 k. apply assemble_perm.
  - eapply Permutation_trans; [exact H1| apply Permutation_sym; exact H2].
  - eapply Permutation_NoDup; [apply Permutation_map, Permutation_sym; exact H1| apply chain_nodup].
Qed.

Corollary view_order_free inp (streams : list St) o1 o2 n :
  Permutation o1 (chain_results I St Tr run_chain inp streams) ->
  Permutation o2 (chain_results I St Tr run_chain inp streams) ->
  view n (assemble o1) = view n (assemble o2).
Proof. intros H1 H2. unfold view. apply map_ext. intros k. eapply assembly_order_free; eassumption. Qed.

(* chain i's entry is run_chain on stream i: it depends on nothing else - neither on the other streams, nor on how
   many chains there are, nor on the arrival order *)
Theorem chain_isolated inp (streams streams' : list St) o o' i s :
  nth_error streams i = Some s -> nth_error streams' i = Some s ->
  Permutation o (chain_results I St Tr run_chain inp streams) ->
  Permutation o' (chain_results I St Tr run_chain inp streams') ->
  assemble o i = Some (run_chain inp i s) /\ assemble o' i = assemble o i.
Proof.
  intros Hs Hs' Ho Ho'.
  assert (A : forall str ord, nth_error str i = Some s ->
              Permutation ord (chain_results I St Tr run_chain inp str) -> assemble ord i = Some (run_chain inp i s)).
  { intros str ord Hn Hp. unfold assemble. apply fold_store_in.
    - eapply Permutation_NoDup; [apply Permutation_map, Permutation_sym; exact Hp| apply chain_nodup].
    - eapply Permutation_in; [apply Permutation_sym; exact Hp| apply chain_in; exact Hn]. }
  split; [apply (A streams o Hs Ho)|]. rewrite (A streams o Hs Ho), (A streams' o' Hs' Ho'). reflexivity.
Qed.

(* chain numbers outside 0..k-1 are absent *)
Lemma absent_chain inp (streams : list St) o k :
  Permutation o (chain_results I St Tr run_chain inp streams) -> length streams <= k -> assemble o k = None.
Proof.
  intros Hp Hk. unfold assemble. rewrite fold_store_notin; [reflexivity|].
  intros H. apply (Permutation_in _ (Permutation_map fst Hp)) in H. rewrite chain_keys in H. apply in_seq in H. lia.
Qed.
End Run.

(* without distinct keys the order would matter: two results carrying the same chain number *)
Lemma duplicate_keys_order_matters :
  assemble [(0, 1); (0, 2)] 0 = Some 2 /\ assemble [(0, 2); (0, 1)] 0 = Some 1.
Proof. split; reflexivity. Qed.
