(* Proofs about Model/Consensus.v (C16), part 2: find_smallest_superset never raises on a laminar family;
   the clades of the relabelled tree; assignment of uncovered points. *)
From PV Require Import Model.Consensus Proofs.ConsensusBase.
From Coq Require Import Sorted Permutation.
Local Open Scope nat_scope.

(* ---- find_smallest_superset ---- *)
Definition opt_list (b : option clade) : list clade := match b with Some x => [x] | None => [] end.

Lemma fss_loop_some (L : list clade) q :
  (forall c1 c2, In c1 L -> In c2 L -> subset q c1 = true -> subset q c2 = true ->
                 length c1 = length c2 -> c1 = c2) ->
  forall cands best,
    (forall x, In x cands -> In x L) -> (forall b, best = Some b -> In b L /\ subset q b = true /\ ~ In b cands) ->
    NoDup cands -> exists r, fss_loop cands q best = Some r.
Proof.
  intros HL. induction cands as [|c r IH]; intros best Hc Hb Hnd; cbn [fss_loop]; [eexists; reflexivity|].
  inversion Hnd as [|? ? Hcr Hnd']; subst.
  assert (Hr : forall x, In x r -> In x L) by (intros x Hx; apply Hc; right; exact Hx).
  destruct (subset q c) eqn:Es.
  - destruct best as [b|].
    + destruct (Hb b eq_refl) as (HbL & Hbs & Hbn).
      destruct (Nat.eqb (length c) (length b)) eqn:El.
      * apply Nat.eqb_eq in El. exfalso. apply Hbn. left.
        apply HL; [apply Hc; left; reflexivity| exact HbL| exact Es| exact Hbs| exact El].
      * destruct (Nat.ltb (length c) (length b)).
        -- apply IH; [exact Hr| | exact Hnd'].
           intros b' E. injection E as <-. split; [apply Hc; left; reflexivity| split; [exact Es| exact Hcr]].
        -- apply IH; [exact Hr| | exact Hnd'].
           intros b' E. injection E as <-. split; [exact HbL| split; [exact Hbs|]].
           intros Hin. apply Hbn. right; exact Hin.
    + apply IH; [exact Hr| | exact Hnd'].
      intros b' E. injection E as <-. split; [apply Hc; left; reflexivity| split; [exact Es| exact Hcr]].
  - apply IH; [exact Hr| | exact Hnd'].
    intros b E. destruct (Hb b E) as (H1 & H2 & H3). split; [exact H1| split; [exact H2|]].
    intros Hin. apply H3. right; exact Hin.
Qed.

(* what the loop returns *)
Lemma fss_loop_spec q : forall cands best r, fss_loop cands q best = Some r ->
  (forall b, best = Some b -> subset q b = true) ->
  match r with
  | Some p => (In p cands \/ best = Some p) /\ subset q p = true
  | None => best = None /\ forall c, In c cands -> subset q c = false
  end.
Proof.
  induction cands as [|c r' IH]; intros best r H Hb; cbn [fss_loop] in H.
  - injection H as <-. destruct best as [b|]; [split; [right; reflexivity| now apply Hb]| split; [reflexivity| intros c []]].
  - destruct (subset q c) eqn:Es.
    + assert (Hc : forall b, Some c = Some b -> subset q b = true) by (intros b E; injection E as <-; exact Es).
      destruct best as [b|].
      * destruct (Nat.eqb (length c) (length b)); [discriminate|].
        destruct (Nat.ltb (length c) (length b)).
        -- specialize (IH _ _ H Hc). destruct r as [p|].
           ++ destruct IH as [[Hin|E] Hs]; (split; [|exact Hs]).
              ** left; right; exact Hin.
              ** injection E as <-. left; left; reflexivity.
           ++ destruct IH as [E _]. discriminate.
        -- specialize (IH _ _ H Hb). destruct r as [p|].
           ++ destruct IH as [[Hin|E] Hs]; (split; [|exact Hs]); [left; right; exact Hin| right; exact E].
           ++ destruct IH as [E _]. discriminate.
      * specialize (IH _ _ H Hc). destruct r as [p|].
        -- destruct IH as [[Hin|E] Hs]; (split; [|exact Hs]).
           ++ left; right; exact Hin.
           ++ injection E as <-. left; left; reflexivity.
        -- destruct IH as [E _]. discriminate.
    + specialize (IH _ _ H Hb). destruct r as [p|].
      * destruct IH as [[Hin|E] Hs]; (split; [|exact Hs]); [left; right; exact Hin| right; exact E].
      * destruct IH as [E Hall]. split; [exact E|]. intros c' [<-|Hc']; [exact Es| now apply Hall].
Qed.

Lemma in_cands F q c : In c (filter (fun c => negb (clade_eqb c q)) F) <-> In c F /\ c <> q.
Proof. rewrite filter_In, negb_true_iff, clade_eqb_neq. reflexivity. Qed.

Lemma fss_spec F q r : find_smallest_superset F q = Some r ->
  match r with
  | Some p => In p F /\ p <> q /\ incl q p
  | None => forall c, In c F -> c <> q -> ~ incl q c
  end.
Proof.
  unfold find_smallest_superset. intros H. apply fss_loop_spec in H; [|intros b E; discriminate].
  destruct r as [p|].
  - destruct H as [[Hin|E] Hs]; [|discriminate]. apply in_cands in Hin as [H1 H2].
    split; [exact H1| split; [exact H2| now apply subset_incl]].
  - destruct H as [_ Hall]. intros c Hc Hne Hi.
    assert (subset q c = false) by (apply Hall, in_cands; split; assumption).
    apply subset_incl in Hi. congruence.
Qed.

(* two supersets of a non-empty clade in a laminar family of canonical clades are nested;
   of equal size they are equal *)
Lemma laminar_equal_size F q : wfF F -> laminar F -> q <> [] ->
  forall c1 c2, In c1 F -> In c2 F -> subset q c1 = true -> subset q c2 = true ->
                length c1 = length c2 -> c1 = c2.
Proof.
  intros Hw Hl Hq c1 c2 H1 H2 S1 S2 El. unfold wfF in Hw. rewrite Forall_forall in Hw.
  destruct (Hl c1 c2 H1 H2) as [H|[H|H]].
  - apply same_len_eq; [now apply Hw| now apply Hw| now apply subset_incl| exact El].
  - symmetry. apply same_len_eq; [now apply Hw| now apply Hw| now apply subset_incl| now symmetry].
  - exfalso. destruct q as [|x q]; [congruence|].
    apply subset_incl in S1, S2. rewrite disjointb_spec in H.
    apply (H x); [apply S1| apply S2]; left; reflexivity.
Qed.

Lemma fss_total F q : wfF F -> NoDup F -> laminar F -> q <> [] ->
  exists r, find_smallest_superset F q = Some r.
Proof.
  intros Hw Hnd Hl Hq. unfold find_smallest_superset.
  apply (fss_loop_some F q (laminar_equal_size F q Hw Hl Hq)).
  - intros x Hx. now apply in_cands in Hx.
  - intros b E; discriminate.
  - now apply NoDup_filter.
Qed.

(* ---- consensus ---- *)
Lemma consensus_loop_total F todo : wfF F -> NoDup F -> laminar F -> (forall c, In c todo -> In c F) ->
  exists E, consensus_loop F todo = Some E.
Proof.
  intros Hw Hnd Hl. induction todo as [|c r IH]; intros Hin; cbn [consensus_loop]; [eexists; reflexivity|].
  assert (Hq : c <> []).
  { unfold wfF in Hw. rewrite Forall_forall in Hw. apply (Hw c). apply Hin. left; reflexivity. }
  destruct (fss_total F c Hw Hnd Hl Hq) as [p ->].
  destruct IH as [E ->]; [intros x Hx; apply Hin; right; exact Hx|]. eexists; reflexivity.
Qed.

Theorem consensus_total F : wfF F -> NoDup F -> laminar F -> exists E, consensus F = Some E.
Proof. intros Hw Hnd Hl. apply consensus_loop_total; auto. Qed.

Lemma consensus_loop_spec F : forall todo E, consensus_loop F todo = Some E ->
  map snd E = todo
  /\ forall p c, In (Some p, c) E -> In p F /\ p <> c /\ incl c p.
Proof.
  induction todo as [|c r IH]; intros E H; cbn [consensus_loop] in H.
  - injection H as <-. split; [reflexivity| intros p c []].
  - destruct (find_smallest_superset F c) as [p|] eqn:Ef; [|discriminate].
    destruct (consensus_loop F r) as [E'|] eqn:Er; [|discriminate]. injection H as <-.
    destruct (IH E' eq_refl) as [H1 H2]. split; [cbn [map snd]; now rewrite H1|].
    intros p' c' [Heq|Hin]; [|now apply H2].
    injection Heq as -> ->. apply fss_spec in Ef. exact Ef.
Qed.

Lemma fuel_enough (G : list clade) c : In c G -> length c <= fuel_of G.
Proof.
  unfold fuel_of. induction G as [|a l IHl]; intros Hin; [destruct Hin|].
  simpl. destruct Hin as [->|Hin]; [lia| specialize (IHl Hin); simpl in IHl; lia].
Qed.

Section WithE.
Variable F : list clade.
Variable E : list (option clade * clade).
Hypothesis HE : consensus F = Some E.
Hypothesis Hw : wfF F.

Lemma E_snd : map snd E = F.
Proof. apply (consensus_loop_spec F F E HE). Qed.
Lemma E_edge p c : In (Some p, c) E -> In p F /\ In c F /\ p <> c /\ incl c p.
Proof.
  intros H. destruct (proj2 (consensus_loop_spec F F E HE) p c H) as (H1 & H2 & H3).
  split; [exact H1|]. split; [|split; assumption].
  rewrite <- E_snd. apply in_map_iff. exists (Some p, c). split; [reflexivity| exact H].
Qed.
Lemma wf_in c : In c F -> wfc c.
Proof. unfold wfF in Hw. rewrite Forall_forall in Hw. apply Hw. Qed.

Lemma in_children d c : In d (children E c) <-> In (Some c, d) E.
Proof.
  unfold children. rewrite in_map_iff. split.
  - intros [[p d'] [Hd Hin]]. cbn [snd] in Hd. subst d'. apply filter_In in Hin as [Hin Hp]. cbn [fst] in Hp.
    destruct p as [p|]; [|discriminate]. apply clade_eqb_eq in Hp. now subst.
  - intros H. exists (Some c, d). split; [reflexivity|]. apply filter_In. split; [exact H|].
    cbn [fst]. apply clade_eqb_refl.
Qed.
Lemma child_smaller d c : In d (children E c) -> In d F /\ incl d c /\ length d < length c.
Proof.
  intros H. apply in_children, E_edge in H as (Hc & Hd & Hne & Hi).
  split; [exact Hd|]. split; [exact Hi|].
  apply strict_subset_length; [now apply wf_in| now apply wf_in| exact Hi| congruence].
Qed.
Lemma own_spec x c : In x (own E c) <-> In x c /\ forall d, In d (children E c) -> ~ In x d.
Proof.
  unfold own. rewrite filter_In, negb_true_iff. split.
  - intros [Hx Hn]. split; [exact Hx|]. intros d Hd Hxd.
    assert (existsb (memb x) (children E c) = true) by (apply existsb_exists; exists d; split; [exact Hd| now apply memb_in]).
    congruence.
  - intros [Hx Hn]. split; [exact Hx|].
    destruct (existsb (memb x) (children E c)) eqn:Ee; [|reflexivity].
    apply existsb_exists in Ee as [d [Hd Hxd]]. apply memb_in in Hxd. exfalso. exact (Hn d Hd Hxd).
Qed.
Lemma own_or_child x c : In x c -> In x (own E c) \/ exists d, In d (children E c) /\ In x d.
Proof.
  intros Hx. destruct (existsb (memb x) (children E c)) eqn:Ee.
  - right. apply existsb_exists in Ee as [d [Hd Hxd]]. exists d. split; [exact Hd| now apply memb_in].
  - left. unfold own. apply filter_In. split; [exact Hx| now rewrite Ee].
Qed.

Lemma in_rnodes k : In k (rnodes E) <-> exists c, In c F /\ k = own E c.
Proof.
  unfold rnodes. rewrite in_dedup, in_map_iff. split.
  - intros [e [<- He]]. exists (snd e). split; [|reflexivity]. rewrite <- E_snd. now apply in_map.
  - intros [c [Hc ->]]. rewrite <- E_snd in Hc. apply in_map_iff in Hc as [e [<- He]]. exists e. split; [reflexivity| exact He].
Qed.

Lemma pair_eqb_eq a b : pair_eqb a b = true <-> a = b.
Proof.
  destruct a as [a1 a2], b as [b1 b2]. unfold pair_eqb. cbn [fst snd].
  rewrite andb_true_iff, !clade_eqb_eq. split; [intros [-> ->]; reflexivity| intros H; injection H; auto].
Qed.
Lemma in_dedup_pairs e l : In e (dedup_pairs l) <-> In e l.
Proof.
  induction l as [|a l IH]; cbn [dedup_pairs]; [tauto|].
  destruct (existsb (pair_eqb a) l) eqn:Ee; cbn [In]; rewrite IH.
  - apply existsb_exists in Ee as [b [Hb Eb]]. apply pair_eqb_eq in Eb. subst b.
    split; [tauto|]. intros [<-|H]; assumption.
  - tauto.
Qed.
Lemma in_redges k1 k2 : In (k1, k2) (redges E) <->
  exists p c, In (Some p, c) E /\ k1 = own E p /\ k2 = own E c.
Proof.
  unfold redges. rewrite in_dedup_pairs, in_flat_map. split.
  - intros [[p c] [He Hin]]. cbn [fst snd] in Hin. destruct p as [p|]; [|destruct Hin].
    destruct Hin as [Heq|[]]. injection Heq as <- <-. exists p, c. repeat split. exact He.
  - intros (p & c & He & -> & ->). exists (Some p, c). split; [exact He|]. cbn [fst snd]. left; reflexivity.
Qed.
Lemma in_succs R k k' : In k' (succs R k) <-> In (k, k') R.
Proof.
  unfold succs. rewrite in_map_iff. split.
  - intros [[a b] [Hb Hin]]. cbn [snd] in Hb. subst b. apply filter_In in Hin as [Hin Ha]. cbn [fst] in Ha.
    apply clade_eqb_eq in Ha. now subst.
  - intros H. exists (k, k'). split; [reflexivity|]. apply filter_In. split; [exact H| apply clade_eqb_refl].
Qed.
Lemma in_out_clade_S f R k x :
  In x (out_clade (S f) R k) <-> In x k \/ exists k', In (k, k') R /\ In x (out_clade f R k').
Proof.
  cbn [out_clade]. rewrite in_app_iff, in_flat_map. split.
  - intros [H|[k' [Hk Hx]]]; [left; exact H| right; exists k'; split; [now apply in_succs| exact Hx]].
  - intros [H|[k' [Hk Hx]]]; [left; exact H| right; exists k'; split; [now apply in_succs| exact Hx]].
Qed.

(* the guard: no two relabelled nodes coincide *)
Definition own_injective : Prop := forall a b, In a F -> In b F -> own E a = own E b -> a = b.

Lemma out_clade_is_clade : own_injective ->
  forall n c, In c F -> length c <= n -> forall f, n <= f ->
  seteq (out_clade f (redges E) (own E c)) c.
Proof.
  intros Hinj. induction n as [|n IH]; intros c Hc Hlen f Hf.
  - exfalso. destruct (wf_in c Hc) as [Hne _]. destruct c; [congruence| cbn in Hlen; lia].
  - destruct f as [|f]; [lia|]. intros x. rewrite in_out_clade_S. split.
    + intros [Hx|[k' [Hk Hx]]].
      * now apply own_spec in Hx.
      * apply in_redges in Hk as (p & d & He & Hp & ->).
        pose proof (E_edge p d He) as (HpF & HdF & _ & _).
        assert (p = c) by (apply Hinj; [exact HpF| exact Hc| now symmetry]). subst p.
        apply in_children in He. destruct (child_smaller d c He) as (_ & Hi & Hl).
        apply Hi. apply (proj1 (IH d HdF ltac:(lia) f ltac:(lia) x)). exact Hx.
    + intros Hx. destruct (own_or_child x c Hx) as [Ho|[d [Hd Hxd]]]; [left; exact Ho|].
      right. exists (own E d). split.
      * apply in_redges. exists c, d. split; [now apply in_children| split; reflexivity].
      * destruct (child_smaller d c Hd) as (HdF & _ & Hl). apply (proj2 (IH d HdF ltac:(lia) f ltac:(lia) x)). exact Hxd.
Qed.

(* under the guard the relabelled tree has exactly the retained clades *)
Theorem clades_exact : own_injective -> NoDup F ->
  rnodes E = map (own E) F
  /\ Forall2 seteq (out_clades F E) F.
Proof.
  intros Hinj Hnd.
  assert (Hr : rnodes E = map (own E) F).
  { unfold rnodes. rewrite <- (map_map snd (own E)), E_snd. apply dedup_nodup.
    clear - Hinj Hnd. revert Hinj. unfold own_injective. generalize (own E). intros g Hinj.
    induction Hnd as [|a l Hn Hnd IHn]; cbn [map]; [constructor|]. constructor.
    - intros Hin. apply in_map_iff in Hin as [b [Hb Hin]]. apply Hn.
      replace a with b; [exact Hin|]. apply Hinj; [right; exact Hin| left; reflexivity| exact Hb].
    - apply IHn. intros x y Hx Hy. apply Hinj; right; assumption. }
  split; [exact Hr|]. unfold out_clades. rewrite Hr.
  assert (H : forall l, (forall c, In c l -> In c F) ->
              Forall2 seteq (map (out_clade (fuel_of F) (redges E)) (map (own E) l)) l).
  { induction l as [|c l IHl]; intros Hl; cbn [map]; constructor.
    - apply (out_clade_is_clade Hinj (fuel_of F) c); [apply Hl; left; reflexivity| | lia].
      apply fuel_enough, Hl. left; reflexivity.
    - apply IHl. intros x Hx. apply Hl. right; exact Hx. }
  apply H. auto.
Qed.

(* every relabelled node has at most one parent under the guard: the output is a forest *)
Theorem relabelled_parent_unique : own_injective ->
  forall k1 k2 k, In (k1, k) (redges E) -> In (k2, k) (redges E) -> NoDup F -> k1 = k2.
Proof.
  intros Hinj k1 k2 k H1 H2 Hnd.
  apply in_redges in H1 as (p1 & c1 & He1 & -> & ->). apply in_redges in H2 as (p2 & c2 & He2 & -> & Hc).
  pose proof (E_edge _ _ He1) as (_ & Hc1 & _). pose proof (E_edge _ _ He2) as (_ & Hc2 & _).
  assert (c1 = c2) by (apply Hinj; assumption). subst c2.
  (* the parent of a clade is a function of the clade: E lists each clade once *)
  assert (Hfun : forall (l : list (option clade * clade)) a b c, NoDup (map snd l) -> In (a, c) l -> In (b, c) l -> a = b).
  { induction l as [|[a0 c0] l IHl]; intros a b c Hn Ha Hb; [destruct Ha|].
    cbn [map snd] in Hn. inversion Hn as [|? ? Hni Hn']; subst.
    destruct Ha as [Ha|Ha], Hb as [Hb|Hb].
    - congruence.
    - injection Ha as -> ->. exfalso. apply Hni. apply in_map_iff. exists (b, c). split; [reflexivity| exact Hb].
    - injection Hb as -> ->. exfalso. apply Hni. apply in_map_iff. exists (a, c). split; [reflexivity| exact Ha].
    - now apply (IHl a b c). }
  assert (Some p1 = Some p2) by (apply (Hfun E _ _ c1); [rewrite E_snd; exact Hnd| exact He1| exact He2]).
  congruence.
Qed.

(* ---- data points: covered points sit in the node that owns them, the others are outliers ---- *)
Lemma covered_has_owner x : forall n c, In c F -> length c <= n -> In x c -> exists c', In c' F /\ In x (own E c').
Proof.
  induction n as [|n IH]; intros c Hc Hl Hx.
  - destruct c; [destruct Hx| cbn in Hl; lia].
  - destruct (own_or_child x c Hx) as [Ho|[d [Hd Hxd]]]; [exists c; split; assumption|].
    destruct (child_smaller d c Hd) as (HdF & _ & Hlt). apply (IH d HdF); [lia| exact Hxd].
Qed.

Theorem uncovered_unassigned x : (forall c, In c F -> ~ In x c) -> assign (rnodes E) x = None.
Proof.
  intros H. unfold assign. destruct (find (memb x) (rnodes E)) as [k|] eqn:Ef; [|reflexivity].
  apply find_some in Ef as [Hk Hx]. apply in_rnodes in Hk as [c [Hc ->]]. apply memb_in, own_spec in Hx as [Hx _].
  exfalso. exact (H c Hc Hx).
Qed.
Theorem covered_assigned x c : In c F -> In x c ->
  exists k, assign (rnodes E) x = Some k /\ In k (rnodes E) /\ In x k.
Proof.
  intros Hc Hx. destruct (covered_has_owner x (length c) c Hc (le_n _) Hx) as (c' & Hc' & Hown).
  unfold assign. destruct (find (memb x) (rnodes E)) as [k|] eqn:Ef.
  - apply find_some in Ef as [Hk Hxk]. exists k. split; [reflexivity| split; [exact Hk| now apply memb_in]].
  - exfalso. pose proof (find_none _ _ Ef (own E c')) as Hn.
    assert (memb x (own E c') = false) by (apply Hn, in_rnodes; exists c'; split; [exact Hc'| reflexivity]).
    apply memb_in in Hown. congruence.
Qed.
(* the candidate repair (nodes keyed by the clade, own mutations as an attribute) needs no guard *)
Lemma out_clade_fixed_is_clade :
  forall n c, In c F -> length c <= n -> forall f, n <= f -> seteq (out_clade_fixed f E c) c.
Proof.
  induction n as [|n IH]; intros c Hc Hlen f Hf.
  - exfalso. destruct (wf_in c Hc) as [Hne _]. destruct c; [congruence| cbn in Hlen; lia].
  - destruct f as [|f]; [lia|]. intros x. cbn [out_clade_fixed]. rewrite in_app_iff, in_flat_map. split.
    + intros [Hx|[d [Hd Hx]]].
      * now apply own_spec in Hx.
      * destruct (child_smaller d c Hd) as (HdF & Hi & Hl).
        apply Hi. apply (proj1 (IH d HdF ltac:(lia) f ltac:(lia) x)). exact Hx.
    + intros Hx. destruct (own_or_child x c Hx) as [Ho|[d [Hd Hxd]]]; [left; exact Ho|].
      right. exists d. split; [exact Hd|].
      destruct (child_smaller d c Hd) as (HdF & _ & Hl). apply (proj2 (IH d HdF ltac:(lia) f ltac:(lia) x)). exact Hxd.
Qed.
Theorem fixed_clades_exact : Forall2 seteq (map (out_clade_fixed (fuel_of F) E) F) F.
Proof.
  assert (H : forall l, (forall c, In c l -> In c F) -> Forall2 seteq (map (out_clade_fixed (fuel_of F) E) l) l).
  { induction l as [|c l IHl]; intros Hl; cbn [map]; constructor.
    - apply (out_clade_fixed_is_clade (fuel_of F) c); [apply Hl; left; reflexivity| | lia].
      apply fuel_enough, Hl. left; reflexivity.
    - apply IHl. intros x Hx. apply Hl. right; exact Hx. }
  apply H. auto.
Qed.
End WithE.
