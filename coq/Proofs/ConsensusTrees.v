(* Proofs about Model/Consensus.v (C16), part 4: the clade list of a rose forest with pairwise distinct data
   points and non-empty clones is a laminar family of canonical clades - the premises `Forall laminar trees`
   and `Forall wfF trees` of the majority theorems hold for every recorded tree. *)
From PV Require Import Model.Consensus Proofs.ConsensusBase.
From Coq Require Import Sorted Permutation.
Local Open Scope nat_scope.

Section RInd.
Variable P : rtree -> Prop.
Hypothesis H : forall o ks, Forall P ks -> P (RN o ks).
Fixpoint rtree_ind' (t : rtree) : P t :=
  match t with
  | RN o ks => H o ks ((fix go (x : list rtree) : Forall P x :=
                          match x with [] => Forall_nil _ | k :: r => Forall_cons _ (rtree_ind' k) (go r) end) ks)
  end.
End RInd.

(* set-level laminarity on raw point lists *)
Definition lam2 (a b : list nat) : Prop := incl a b \/ incl b a \/ (forall x, In x a -> ~ In x b).

Lemma clade_in_points t : forall c, In c (rclades t) -> incl c (rpoints t).
Proof.
  induction t as [o ks IH] using rtree_ind'. intros c. cbn [rclades]. intros [<-|Hc]; [apply incl_refl|].
  apply in_flat_map in Hc as [k [Hk Hc]]. rewrite Forall_forall in IH.
  intros x Hx. cbn [rpoints]. apply in_or_app; right. apply in_flat_map. exists k. split; [exact Hk|].
  now apply (IH k Hk c Hc).
Qed.

Lemma nodup_app_inv {A} (a b : list A) : NoDup (a ++ b) ->
  NoDup a /\ NoDup b /\ forall x, In x a -> ~ In x b.
Proof.
  induction a as [|y a IH]; cbn [app]; intros H.
  - split; [constructor| split; [exact H| intros x []]].
  - inversion H as [|? ? Hy H']; subst. destruct (IH H') as (H1 & H2 & H3). split; [|split; [exact H2|]].
    + constructor; [|exact H1]. intros Hin. apply Hy. apply in_or_app; left; exact Hin.
    + intros x [<-|Hx]; [|now apply H3]. intros Hb. apply Hy. apply in_or_app; right; exact Hb.
Qed.

Lemma nodup_flat_map_inv {A B} (f : A -> list B) (l : list A) :
  NoDup (flat_map f l) ->
  (forall a, In a l -> NoDup (f a))
  /\ (forall l1 a l2 b l3, l = l1 ++ a :: l2 ++ b :: l3 -> forall x, In x (f a) -> ~ In x (f b)).
Proof.
  induction l as [|a l IH]; cbn [flat_map]; intros Hn.
  - split; [intros a []|]. intros l1 a l2 b l3 E. destruct l1; discriminate.
  - destruct (nodup_app_inv _ _ Hn) as (Ha & Hl & Hd).
    destruct (IH Hl) as [IH1 IH2]. split.
    + intros a' [<-|Hin]; [exact Ha| now apply IH1].
    + intros l1 a' l2 b l3 E x Hx Hb. destruct l1 as [|a0 l1]; cbn [app] in E; injection E as -> ->.
      * apply (Hd x Hx). apply in_flat_map. exists b. split; [|exact Hb].
        apply in_or_app; right; left; reflexivity.
      * now apply (IH2 l1 a' l2 b l3 eq_refl x).
Qed.

Lemma in_split2 {A} (l : list A) a b : In a l -> In b l -> a = b \/
  (exists l1 l2 l3, l = l1 ++ a :: l2 ++ b :: l3) \/ (exists l1 l2 l3, l = l1 ++ b :: l2 ++ a :: l3).
Proof.
  intros Ha Hb. apply in_split in Ha as [l1 [l2 ->]].
  apply in_app_or in Hb as [Hb|[Hb|Hb]].
  - apply in_split in Hb as [m1 [m2 ->]]. right; right. exists m1, m2, l2. now rewrite <- app_assoc.
  - left; exact Hb.
  - apply in_split in Hb as [m1 [m2 ->]]. right; left. exists l1, m1, m2. reflexivity.
Qed.

Lemma rclades_lam t : NoDup (rpoints t) -> forall a b, In a (rclades t) -> In b (rclades t) -> lam2 a b.
Proof.
  induction t as [o ks IH] using rtree_ind'. intros Hn a b. rewrite Forall_forall in IH.
  assert (Hks : NoDup (flat_map rpoints ks)) by (cbn [rpoints] in Hn; apply (nodup_app_inv _ _ Hn)).
  destruct (nodup_flat_map_inv rpoints ks Hks) as [Hk1 Hk2].
  assert (Hsub : forall c, In c (flat_map rclades ks) -> incl c (rpoints (RN o ks))).
  { intros c Hc. apply in_flat_map in Hc as [k [Hk Hc]]. intros x Hx. cbn [rpoints]. apply in_or_app; right.
    apply in_flat_map. exists k. split; [exact Hk| now apply (clade_in_points k c Hc)]. }
  cbn [rclades]. intros [<-|Ha] [<-|Hb].
  - left. apply incl_refl.
  - right; left. now apply Hsub.
  - left. now apply Hsub.
  - apply in_flat_map in Ha as [ka [Hka Ha]]. apply in_flat_map in Hb as [kb [Hkb Hb]].
    destruct (in_split2 ks ka kb Hka Hkb) as [E|[(l1 & l2 & l3 & E)|(l1 & l2 & l3 & E)]].
    + subst kb. apply (IH ka Hka (Hk1 ka Hka)); assumption.
    + right; right. intros x Hx Hx'. apply (Hk2 l1 ka l2 kb l3 E x).
      * now apply (clade_in_points ka a Ha). * now apply (clade_in_points kb b Hb).
    + right; right. intros x Hx Hx'. apply (Hk2 l1 kb l2 ka l3 E x).
      * now apply (clade_in_points kb b Hb). * now apply (clade_in_points ka a Ha).
Qed.

Lemma forest_clades_lam roots : NoDup (forest_points roots) ->
  forall a b, In a (forest_clades roots) -> In b (forest_clades roots) -> lam2 a b.
Proof.
  intros Hn a b Ha Hb. unfold forest_points, forest_clades in *.
  destruct (nodup_flat_map_inv rpoints roots Hn) as [Hk1 Hk2].
  apply in_flat_map in Ha as [ka [Hka Ha]]. apply in_flat_map in Hb as [kb [Hkb Hb]].
  destruct (in_split2 roots ka kb Hka Hkb) as [E|[(l1 & l2 & l3 & E)|(l1 & l2 & l3 & E)]].
  - subst kb. apply (rclades_lam ka (Hk1 ka Hka)); assumption.
  - right; right. intros x Hx Hx'. apply (Hk2 l1 ka l2 kb l3 E x).
    + now apply (clade_in_points ka a Ha). + now apply (clade_in_points kb b Hb).
  - right; right. intros x Hx Hx'. apply (Hk2 l1 kb l2 ka l3 E x).
    + now apply (clade_in_points kb b Hb). + now apply (clade_in_points ka a Ha).
Qed.

(* norm: the canonical (strictly increasing) list of a finite set *)
Lemma in_insert_nat z x l : In z (insert_nat x l) <-> z = x \/ In z l.
Proof.
  induction l as [|y r IH]; cbn [insert_nat In]; [intuition|].
  destruct (Nat.ltb x y) eqn:E1; cbn [In]; [intuition|].
  destruct (Nat.eqb x y) eqn:E2; cbn [In].
  - apply Nat.eqb_eq in E2. subst y. intuition.
  - rewrite IH. intuition.
Qed.
Lemma insert_nat_sorted x l : StronglySorted lt l -> StronglySorted lt (insert_nat x l).
Proof.
  induction l as [|y r IH]; cbn [insert_nat]; intros Hs; [repeat constructor|].
  apply StronglySorted_inv in Hs as [Hs Hf]. rewrite Forall_forall in Hf.
  destruct (Nat.ltb x y) eqn:E1.
  - apply Nat.ltb_lt in E1. constructor; [constructor; [exact Hs| now apply Forall_forall]|].
    constructor; [exact E1|]. apply Forall_forall. intros z Hz. specialize (Hf z Hz). lia.
  - apply Nat.ltb_ge in E1. destruct (Nat.eqb x y) eqn:E2.
    + constructor; [exact Hs| now apply Forall_forall].
    + apply Nat.eqb_neq in E2. constructor; [now apply IH|]. apply Forall_forall. intros z Hz.
      apply in_insert_nat in Hz as [->|Hz]; [lia| now apply Hf].
Qed.
Lemma in_norm z l : In z (norm l) <-> In z l.
Proof.
  unfold norm. induction l as [|x l IH]; cbn [fold_right In]; [tauto|].
  rewrite in_insert_nat, IH. intuition.
Qed.
Lemma norm_sorted l : StronglySorted lt (norm l).
Proof. unfold norm. induction l as [|x l IH]; cbn [fold_right]; [constructor| now apply insert_nat_sorted]. Qed.

Lemma rpoints_nonempty t : rnonempty t -> rpoints t <> [].
Proof. destruct t as [o ks]. cbn [rnonempty rpoints]. intros [Ho _]. destruct o; [congruence| discriminate]. Qed.
Lemma rclades_nonempty t : rnonempty t -> forall c, In c (rclades t) -> c <> [].
Proof.
  induction t as [o ks IH] using rtree_ind'. intros Hne c. cbn [rclades]. intros [<-|Hc]; [now apply rpoints_nonempty|].
  apply in_flat_map in Hc as [k [Hk Hc]]. rewrite Forall_forall in IH. apply (IH k Hk); [|exact Hc].
  cbn [rnonempty] in Hne. destruct Hne as [_ Hall]. clear - Hall Hk. induction ks as [|k0 ks IHk]; [destruct Hk|].
  destruct Hall as [H0 Hall]. destruct Hk as [<-|Hk]; [exact H0| now apply IHk].
Qed.

(* a forest with pairwise distinct data points and non-empty nodes gives a laminar family of canonical clades *)
Theorem ctree_of_tree roots : wf_forest roots -> laminar (ctree_of roots) /\ wfF (ctree_of roots).
Proof.
  intros [Hn Hne]. split.
  - intros a b Ha Hb. unfold ctree_of in Ha, Hb. apply in_map_iff in Ha as [a' [<- Ha]], Hb as [b' [<- Hb]].
    destruct (forest_clades_lam roots Hn a' b' Ha Hb) as [H|[H|H]].
    + left. apply subset_incl. intros x Hx. apply (proj2 (in_norm x b')), H, (proj1 (in_norm x a')), Hx.
    + right; left. apply subset_incl. intros x Hx. apply (proj2 (in_norm x a')), H, (proj1 (in_norm x b')), Hx.
    + right; right. apply disjointb_spec. intros x Hx Hx'. apply (proj1 (in_norm x a')) in Hx. apply (proj1 (in_norm x b')) in Hx'. exact (H x Hx Hx').
  - unfold wfF, ctree_of. rewrite Forall_forall. intros c Hc. apply in_map_iff in Hc as [c' [<- Hc]].
    split; [|apply norm_sorted]. unfold forest_clades in Hc. apply in_flat_map in Hc as [r [Hr Hc]].
    rewrite Forall_forall in Hne. pose proof (rclades_nonempty r (Hne r Hr) c' Hc) as Hne'.
    destruct c' as [|x c']; [congruence|]. intros E.
    assert (In x (norm (x :: c'))) by (apply in_norm; left; reflexivity). rewrite E in H. destruct H.
Qed.
