(* Basic facts about the labelled tree model: induction principle, unfolding equations of the nested
   fixpoints, vector algebra, the context-decomposition lemma for the path-to-root traversal. *)
From PV Require Import Model.LTree.
From Coq Require Import Permutation.
Open Scope nat_scope.

(* ---- permutations of concatenations, by counting --------------------------------- *)
Lemma dp_eq_dec (a b : dp) : {a = b} + {a <> b}.
Proof. decide equality; [apply (list_eq_dec Qc_eq_dec)| apply Nat.eq_dec]. Qed.
Ltac perm_count dec :=
  apply (Permutation_count_occ dec); let z := fresh "z" in intro z;
  repeat match goal with H : Permutation ?a ?b |- _ =>
    let H' := fresh in pose proof (proj1 (Permutation_count_occ dec a b) H z) as H'; clear H end;
  repeat (rewrite ?count_occ_app in *; cbn [count_occ app] in * );
  repeat match goal with
         | |- context [dec ?a ?b] => destruct (dec a b)
         | H : context [dec ?a ?b] |- _ => destruct (dec a b) end;
  try congruence; lia.
Ltac perm_dp := perm_count dp_eq_dec.
Ltac perm_nat := perm_count Nat.eq_dec.

(* ---- induction over rose trees ------------------------------------------------ *)
Lemma lnode_ind' (P : lnode -> Prop) :
  (forall l o p r ks, Forall P ks -> P (LNode l o p r ks)) -> forall n, P n.
Proof.
  intros H. fix IH 1. intros [l o p r ks]. apply H.
  induction ks as [|k ks IHks]; constructor; [apply IH| exact IHks].
Qed.

(* ---- vectors --------------------------------------------------------------------- *)
Lemma map2_length {A B C} (f : A -> B -> C) a b : length (map2 f a b) = Nat.min (length a) (length b).
Proof. revert b; induction a as [|x a IH]; intros [|y b]; cbn [map2 length Nat.min]; auto. Qed.
Lemma vmul_comm a b : vmul a b = vmul b a.
Proof.
  unfold vmul. revert b; induction a as [|x a IH]; intros [|y b]; cbn [map2]; auto.
  rewrite IH. f_equal. apply Qcmult_comm.
Qed.
Lemma vmul_assoc a b c : vmul (vmul a b) c = vmul a (vmul b c).
Proof.
  unfold vmul. revert b c; induction a as [|x a IH]; intros [|y b] [|z c]; cbn [map2]; auto.
  rewrite IH. f_equal. symmetry. apply Qcmult_assoc.
Qed.
Lemma vmul_swap a b c : vmul (vmul a b) c = vmul (vmul a c) b.
Proof. rewrite !vmul_assoc. f_equal. apply vmul_comm. Qed.
Lemma vmul_length a b : length (vmul a b) = Nat.min (length a) (length b).
Proof. apply map2_length. Qed.
Lemma vdiv_vmul a b : length a = length b -> Forall (fun q => q <> 0%Qc) b -> vdiv (vmul a b) b = a.
Proof.
  unfold vdiv, vmul. revert b; induction a as [|x a IH]; intros [|y b] Hl Hb; cbn [map2]; try discriminate; auto.
  inversion Hb; subst. cbn [length] in Hl. rewrite IH by (auto; lia). f_equal.
  unfold Qcdiv. rewrite <- Qcmult_assoc, Qcmult_inv_r by assumption. apply Qcmult_1_r.
Qed.

(* ---- data lists ------------------------------------------------------------------ *)
Lemma take_idx_perm i l d l' : take_idx i l = Some (d, l') -> Permutation l (d :: l').
Proof.
  revert d l'; induction l as [|e l IH]; cbn [take_idx]; intros d l' H; [discriminate|].
  destruct (dp_idx e =? i).
  - inversion H; subst. apply Permutation_refl.
  - destruct (take_idx i l) as [[d1 r1]|]; [|discriminate]. inversion H; subst.
    eapply perm_trans; [apply perm_skip, IH; reflexivity| apply perm_swap].
Qed.
Lemma take_idx_idx i l d l' : take_idx i l = Some (d, l') -> dp_idx d = i.
Proof.
  revert d l'; induction l as [|e l IH]; cbn [take_idx]; intros d l' H; [discriminate|].
  destruct (dp_idx e =? i) eqn:E.
  - inversion H; subst. apply Nat.eqb_eq. exact E.
  - destruct (take_idx i l) as [[d1 r1]|]; [|discriminate]. inversion H; subst. eapply IH. reflexivity.
Qed.
Lemma has_idx_spec i l : has_idx i l = true <-> In i (idxs l).
Proof.
  unfold has_idx, idxs. rewrite existsb_exists. split.
  - intros [d [Hd E]]. apply Nat.eqb_eq in E. subst. apply in_map. exact Hd.
  - intros H. apply in_map_iff in H. destruct H as [d [E Hd]]. exists d. split; [exact Hd| apply Nat.eqb_eq; exact E].
Qed.
Lemma has_idx_false i l : has_idx i l = false <-> ~ In i (idxs l).
Proof. rewrite <- has_idx_spec. destruct (has_idx i l); split; intros; try congruence; exfalso; auto. Qed.

Section Facts.
Variable Sf : list vec -> vec.
Variable prior : vec.
Variable vone : vec.
Notation Fr := (Fr Sf).
Notation pfresh := (pfresh prior).
Notation okn := (okn Sf prior).
Notation mod_n := (mod_n Sf).
Notation mod_f := (mod_f Sf).
Notation mod_t := (mod_t Sf prior).

Definition foldp (acc : vec) (o : list dp) : vec := fold_left (fun acc d => vmul acc (dp_val d)) o acc.
Lemma foldp_vmul acc v o : foldp (vmul acc v) o = vmul (foldp acc o) v.
Proof.
  unfold foldp. revert acc; induction o as [|d o IH]; intros acc; cbn [fold_left]; [reflexivity|].
  rewrite <- IH. f_equal. apply vmul_swap.
Qed.
Lemma pfresh_app o d : pfresh (o ++ [d]) = vmul (pfresh o) (dp_val d).
Proof. unfold LTree.pfresh. rewrite fold_left_app. reflexivity. Qed.
Lemma foldp_take acc i o d o' : take_idx i o = Some (d, o') -> foldp acc o = vmul (foldp acc o') (dp_val d).
Proof.
  revert acc d o'; induction o as [|e o IH]; cbn [take_idx]; intros acc d o' H; [discriminate|].
  destruct (dp_idx e =? i).
  - inversion H; subst. unfold foldp at 1. cbn [fold_left]. apply foldp_vmul.
  - destruct (take_idx i o) as [[d1 r1]|] eqn:E; [|discriminate]. inversion H; subst.
    unfold foldp at 1 2. cbn [fold_left]. apply IH. reflexivity.
Qed.
Lemma pfresh_take i o d o' : take_idx i o = Some (d, o') -> pfresh o = vmul (pfresh o') (dp_val d).
Proof. apply foldp_take. Qed.
Lemma foldp_length N acc o :
  length acc = N -> Forall (fun d => length (dp_val d) = N) o -> length (foldp acc o) = N.
Proof.
  unfold foldp. revert acc; induction o as [|d o IH]; intros acc Ha Ho; cbn [fold_left]; [exact Ha|].
  inversion Ho; subst. apply IH; [|assumption]. rewrite vmul_length. lia.
Qed.

(* ---- unfolding equations ----------------------------------------------------------- *)
Lemma mod_n_eq x f l o p r ks :
  mod_n x f (LNode l o p r ks) =
  if l =? x then Some (f (LNode l o p r ks))
  else match mod_f x f ks with
       | Some ks' => Some [LNode l o p (Fr p (map rr ks')) ks'] | None => None end.
Proof.
  cbn [LTree.mod_n]. destruct (l =? x); [reflexivity|].
  assert (E : forall ks, (fix go (ks0 : list lnode) : option (list lnode) :=
            match ks0 with [] => None | k :: rest =>
              match mod_n x f k with Some k' => Some (k' ++ rest)
              | None => match go rest with Some r' => Some (k :: r') | None => None end end end) ks = mod_f x f ks).
  { induction ks0 as [|k ks0 IH]; cbn [LTree.mod_f]; [reflexivity|]. rewrite IH. reflexivity. }
  rewrite E. reflexivity.
Qed.
Lemma find_n_eq x l o p r ks :
  find_n x (LNode l o p r ks) = if l =? x then Some (LNode l o p r ks) else find_f x ks.
Proof.
  cbn [find_n]. destruct (l =? x); [reflexivity|].
  induction ks as [|k ks IH]; cbn [find_f]; [reflexivity|]. rewrite IH. reflexivity.
Qed.
Lemma parent_n_eq x l o p r ks :
  parent_n x (LNode l o p r ks) = if existsb (fun k => lbl k =? x) ks then Some l else parent_f x ks.
Proof.
  cbn [parent_n]. destruct (existsb _ ks); [reflexivity|].
  induction ks as [|k ks IH]; cbn [parent_f]; [reflexivity|]. rewrite IH. reflexivity.
Qed.
Lemma set_labels_n_eq ls l o p r ks :
  set_labels_n ls (LNode l o p r ks) = LNode (hd l ls) o p r (set_labels_f (tl ls) ks).
Proof.
  reflexivity.
Qed.

(* ---- mod and find ----------------------------------------------------------------------- *)
Lemma mod_none_find x f : forall n, mod_n x f n = None -> find_n x n = None.
Proof.
  induction n as [l o p r ks IH] using lnode_ind'. rewrite mod_n_eq, find_n_eq.
  destruct (l =? x); [discriminate|]. intros H.
  destruct (mod_f x f ks) as [ks'|] eqn:Ef; [discriminate|]. clear H.
  induction ks as [|k ks IHks]; cbn [find_f]; [reflexivity|]. cbn [LTree.mod_f] in Ef.
  inversion IH; subst. destruct (mod_n x f k) eqn:Ek; [discriminate|].
  rewrite (H1 eq_refl). destruct (mod_f x f ks); [discriminate|]. apply IHks; auto.
Qed.

(* ---- pre-order measures: labels, points, anything read off (label, own) -------------- *)
Section Meas.
Context {X : Type}.
Variable h : nat -> list dp -> list X.
Fixpoint meas_n (n : lnode) : list X :=
  match n with LNode l o _ _ ks => h l o ++ flat_map meas_n ks end.
Definition meas_f (ns : list lnode) := flat_map meas_n ns.

Lemma meas_f_app a b : meas_f (a ++ b) = meas_f a ++ meas_f b.
Proof. unfold meas_f. apply flat_map_app. Qed.
Lemma meas_f_cons k ns : meas_f (k :: ns) = meas_n k ++ meas_f ns.
Proof. reflexivity. Qed.

(* the traversal replaces one node m (the first one named x in pre-order) by f m and touches nothing
   else that a measure can see *)
Definition decomp_n x f (n : lnode) (ns' : list lnode) : Prop :=
  exists A B m, meas_n n = A ++ meas_n m ++ B /\ meas_f ns' = A ++ meas_f (f m) ++ B
                /\ lbl m = x /\ find_n x n = Some m.
Definition decomp_f x f (ns ns' : list lnode) : Prop :=
  exists A B m, meas_f ns = A ++ meas_n m ++ B /\ meas_f ns' = A ++ meas_f (f m) ++ B
                /\ lbl m = x /\ find_f x ns = Some m.

Lemma mod_f_decomp_aux x f : forall ks,
  Forall (fun k => forall ns', mod_n x f k = Some ns' -> decomp_n x f k ns') ks ->
  forall ks', mod_f x f ks = Some ks' -> decomp_f x f ks ks'.
Proof.
  induction ks as [|k ks IHks]; intros HF ks' Ef; cbn [LTree.mod_f] in Ef; [discriminate|].
  inversion HF as [|? ? Hk Hks]; subst.
  destruct (mod_n x f k) as [k'|] eqn:Ek.
  - inversion Ef; subst. destruct (Hk _ eq_refl) as [A [B [m [H1 [H2 [H3 H4]]]]]].
    exists A, (B ++ meas_f ks), m. cbn [find_f]. rewrite H4. rewrite meas_f_app, meas_f_cons.
    rewrite H1, H2. rewrite <- !app_assoc. repeat split; auto.
  - destruct (mod_f x f ks) as [r'|] eqn:Er; [|discriminate]. inversion Ef; subst.
    destruct (IHks Hks _ eq_refl) as [A [B [m [H1 [H2 [H3 H4]]]]]].
    exists (meas_n k ++ A), B, m. cbn [find_f]. rewrite (mod_none_find _ _ _ Ek).
    rewrite !meas_f_cons, H1, H2, <- !app_assoc. repeat split; auto.
Qed.
Lemma mod_n_decomp x f : forall n ns', mod_n x f n = Some ns' -> decomp_n x f n ns'.
Proof.
  induction n as [l o p r ks IH] using lnode_ind'. intros ns'. unfold decomp_n. rewrite mod_n_eq, find_n_eq.
  destruct (l =? x) eqn:E.
  - intros H. inversion H; subst. exists [], [], (LNode l o p r ks).
    rewrite !app_nil_r. cbn [app]. repeat split; try reflexivity. apply Nat.eqb_eq. exact E.
  - destruct (mod_f x f ks) as [ks'|] eqn:Ef; [|discriminate]. intros H. inversion H; subst. clear H.
    destruct (mod_f_decomp_aux x f ks IH _ Ef) as [A [B [m [H1 [H2 [H3 H4]]]]]].
    exists (h l o ++ A), B, m. rewrite meas_f_cons. cbn [meas_n].
    change (flat_map meas_n ks) with (meas_f ks). change (flat_map meas_n ks') with (meas_f ks').
    change (meas_f []) with (@nil X). rewrite app_nil_r, H1, H2, <- !app_assoc. repeat split; auto.
Qed.
Lemma mod_f_decomp x f ns ns' : mod_f x f ns = Some ns' -> decomp_f x f ns ns'.
Proof.
  apply mod_f_decomp_aux. apply Forall_forall. intros k _ ns1. apply mod_n_decomp.
Qed.

(* a node found by name contributes a contiguous segment *)
Lemma find_n_segment x : forall n m, find_n x n = Some m -> exists A B, meas_n n = A ++ meas_n m ++ B.
Proof.
  induction n as [l o p r ks IH] using lnode_ind'. intros m. rewrite find_n_eq. destruct (l =? x).
  - intros E; inversion E; subst. exists [], []. rewrite app_nil_r. reflexivity.
  - intros E. cbn [meas_n].
    assert (G : exists C D, flat_map meas_n ks = C ++ meas_n m ++ D).
    { revert E. induction ks as [|k ks IHks]; cbn [find_f]; [discriminate|]. inversion IH; subst.
      destruct (find_n x k) eqn:Ek.
      - intros E; inversion E; subst. destruct (H1 _ eq_refl) as [C [D HC]].
        exists C, (D ++ flat_map meas_n ks). cbn [flat_map]. rewrite HC, <- !app_assoc. reflexivity.
      - intros E. destruct (IHks H2 E) as [C [D HC]]. exists (meas_n k ++ C), D.
        cbn [flat_map]. rewrite HC, <- !app_assoc. reflexivity. }
    destruct G as [C [D HC]]. exists (h l o ++ C), D. rewrite HC, <- !app_assoc. reflexivity.
Qed.
Lemma find_f_segment x : forall ns m, find_f x ns = Some m -> exists A B, meas_f ns = A ++ meas_n m ++ B.
Proof.
  induction ns as [|k ns IH]; cbn [find_f]; intros m; [discriminate|]. destruct (find_n x k) eqn:Ek.
  - intros E; inversion E; subst. destruct (find_n_segment x _ _ Ek) as [C [D HC]].
    exists C, (D ++ meas_f ns). rewrite meas_f_cons, HC, <- !app_assoc. reflexivity.
  - intros E. destruct (IH _ E) as [C [D HC]]. exists (meas_n k ++ C), D.
    rewrite meas_f_cons, HC, <- !app_assoc. reflexivity.
Qed.
End Meas.

Lemma labels_meas n : labels_n n = meas_n (fun l _ => [l]) n.
Proof.
  induction n as [l o p r ks IH] using lnode_ind'. cbn [labels_n meas_n app]. f_equal.
Qed.
Lemma points_meas n : points_n n = meas_n (fun _ o => o) n.
Proof.
  induction n as [l o p r ks IH] using lnode_ind'. cbn [points_n meas_n]. f_equal.
Qed.
Lemma labels_f_meas ns : labels_f ns = meas_f (fun l _ => [l]) ns.
Proof. unfold labels_f, meas_f. induction ns as [|k ns IH]; cbn [flat_map]; [reflexivity|]. rewrite labels_meas, IH. reflexivity. Qed.
Lemma points_f_meas ns : points_f ns = meas_f (fun _ o => o) ns.
Proof. unfold points_f, meas_f. induction ns as [|k ns IH]; cbn [flat_map]; [reflexivity|]. rewrite points_meas, IH. reflexivity. Qed.

(* the two instances, in terms of labels / points *)
Lemma mod_f_labels x f ns ns' : mod_f x f ns = Some ns' ->
  exists A B m, labels_f ns = A ++ labels_n m ++ B /\ labels_f ns' = A ++ labels_f (f m) ++ B
                /\ lbl m = x /\ find_f x ns = Some m.
Proof.
  intros H. destruct (mod_f_decomp (fun l _ => [l]) x f ns ns' H) as [A [B [m [H1 [H2 [H3 H4]]]]]].
  exists A, B, m. rewrite !labels_f_meas, labels_meas. auto.
Qed.
Lemma mod_f_points x f ns ns' : mod_f x f ns = Some ns' ->
  exists A B m, points_f ns = A ++ points_n m ++ B /\ points_f ns' = A ++ points_f (f m) ++ B
                /\ lbl m = x /\ find_f x ns = Some m.
Proof.
  intros H. destruct (mod_f_decomp (fun _ o => o) x f ns ns' H) as [A [B [m [H1 [H2 [H3 H4]]]]]].
  exists A, B, m. rewrite !points_f_meas, points_meas. auto.
Qed.
Lemma find_f_points x ns m : find_f x ns = Some m -> exists A B, points_f ns = A ++ points_n m ++ B.
Proof. intros H. destruct (find_f_segment (fun _ o => o) x ns m H) as [A [B E]]. exists A, B. rewrite points_f_meas, points_meas. exact E. Qed.
Lemma find_f_labels x ns m : find_f x ns = Some m -> exists A B, labels_f ns = A ++ labels_n m ++ B.
Proof. intros H. destruct (find_f_segment (fun l _ => [l]) x ns m H) as [A [B E]]. exists A, B. rewrite labels_f_meas, labels_meas. exact E. Qed.

End Facts.
