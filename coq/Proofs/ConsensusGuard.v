(* Proofs about Model/Consensus.v (C16), part 3: on a laminar family the own-mutation sets of distinct
   clades are disjoint, so two relabelled nodes coincide iff both own sets are empty. *)
From PV Require Import Model.Consensus Proofs.ConsensusBase Proofs.ConsensusProofs.
From Coq Require Import Sorted Permutation.
Local Open Scope nat_scope.

(* the loop returns a superset of minimal size *)
Lemma fss_loop_min q : forall cands best p, fss_loop cands q best = Some (Some p) ->
  (forall b, best = Some b -> length p <= length b)
  /\ forall c, In c cands -> subset q c = true -> length p <= length c.
Proof.
  induction cands as [|c r IH]; intros best p H; cbn [fss_loop] in H.
  - injection H as ->. split; [intros b E; injection E as <-; lia| intros c []].
  - destruct (subset q c) eqn:Es.
    + destruct best as [b|].
      * destruct (Nat.eqb (length c) (length b)) eqn:El; [discriminate|].
        destruct (Nat.ltb (length c) (length b)) eqn:Elt.
        -- apply Nat.ltb_lt in Elt. destruct (IH _ _ H) as [H1 H2]. specialize (H1 c eq_refl). split.
           ++ intros b' E. injection E as <-. lia.
           ++ intros c' [<-|Hc'] Hs; [exact H1| now apply H2].
        -- apply Nat.ltb_ge in Elt. destruct (IH _ _ H) as [H1 H2]. specialize (H1 b eq_refl). split.
           ++ intros b' E. injection E as <-. exact H1.
           ++ intros c' [<-|Hc'] Hs; [lia| now apply H2].
      * destruct (IH _ _ H) as [H1 H2]. specialize (H1 c eq_refl). split; [intros b E; discriminate|].
        intros c' [<-|Hc'] Hs; [exact H1| now apply H2].
    + destruct (IH _ _ H) as [H1 H2]. split; [exact H1|].
      intros c' [<-|Hc'] Hs; [congruence| now apply H2].
Qed.
Lemma fss_min F q p : find_smallest_superset F q = Some (Some p) ->
  forall c, In c F -> c <> q -> incl q c -> length p <= length c.
Proof.
  unfold find_smallest_superset. intros H c Hc Hne Hi.
  apply (proj2 (fss_loop_min _ _ _ _ H)); [apply in_cands; split; assumption| now apply subset_incl].
Qed.

Lemma consensus_loop_fss F : forall todo E, consensus_loop F todo = Some E ->
  forall p c, In (p, c) E -> find_smallest_superset F c = Some p.
Proof.
  induction todo as [|c r IH]; intros E H; cbn [consensus_loop] in H.
  - injection H as <-. intros p c [].
  - destruct (find_smallest_superset F c) as [p|] eqn:Ef; [|discriminate].
    destruct (consensus_loop F r) as [E'|] eqn:Er; [|discriminate]. injection H as <-.
    intros p' c' [Heq|Hin]; [injection Heq as <- <-; exact Ef| now apply (IH E' eq_refl)].
Qed.

Section Guard.
Variable F : list clade.
Variable E : list (option clade * clade).
Hypothesis HE : consensus F = Some E.
Hypothesis Hw : wfF F.
Hypothesis Hl : laminar F.

Lemma nested_or_disjoint a b : In a F -> In b F -> incl a b \/ incl b a \/ (forall x, In x a -> ~ In x b).
Proof.
  intros Ha Hb. destruct (Hl a b Ha Hb) as [H|[H|H]].
  - left. now apply subset_incl.
  - right; left. now apply subset_incl.
  - right; right. now apply disjointb_spec.
Qed.

(* a strict sub-clade lies inside a child *)
Lemma inside_a_child : forall n a b, In a F -> In b F -> a <> b -> incl a b -> length b - length a <= n ->
  exists d, In d (children E b) /\ incl a d.
Proof.
  induction n as [|n IH]; intros a b Ha Hb Hne Hi Hn.
  - exfalso. pose proof (strict_subset_length a b (wf_in F Hw a Ha) (wf_in F Hw b Hb) Hi Hne). lia.
  - assert (HaE : exists p, In (p, a) E).
    { pose proof (E_snd F E HE) as Hs. rewrite <- Hs in Ha. apply in_map_iff in Ha as [[p a'] [Heq Hin]].
      cbn [snd] in Heq. subst a'. exists p. exact Hin. }
    destruct HaE as [p HpE]. pose proof (consensus_loop_fss F F E HE p a HpE) as Hf.
    destruct p as [p|].
    + destruct (E_edge F E HE p a HpE) as (Hp & _ & Hpa & Hip).
      pose proof (fss_min F a p Hf b Hb (fun e => Hne (eq_sym e)) Hi) as Hmin.
      destruct (wf_in F Hw a Ha) as [Hane _]. destruct a as [|x0 a0]; [congruence|].
      destruct (nested_or_disjoint p b Hp Hb) as [H|[H|H]].
      * destruct (list_eq_dec Nat.eq_dec p b) as [->|Hpb].
        -- exists (x0 :: a0). split; [now apply in_children| apply incl_refl].
        -- assert (Hlt : length (x0 :: a0) < length p)
             by (apply strict_subset_length; [apply (wf_in F Hw); exact Ha| now apply (wf_in F Hw)| exact Hip| congruence]).
           destruct (IH p b Hp Hb Hpb H ltac:(lia)) as (d & Hd & Hpd).
           exists d. split; [exact Hd|]. intros z Hz. apply Hpd, Hip, Hz.
      * destruct (list_eq_dec Nat.eq_dec p b) as [->|Hpb].
        -- exists (x0 :: a0). split; [now apply in_children| apply incl_refl].
        -- exfalso.
           pose proof (strict_subset_length b p (wf_in F Hw b Hb) (wf_in F Hw p Hp) H (fun e => Hpb (eq_sym e))). lia.
      * exfalso. apply (H x0); [apply Hip| apply Hi]; left; reflexivity.
    + exfalso. apply fss_spec in Hf. apply (Hf b Hb (fun e => Hne (eq_sym e)) Hi).
Qed.

Theorem own_disjoint a b x : In a F -> In b F -> a <> b -> In x (own E a) -> ~ In x (own E b).
Proof.
  intros Ha Hb Hne Hxa Hxb.
  apply (own_spec E) in Hxa as [Hxa Hna]. apply (own_spec E) in Hxb as [Hxb Hnb].
  destruct (nested_or_disjoint a b Ha Hb) as [H|[H|H]].
  - destruct (inside_a_child _ a b Ha Hb Hne H (le_n _)) as (d & Hd & Had). apply (Hnb d Hd). now apply Had.
  - destruct (inside_a_child _ b a Hb Ha (fun e => Hne (eq_sym e)) H (le_n _)) as (d & Hd & Hbd).
    apply (Hna d Hd). now apply Hbd.
  - exact (H x Hxa Hxb).
Qed.

(* the guard in the property's words: at most one retained clade is fully covered by its sub-clades *)
Definition at_most_one_empty_own : Prop :=
  forall a b, In a F -> In b F -> own E a = [] -> own E b = [] -> a = b.

Theorem guard_iff : at_most_one_empty_own <-> own_injective F E.
Proof.
  split.
  - intros H a b Ha Hb Heq. destruct (own E a) as [|x o] eqn:Ea.
    + apply H; [assumption| assumption| exact Ea| now symmetry].
    + destruct (list_eq_dec Nat.eq_dec a b) as [e|Hne]; [exact e|].
      exfalso. apply (own_disjoint a b x Ha Hb Hne); [rewrite Ea; left; reflexivity| rewrite <- Heq; left; reflexivity].
  - intros H a b Ha Hb Ea Eb. apply H; [assumption| assumption| congruence].
Qed.
End Guard.
