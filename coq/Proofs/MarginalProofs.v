(* C02 proofs: the sum-product recursion computes the brute-force constrained sum. *)
From PV Require Import Model.Marginal Proofs.MarginalSums.
From Coq Require Import Permutation.

(* ---------- products ---------- *)
Lemma qprod_pos l : (forall x, In x l -> 0 < x) -> 0 < qprod l.
Proof.
  induction l as [|x l IH]; cbn [qprod]; intros H; [reflexivity|].
  apply Qc_mul_pos; [apply H; left; reflexivity| apply IH; intros y Hy; apply H; right; exact Hy].
Qed.

(* ---------- entry k of the k-fold truncated convolution, as a recursion over splits:
              SP [c1..cn] s = sum over (j1..jn) with j1+..+jn = s of prod c_i[j_i] ---------- *)
Fixpoint SP (cs : list vec) (s : nat) : Qc :=
  match cs with
  | [] => if (s =? 0)%nat then 1 else 0
  | c :: r => Sum (S s) (fun j => vget c j * SP r (s - j)%nat)
  end.

Lemma SP_single c s : SP [c] s = vget c s.
Proof.
  cbn [SP]. rewrite (Sum_ext _ _ (fun j => if (j =? s)%nat then vget c j else 0)).
  - apply (Sum_delta (S s) s (fun j => vget c j)). lia.
  - intros j Hj. destruct (Nat.eqb_spec j s) as [->|Hne].
    + rewrite Nat.sub_diag. cbn [Nat.eqb]. ring.
    + destruct (Nat.eqb_spec (s - j) 0); [lia| ring].
Qed.

Lemma SP_swap a b r s : SP (a :: b :: r) s = SP (b :: a :: r) s.
Proof.
  cbn [SP].
  set (H := fun j i => if (i + j <=? s)%nat then vget a j * vget b i * SP r (s - (i + j))%nat else 0).
  transitivity (Sum (S s) (fun j => Sum (S s) (fun i => H j i))).
  - apply Sum_ext. intros j Hj. rewrite (Sum_tri s j) by lia. rewrite <- Sum_scale.
    apply Sum_ext. intros i _. unfold H. destruct (Nat.leb_spec (i + j) s).
    + replace (s - j - i)%nat with (s - (i + j))%nat by lia. ring.
    + ring.
  - rewrite Sum_swap. apply Sum_ext. intros i Hi. rewrite (Sum_tri s i) by lia. rewrite <- Sum_scale.
    apply Sum_ext. intros j _. unfold H. rewrite (Nat.add_comm j i).
    destruct (Nat.leb_spec (i + j) s).
    + replace (s - i - j)%nat with (s - (i + j))%nat by lia. ring.
    + ring.
Qed.

Lemma SP_perm cs cs' : Permutation cs cs' -> forall s, SP cs s = SP cs' s.
Proof.
  induction 1 as [|c l l' _ IH|a b l|l l' l'' _ IH1 _ IH2]; intros s.
  - reflexivity.
  - cbn [SP]. apply Sum_ext. intros j _. rewrite IH. reflexivity.
  - apply SP_swap.
  - rewrite IH1. apply IH2.
Qed.

Lemma SP_nonneg cs : (forall c, In c cs -> forall i, 0 <= vget c i) -> forall s, 0 <= SP cs s.
Proof.
  induction cs as [|c r IH]; intros H s; cbn [SP].
  - destruct (s =? 0)%nat; [discriminate| apply Qcle_refl].
  - apply Sum_nonneg. intros j _. apply Qc_mul_nonneg; [apply H; left; reflexivity|].
    apply IH. intros c' Hc'. apply H. right. exact Hc'.
Qed.
Lemma SP_pos0 cs : (forall c, In c cs -> 0 < vget c 0%nat) -> 0 < SP cs 0.
Proof.
  induction cs as [|c r IH]; intros H; cbn [SP].
  - cbn [Nat.eqb]. reflexivity.
  - unfold Sum. cbn [seq map sumq Nat.sub]. rewrite Qcplus_0_r.
    apply Qc_mul_pos; [apply H; left; reflexivity| apply IH; intros c' Hc'; apply H; right; exact Hc'].
Qed.

(* ---------- convolution and D ---------- *)
Lemma conv_nth G a b k : (k < G)%nat ->
  vget (conv G a b) k = Sum (S k) (fun j => vget a j * vget b (k - j)%nat).
Proof. intros Hk. unfold conv. apply vec_of_nth. exact Hk. Qed.
Lemma conv_length G a b : length (conv G a b) = G.
Proof. apply vec_of_length. Qed.

Lemma Dfold_nth G rest : forall acc pre,
  (forall s, (s < G)%nat -> vget acc s = SP pre s) ->
  forall s, (s < G)%nat -> vget (fold_left (fun acc c => conv G c acc) rest acc) s = SP (rev rest ++ pre) s.
Proof.
  induction rest as [|c rest IH]; intros acc pre Hacc s Hs; cbn [fold_left rev app].
  - apply Hacc. exact Hs.
  - rewrite <- app_assoc. cbn [app]. apply IH; [|exact Hs].
    intros s' Hs'. rewrite conv_nth by exact Hs'. cbn [SP]. apply Sum_ext. intros j Hj.
    rewrite Hacc by lia. reflexivity.
Qed.

Lemma D_nth G cs s : cs <> [] -> (s < G)%nat -> vget (D G cs) s = SP cs s.
Proof.
  intros Hne Hs. destruct cs as [|c0 [|c1 rest]]; [congruence| |].
  - cbn [D]. symmetry. apply SP_single.
  - cbn [D]. rewrite (Dfold_nth G rest (conv G c0 c1) [c0; c1]); [|
      intros s' Hs'; rewrite conv_nth by exact Hs'; cbn [SP]; apply Sum_ext; intros j _;
      fold (SP [c1] (s' - j)); rewrite SP_single; reflexivity | exact Hs].
    apply SP_perm. change (c0 :: c1 :: rest) with ([c0; c1] ++ rest).
    eapply Permutation_trans; [apply Permutation_app_comm|].
    apply Permutation_app_head. apply Permutation_sym, Permutation_rev.
Qed.

Lemma Dfold_shape G rest : forall acc, (exists F, acc = vec_of G F) ->
  exists F, fold_left (fun acc c => conv G c acc) rest acc = vec_of G F.
Proof.
  induction rest as [|c rest IH]; intros acc Hacc; cbn [fold_left]; [exact Hacc|].
  apply IH. eexists. reflexivity.
Qed.
Lemma D_shape G cs : (2 <= length cs)%nat -> exists F, D G cs = vec_of G F.
Proof.
  destruct cs as [|c0 [|c1 rest]]; cbn [length]; try lia. intros _. cbn [D].
  apply Dfold_shape. eexists. reflexivity.
Qed.
Lemma D_length G cs : cs <> [] -> (forall c, In c cs -> length c = G) -> length (D G cs) = G.
Proof.
  intros Hne Hl. destruct cs as [|c0 [|c1 rest]]; [congruence| |].
  - cbn [D]. apply Hl. left. reflexivity.
  - destruct (D_shape G (c0 :: c1 :: rest)) as [F HF]; [cbn [length]; lia|].
    rewrite HF. apply vec_of_length.
Qed.

(* D does not depend on the order of the children *)
Lemma D_perm G cs cs' : Permutation cs cs' -> D G cs = D G cs'.
Proof.
  intros HP. pose proof (Permutation_length HP) as HL.
  destruct cs as [|c0 [|c1 rest]].
  - apply Permutation_nil in HP. subst. reflexivity.
  - apply Permutation_length_1_inv in HP. subst. reflexivity.
  - destruct (D_shape G (c0 :: c1 :: rest)) as [F HF]; [cbn [length]; lia|].
    destruct (D_shape G cs') as [F' HF']; [rewrite <- HL; cbn [length]; lia|].
    rewrite HF, HF'. rewrite <- (vec_of_eta G F), <- (vec_of_eta G F'). apply vec_of_ext.
    intros s Hs. rewrite <- HF, <- HF'.
    rewrite !D_nth; [apply SP_perm; exact HP| | exact Hs | discriminate | exact Hs].
    intros ->. cbn [length] in HL. lia.
Qed.

(* ---------- running sum ---------- *)
Lemma cumsum_length l : forall acc, length (cumsum acc l) = length l.
Proof. induction l as [|x l IH]; intros acc; cbn [cumsum length]; [reflexivity| rewrite IH; reflexivity]. Qed.
Lemma cumsum_nth l : forall acc k, (k < length l)%nat ->
  vget (cumsum acc l) k = acc + Sum (S k) (fun j => vget l j).
Proof.
  unfold vget. induction l as [|x l IH]; intros acc k Hk; cbn [length] in Hk; [lia|].
  cbn [cumsum]. destruct k as [|k].
  - cbn [nth]. unfold Sum. cbn [seq map sumq nth]. ring.
  - cbn [nth]. rewrite IH by lia. rewrite (Sum_shift (S k)). cbn [nth]. ring.
Qed.

(* ---------- p vector ---------- *)
Lemma vmul_length G a b : length (vmul G a b) = G.
Proof. apply vec_of_length. Qed.
Lemma pvec_fold_nth G ds : forall init i, (i < G)%nat ->
  vget (fold_left (vmul G) ds init) i = vget init i * qprod (map (fun d => vget d i) ds).
Proof.
  induction ds as [|d ds IH]; intros init i Hi; cbn [fold_left map qprod]; [ring|].
  rewrite IH by exact Hi. unfold vmul. rewrite vec_of_nth by exact Hi. ring.
Qed.
Lemma pvec_nth G ds i : (i < G)%nat -> vget (pvec G ds) i = node_p G ds i.
Proof.
  intros Hi. unfold pvec, node_p. rewrite pvec_fold_nth by exact Hi.
  rewrite vec_of_nth by exact Hi. reflexivity.
Qed.
Lemma pvec_length G ds : length (pvec G ds) = G.
Proof.
  unfold pvec. generalize (vec_of_length G (fun _ => / qn G)). generalize (vec_of G (fun _ => / qn G)).
  induction ds as [|d ds IH]; intros init Hl; cbn [fold_left]; [exact Hl|].
  apply IH. apply vmul_length.
Qed.

Lemma R_length G t : length (R G t) = G.
Proof. destruct t as [ds [|k r]]; cbn [R]; [apply pvec_length| apply vmul_length]. Qed.

(* ---------- the recursion, entry by entry ---------- *)
Lemma R_nth G ds ks x : (x < G)%nat ->
  vget (R G (Node ds ks)) x = node_p G ds x * Sum (S x) (fun s => SP (map (R G) ks) s).
Proof.
  intros Hx. destruct ks as [|k r].
  - cbn [R map SP]. rewrite pvec_nth by exact Hx.
    rewrite (Sum_delta (S x) 0 (fun _ => 1)) by lia. ring.
  - change (R G (Node ds (k :: r))) with (vmul G (pvec G ds) (logS G (map (R G) (k :: r)))).
    unfold vmul. rewrite vec_of_nth by exact Hx. rewrite pvec_nth by exact Hx. f_equal.
    assert (Hne : map (R G) (k :: r) <> []) by (cbn [map]; discriminate).
    assert (HL : length (D G (map (R G) (k :: r))) = G).
    { apply D_length; [exact Hne|]. intros c Hc. apply in_map_iff in Hc. destruct Hc as [t [<- _]]. apply R_length. }
    unfold logS. cbn [map]. cbn [map] in HL, Hne.
    rewrite cumsum_nth by (rewrite HL; exact Hx). rewrite Qcplus_0_l.
    apply Sum_ext. intros s Hs. apply D_nth; [exact Hne| lia].
Qed.

(* ---------- the brute-force side ---------- *)
(* sum over the assignments of a subtree with the subtree root at index x *)
Definition B (G : nat) (t : dtree) (x : nat) : Qc :=
  sumq (map (fun w => if feas t (x :: w) then weight G t (x :: w) else 0) (all_vecs G (sizes (kids t)))).
(* sum over the assignments of a list of subtrees whose own indices sum to exactly s *)
Definition FB (G : nat) (ks : list dtree) (s : nat) : Qc :=
  sumq (map (fun w => if (list_sum (tops ks w) =? s)%nat && all_true (segmap feas ks w)
                      then fweight G ks w else 0) (all_vecs G (sizes ks))).

Lemma B_node G ds ks x : B G (Node ds ks) x = node_p G ds x * Sum (S x) (fun s => FB G ks s).
Proof.
  unfold B, FB. cbn [kids feas weight hd tl]. fold (fweight G ks).
  rewrite Sum_sumq_swap, <- sumq_map_scale. apply sumq_map_ext. intros w _.
  rewrite <- ind_le_sum_and.
  destruct ((list_sum (tops ks w) <=? x)%nat && all_true (segmap feas ks w)); unfold fweight; ring.
Qed.

Lemma FB_nil G s : FB G [] s = if (s =? 0)%nat then 1 else 0.
Proof.
  unfold FB, sizes, fweight, tops. cbn [map segmap all_true forallb qprod].
  unfold list_sum. cbn [fold_right all_vecs map sumq].
  destruct s as [|s]; cbn [Nat.eqb andb]; ring.
Qed.

Lemma size_S {A} (k : tree A) : size k = S (sizes (kids k)).
Proof. destruct k as [a ks]. reflexivity. Qed.

Lemma FB_cons G k r s : (s < G)%nat ->
  FB G (k :: r) s = Sum (S s) (fun j => B G k j * FB G r (s - j)%nat).
Proof.
  intros Hs. unfold FB at 1. change (sizes (k :: r)) with (size k + sizes r)%nat.
  rewrite all_vecs_app.
  (* rewrite the terms using the segment structure *)
  rewrite (sumq_map_ext _ (fun v1 => sumq (map (fun v2 =>
      if (hd 0%nat v1 + list_sum (tops r v2) =? s)%nat && (feas k v1 && all_true (segmap feas r v2))
      then weight G k v1 * fweight G r v2 else 0) (all_vecs G (sizes r))))).
  2:{ intros v1 Hv1. apply all_vecs_length in Hv1. apply sumq_map_ext. intros v2 _.
      unfold tops, fweight. rewrite !(segmap_cons_app _ k r v1 v2 Hv1).
      cbn [list_sum all_true forallb qprod]. reflexivity. }
  rewrite (size_S k), all_vecs_S.
  rewrite (Sum_le_indicator (S s) G) by lia.
  apply Sum_ext. intros j Hj. cbn [hd].
  destruct (Nat.ltb_spec j (S s)) as [Hjs|Hjs].
  - unfold B. set (c := FB G r (s - j)). rewrite Qcmult_comm, <- sumq_map_scale.
    apply sumq_map_ext. intros w1 _. subst c. unfold FB.
    rewrite Qcmult_comm, <- sumq_map_scale. apply sumq_map_ext. intros v2 _.
    destruct (feas k (j :: w1)), (all_true (segmap feas r v2));
      destruct (Nat.eqb_spec (j + list_sum (tops r v2)) s), (Nat.eqb_spec (list_sum (tops r v2)) (s - j));
      cbn [andb]; try ring; lia.
  - rewrite (sumq_map_ext _ (fun _ => 0)); [apply sumq_map_zero|]. intros w1 _.
    rewrite (sumq_map_ext _ (fun _ => 0)); [apply sumq_map_zero|]. intros v2 _.
    destruct (Nat.eqb_spec (j + list_sum (tops r v2)) s); [lia|]. reflexivity.
Qed.

Lemma SP_FB G ks :
  Forall (fun k => forall x, (x < G)%nat -> vget (R G k) x = B G k x) ks ->
  forall s, (s < G)%nat -> SP (map (R G) ks) s = FB G ks s.
Proof.
  induction 1 as [|k r Hk _ IH]; intros s Hs.
  - cbn [map SP]. rewrite FB_nil. reflexivity.
  - cbn [map SP]. rewrite FB_cons by exact Hs. apply Sum_ext. intros j Hj.
    rewrite Hk by lia. rewrite IH by lia. reflexivity.
Qed.

Theorem R_eq_B G t : forall x, (x < G)%nat -> vget (R G t) x = B G t x.
Proof.
  induction t as [ds ks IH] using tree_ind'. intros x Hx.
  rewrite R_nth by exact Hx. rewrite B_node. f_equal.
  apply Sum_ext. intros s Hs. apply SP_FB; [exact IH| lia].
Qed.

(* the virtual root: entry k is the constrained sum *)
Theorem root_is_constrained_sum G f k : (k < G)%nat -> vget (root_R G f) k = brute_root G f k.
Proof.
  intros Hk. unfold root_R. rewrite R_eq_B by exact Hk.
  unfold B, brute_root. cbn [kids feas weight hd tl]. fold (ffeas f k). fold (fweight G f).
  apply sumq_map_ext. intros w _. unfold ffeas.
  destruct ((list_sum (tops f w) <=? k)%nat && all_true (segmap feas f w)); [|reflexivity].
  unfold node_p, fweight. cbn [map qprod]. ring.
Qed.

(* the brute-force sum ranges over exactly the index vectors of the right length on the grid *)
Lemma all_vecs_spec G n v : In v (all_vecs G n) <-> (length v = n /\ Forall (fun x => (x < G)%nat) v).
Proof.
  split.
  - intros H. split; [eapply all_vecs_length; exact H| eapply all_vecs_bound; exact H].
  - intros [H1 H2]. apply all_vecs_complete; assumption.
Qed.

(* ---------- positivity ---------- *)
Lemma node_p_pos G ds i : (i < G)%nat -> (forall d, In d ds -> 0 < vget d i) -> 0 < node_p G ds i.
Proof.
  intros Hi H. unfold node_p. apply Qc_mul_pos.
  - apply Qc_inv_pos, qn_pos. lia.
  - apply qprod_pos. intros x Hx. apply in_map_iff in Hx. destruct Hx as [d [<- Hd]]. apply H. exact Hd.
Qed.

Lemma vget_R_out G t i : (G <= i)%nat -> vget (R G t) i = 0.
Proof. intros Hi. unfold vget. apply nth_overflow. rewrite R_length. exact Hi. Qed.

Theorem R_positive G t : pos_data G t -> forall x, (x < G)%nat -> 0 < vget (R G t) x.
Proof.
  induction t as [ds ks IH] using tree_ind'. intros Hpos x Hx.
  rewrite R_nth by exact Hx.
  assert (Hk : forall c, In c (map (R G) ks) -> forall i, (i < G)%nat -> 0 < vget c i).
  { intros c Hc i Hi. apply in_map_iff in Hc. destruct Hc as [k [<- Hkin]].
    rewrite Forall_forall in IH. apply (IH k Hkin); [|exact Hi].
    intros ds' Hds'. apply Hpos. cbn [payloads]. right. apply in_flat_map. exists k. split; assumption. }
  apply Qc_mul_pos.
  - apply node_p_pos; [exact Hx|]. intros d Hd. apply (Hpos ds); [left; reflexivity| exact Hd| exact Hx].
  - apply Sum_pos_first.
    + apply SP_pos0. intros c Hc. apply Hk; [exact Hc| lia].
    + intros i _. apply SP_nonneg. intros c Hc j.
      destruct (Nat.lt_ge_cases j G) as [Hj|Hj]; [apply Qc_lt_le, Hk; assumption|].
      apply in_map_iff in Hc. destruct Hc as [k [<- _]]. rewrite vget_R_out by exact Hj. apply Qcle_refl.
Qed.

Theorem root_positive G f : (forall t, In t f -> pos_data G t) ->
  forall k, (k < G)%nat -> 0 < vget (root_R G f) k.
Proof.
  intros H k Hk. unfold root_R. apply R_positive; [|exact Hk].
  intros ds Hds d Hd. cbn [payloads] in Hds. destruct Hds as [<-|Hds]; [destruct Hd|].
  apply in_flat_map in Hds. destruct Hds as [t [Ht Hds]]. apply (H t Ht ds Hds d Hd).
Qed.

(* ---------- invariance under permuting the children of a node ---------- *)
Theorem R_perm_children G ds ks ks' : Permutation ks ks' -> R G (Node ds ks) = R G (Node ds ks').
Proof.
  intros HP. destruct ks as [|k r].
  - apply Permutation_nil in HP. subst. reflexivity.
  - destruct ks' as [|k' r']; [apply Permutation_sym, Permutation_nil in HP; discriminate|].
    change (vmul G (pvec G ds) (logS G (map (R G) (k :: r))) = vmul G (pvec G ds) (logS G (map (R G) (k' :: r')))).
    f_equal. unfold logS. cbn [map].
    change (cumsum 0 (D G (map (R G) (k :: r))) = cumsum 0 (D G (map (R G) (k' :: r')))).
    f_equal. apply D_perm. apply Permutation_map. exact HP.
Qed.

(* ... and at every depth *)
Theorem R_tperm G t : forall t', tperm t t' -> R G t = R G t'.
Proof.
  induction t as [ds ks IH] using tree_ind'. intros t' H. inversion H as [a l l' l'' HF HP]; subst.
  assert (Hm : map (R G) ks = map (R G) l').
  { clear H HP. induction HF as [|k k' r r' Hk _ IHr]; [reflexivity|].
    inversion IH as [|? ? Hk0 Hr0]; subst. cbn [map]. rewrite (Hk0 k' Hk), (IHr Hr0). reflexivity. }
  rewrite <- (R_perm_children G ds l' l'' HP).
  destruct HF as [|k k' r r' Hk HF]; [reflexivity|].
  change (vmul G (pvec G ds) (logS G (map (R G) (k :: r))) = vmul G (pvec G ds) (logS G (map (R G) (k' :: r')))).
  rewrite Hm. reflexivity.
Qed.
Theorem root_R_tperm G f f' : Forall2 tperm f f' -> forall f'', Permutation f' f'' -> root_R G f = root_R G f''.
Proof. intros HF f'' HP. unfold root_R. apply R_tperm. econstructor; eassumption. Qed.

(* several samples: each row is the single-sample statement on the projected tree *)
Lemma nth_map_seq {X} (F : nat -> X) n s d : (s < n)%nat -> nth s (map F (seq 0 n)) d = F s.
Proof.
  intros Hs. rewrite (nth_indep _ d (F 0%nat)) by (rewrite map_length, seq_length; exact Hs).
  rewrite (map_nth F), seq_nth by exact Hs. reflexivity.
Qed.
Lemma root_R_multi_nth G n f s : (s < n)%nat ->
  nth s (root_R_multi G n f) [] = root_R G (map (proj s) f).
Proof. intros Hs. unfold root_R_multi. apply (nth_map_seq (fun s => root_R G (map (proj s) f))). exact Hs. Qed.
