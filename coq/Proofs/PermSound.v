(* Soundness of the enumeration: every enumerated order is a permutation of the tree's data points in which
   every point of a clone comes after every point of the clone's descendants. *)
From PV Require Import Model.Perm Proofs.PermProofs.
From Coq Require Import Permutation.

Inductive Sub {A} : list A -> list A -> Prop :=
| Sub_nil : Sub [] []
| Sub_skip x l l' : Sub l l' -> Sub l (x :: l')
| Sub_take x l l' : Sub l l' -> Sub (x :: l) (x :: l').

Lemma Sub_refl {A} (l : list A) : Sub l l.
Proof. induction l; constructor; assumption. Qed.
Lemma Sub_nil_l {A} (l : list A) : Sub [] l.
Proof. induction l; constructor; assumption. Qed.
Lemma Sub_in {A} (l l' : list A) x : Sub l l' -> In x l -> In x l'.
Proof. induction 1; cbn [In]; intros Hx; [contradiction| right; auto| destruct Hx; [left|right]; auto]. Qed.
Lemma Sub_app_r {A} (l l' p : list A) : Sub l l' -> Sub l (l' ++ p).
Proof.
  induction 1; cbn [app].
  - apply Sub_nil_l.
  - constructor; assumption.
  - constructor; assumption.
Qed.
Lemma Sub_trans {A} (a b c : list A) : Sub a b -> Sub b c -> Sub a c.
Proof.
  intros Hab Hbc. revert a Hab. induction Hbc; intros a Hab.
  - exact Hab.
  - constructor. apply IHHbc. exact Hab.
  - inversion Hab; subst; constructor; apply IHHbc; assumption.
Qed.

Lemma after_sub o o' x y : Sub o o' -> after o x y -> after o' x y.
Proof.
  induction 1 as [|z l l' HS IH|z l l' HS IH]; cbn [after]; intros H.
  - exact H.
  - right. apply IH. exact H.
  - destruct H as [[-> Hx]|H]; [left; split; [reflexivity| eapply Sub_in; eassumption]| right; apply IH; exact H].
Qed.

Lemma after_app o p x y : In y o -> In x p -> after (o ++ p) x y.
Proof.
  induction o as [|z o IH]; cbn [In app after]; intros Hy Hx; [contradiction|].
  destruct Hy as [->|Hy]; [left; split; [reflexivity| apply in_or_app; right; exact Hx]| right; apply IH; assumption].
Qed.

Fixpoint all_respect (o : list nat) (l : list tree) : Prop :=
  match l with [] => True | k :: r => respects o k /\ all_respect o r end.
Lemma respects_unfold o ow ks :
  respects o (Node ow ks) <->
  (forall x y, In x ow -> In y (flat_map points ks) -> after o x y) /\ all_respect o ks.
Proof.
  cbn [respects]. assert (H : forall l, (fix all (l : list tree) : Prop := match l with [] => True | k :: r => respects o k /\ all r end) l <-> all_respect o l).
  { induction l as [|k r IH]; cbn [all_respect]; [tauto| rewrite IH; tauto]. }
  rewrite H. tauto.
Qed.
Lemma all_respect_forall o l : all_respect o l <-> Forall (respects o) l.
Proof. induction l as [|k r IH]; cbn [all_respect]; [split; constructor| rewrite IH; split; [intros [? ?]; constructor; assumption| inversion 1; auto]]. Qed.

Lemma respects_sub t : forall o o', Sub o o' -> respects o t -> respects o' t.
Proof.
  induction t as [ow ks IH] using tree_ind'. intros o o' HS. rewrite !respects_unfold, !all_respect_forall.
  intros [H1 H2]. split.
  - intros x y Hx Hy. eapply after_sub; [exact HS| apply H1; assumption].
  - rewrite Forall_forall in *. intros k Hk. apply (IH k Hk o o' HS). apply H2. exact Hk.
Qed.

(* interleavings contain each input list as a subsequence, and are permutations of the concatenation *)
Lemma pops_sub {A} (ls : list (list A)) p : In p (pops ls) ->
  Forall2 (fun l l' => l = l' \/ l = fst (fst p) :: l') ls (snd p)
  /\ Permutation (concat ls) (fst (fst p) :: concat (snd p)).
Proof.
  revert p. induction ls as [|l rest IH]; intros p Hp; cbn [pops] in Hp; [contradiction|].
  apply in_app_or in Hp. destruct Hp as [Hp|Hp].
  - destruct l as [|x r]; [contradiction|]. destruct Hp as [<-|[]]. cbn [fst snd concat app]. split.
    + constructor; [right; reflexivity|]. clear. induction rest; constructor; auto.
    + apply Permutation_refl.
  - apply in_map_iff in Hp. destruct Hp as [q [<- Hq]]. cbn [fst snd]. destruct (IH q Hq) as [H1 H2]. split.
    + constructor; [left; reflexivity| exact H1].
    + cbn [concat]. rewrite H2. symmetry. apply Permutation_middle.
Qed.

Lemma inter_sound {A} n : forall (ls : list (list A)) s, total ls = n -> In s (inter n ls) ->
  Forall (fun l => Sub l s) ls /\ Permutation (concat ls) s.
Proof.
  induction n as [|n IH]; intros ls s Ht Hs; cbn [inter] in Hs.
  - destruct Hs as [<-|[]]. assert (Hall : Forall (fun l => l = []) ls).
    { clear -Ht. induction ls as [|l rest IHl]; constructor.
      - rewrite total_cons in Ht. destruct l; [reflexivity| cbn in Ht; lia].
      - apply IHl. rewrite total_cons in Ht. lia. }
    split.
    + eapply Forall_impl; [|exact Hall]. intros l ->. constructor.
    + clear Ht. induction Hall as [|l rest Hl _ IHl]; cbn [concat]; [constructor| subst; exact IHl].
  - apply in_flat_map in Hs. destruct Hs as [p [Hp Hs]]. apply in_map_iff in Hs. destruct Hs as [s' [<- Hs']].
    destruct (pops_spec ls p Hp) as [Htot _]. destruct (IH (snd p) s' ltac:(lia) Hs') as [H1 H2].
    destruct (pops_sub ls p Hp) as [H3 H4]. split.
    + clear -H1 H3. revert H1. induction H3 as [|l l' ls ls' Hl _ IHl]; intros H1; constructor.
      * inversion H1; subst. destruct Hl as [->| ->]; constructor; assumption.
      * apply IHl. inversion H1; assumption.
    + rewrite H4. constructor. exact H2.
Qed.

Lemma perms_perm {A} (l s : list A) : In s (perms l) -> Permutation l s.
Proof.
  unfold perms, interleavings. intros H. apply inter_sound in H; [|reflexivity]. destruct H as [_ H].
  rewrite <- H. clear. induction l as [|x l IH]; cbn [map concat app]; [constructor| constructor; exact IH].
Qed.

Lemma prodl_forall2 {A B} (R : A -> B -> Prop) (f : B -> list A) (ks : list B) cs :
  (forall k c, In k ks -> In c (f k) -> R c k) -> In cs (prodl (map f ks)) -> Forall2 R cs ks.
Proof.
  intros H Hc. apply prodl_in in Hc. revert cs Hc. induction ks as [|k ks IH]; intros cs Hc; cbn [map] in Hc.
  - inversion Hc. constructor.
  - inversion Hc; subst. constructor; [apply H; [left; reflexivity| assumption]|].
    apply IH; [|assumption]. intros k' c' Hk'. apply H. right. exact Hk'.
Qed.

Definition sound (t : tree) : Prop :=
  forall o, In o (orders t) -> Permutation (points t) o /\ respects o t.

Lemma concat_perm_points ks cs :
  Forall2 (fun c k => Permutation (points k) c /\ respects c k) cs ks ->
  Permutation (flat_map points ks) (concat cs).
Proof.
  induction 1 as [|c k cs ks [Hp _] _ IH]; cbn [flat_map concat]; [constructor|].
  apply Permutation_app; assumption.
Qed.

Lemma orders_sound_all t : sound t.
Proof.
  induction t as [ow ks IH] using tree_ind'. intros o Ho. cbn [orders] in Ho.
  apply in_flat_map in Ho. destruct Ho as [cs [Hcs Ho]]. apply in_flat_map in Ho.
  destruct Ho as [s [Hs Ho]]. apply in_map_iff in Ho. destruct Ho as [p [<- Hp]].
  assert (HF : Forall2 (fun c k => Permutation (points k) c /\ respects c k) cs ks).
  { apply (prodl_forall2 _ orders ks cs); [|exact Hcs]. intros k c Hk Hc.
    rewrite Forall_forall in IH. apply (IH k Hk c Hc). }
  apply inter_sound in Hs; [|reflexivity]. destruct Hs as [Hsub Hperm].
  pose proof (perms_perm _ _ Hp) as Hpp. pose proof (concat_perm_points ks cs HF) as Hkp.
  split.
  - cbn [points]. apply Permutation_app; [rewrite Hkp; exact Hperm| exact Hpp].
  - rewrite respects_unfold. split.
    + intros x y Hx Hy. apply after_app.
      * eapply Permutation_in; [exact Hperm|]. eapply Permutation_in; [exact Hkp| exact Hy].
      * eapply Permutation_in; [exact Hpp| exact Hx].
    + rewrite all_respect_forall. clear -HF Hsub.
      induction HF as [|c k cs ks [_ Hr] _ IHF]; constructor.
      * inversion Hsub; subst. apply (respects_sub k c); [apply Sub_app_r; assumption| exact Hr].
      * apply IHF. inversion Hsub; assumption.
Qed.

Theorem orders_sound t o : In o (orders t) -> Permutation (points t) o /\ respects o t.
Proof. apply orders_sound_all. Qed.

Theorem forders_sound F o : In o (forders F) -> Permutation (fpoints F) o /\ frespects o F.
Proof.
  unfold forders. intros Ho. apply in_flat_map in Ho. destruct Ho as [cs [Hcs Ho]].
  apply in_flat_map in Ho. destruct Ho as [s [Hs Ho]]. apply in_flat_map in Ho. destruct Ho as [p [Hp Ho]].
  assert (HF : Forall2 (fun c k => Permutation (points k) c /\ respects c k) cs (roots F)).
  { apply (prodl_forall2 _ orders (roots F) cs); [|exact Hcs]. intros k c _ Hc. apply orders_sound. exact Hc. }
  apply inter_sound in Hs; [|reflexivity]. destruct Hs as [Hsub Hperm].
  apply inter_sound in Ho; [|reflexivity]. destruct Ho as [Hsub2 Hperm2].
  pose proof (perms_perm _ _ Hp) as Hpp. pose proof (concat_perm_points _ cs HF) as Hkp.
  split.
  - unfold fpoints. rewrite <- Hperm2. cbn [concat]. rewrite app_nil_r.
    apply Permutation_app; [rewrite Hkp; exact Hperm| exact Hpp].
  - unfold frespects.
    inversion Hsub2 as [|? ? Hso _]; subst. clear -HF Hsub Hso.
    induction HF as [|c k cs ks [_ Hr] _ IHF]; constructor.
    + inversion Hsub; subst. apply (respects_sub k c); [eapply Sub_trans; eassumption| exact Hr].
    + apply IHF. inversion Hsub; assumption.
Qed.
