(* Change of measure between the conditional and the unconditional sampler. *)
From PV Require Import Model.Csmc Proofs.CsmcSupport Proofs.CsmcExch Proofs.IsirProofs.
From Coq Require Import Bool.

Lemma E_sum_upto {X} (d : dist X) k (F : nat -> X -> Qc) :
  E d (fun x => sum_upto k (fun m => F m x)) = sum_upto k (fun m => E d (F m)).
Proof. induction k as [|k IH]; cbn [sum_upto]; [apply E_zero|]. rewrite E_plus, IH. reflexivity. Qed.

Lemma sum_upto_scale k c (T : nat -> Qc) : sum_upto k (fun m => c * T m) = c * sum_upto k T.
Proof. induction k as [|k IHk]; cbn [sum_upto]; [ring| rewrite IHk; ring]. Qed.

Definition slot0 {X} (F : X -> Qc) (l : list X) : Qc := match l with x :: _ => F x | [] => 0 end.
Lemma slot0_nth {X} (F : X -> Qc) l : slot0 F l = match nth_error l 0 with Some x => F x | None => 0 end.
Proof. destruct l; reflexivity. Qed.
Lemma sum_slots {X} (F : X -> Qc) (l : list X) :
  sumq (map F l) = sum_upto (length l) (fun m => slot0 F (bring m l)).
Proof.
  transitivity (sum_upto (length l) (fun m => match nth_error l m with Some x => F x | None => 0 end)).
  - induction l as [|x r IH] using rev_ind; [reflexivity|].
    rewrite map_app, sumq_app, app_length. cbn [map sumq length]. rewrite Nat.add_1_r. cbn [sum_upto].
    rewrite IH. f_equal.
    + apply sum_upto_ext. intros m Hm. rewrite nth_error_app1 by lia. reflexivity.
    + rewrite nth_error_app2 by lia. rewrite Nat.sub_diag. cbn [nth_error]. ring.
  - apply sum_upto_ext. intros m Hm. rewrite slot0_nth, bring_head by exact Hm. reflexivity.
Qed.

Section COM.
Context {A : Type}.
Notation P := (list A).
Variable q : P -> dist A.
Variable om : P -> Qc.
Variable rs : @swarm A -> bool.
Variable n : nat.
Hypothesis ompos : forall p, 0 < om p.
Hypothesis rs_sym : forall m s, rs (bring m s) = rs s.

Notation ext_w := (ext_w q om).
Notation updU := (updU q om).
Notation resU := (resU rs).
Notation runU := (runU q om rs).
Notation updC := (updC q om).
Notation resC := (resC rs).
Notation Good := (@Good A n).
Notation GoodU := (@GoodU A n).
Notation Exch := (@Exch A).

Definition st_of (s : @swarm A) : @cstate A := match s with pw :: rest => (fst pw, snd pw, rest) | [] => ([], 0, []) end.
Definition w0 (s : @swarm A) : Qc := match s with pw :: _ => snd pw | [] => 0 end.
Lemma cswarm_st_of s : Good s -> cswarm (st_of s) = s.
Proof. intros [Hl _]. destruct s as [|[x w] r]; [cbn in Hl; lia| reflexivity]. Qed.

(* conditional functional: sums over the retained continuation, weighted by q * om *)
Fixpoint LC (ops : list op) (st : @cstate A) (h : @swarm A -> Qc) : Qc :=
  match ops with
  | [] => h (cswarm st)
  | Res :: ops' => E (resC st) (fun st' => LC ops' st' h)
  | Upd :: ops' =>
      E (q (fst (fst st))) (fun a => om (a :: fst (fst st)) * E (updC a st) (fun st' => LC ops' st' h))
  end.
Definition LU (ops : list op) (zs : @ustate A) (h : @swarm A -> Qc) : Qc :=
  E (runU ops zs) (fun zs' => fst zs' * w0 (snd zs') * h (snd zs')).

Lemma bind_assoc_E {X Y Z} (mu : dist X) (k1 : X -> dist Y) (k2 : Y -> dist Z) f :
  E (bind mu (fun x => bind (k1 x) k2)) f = E (bind (bind mu k1) k2) f.
Proof. rewrite !E_bind. apply E_ext. intros x. rewrite E_bind. reflexivity. Qed.

(* the categorical law as a functional is symmetric, hence so is any iid expectation under it *)
Lemma iidn_cat_bring m (s : @swarm A) k (g : list P -> Qc) : E (iidn k (cat (bring m s))) g = E (iidn k (cat s)) g.
Proof.
  revert g. induction k as [|k IH]; intros g; cbn [iidn]; [reflexivity|].
  rewrite !E_bind, E_cat_bring. apply E_ext. intros x. rewrite !E_dmap. apply IH.
Qed.

Section Step.
Variable ops' : list op.
Variable h : @swarm A -> Qc.
(* Phi_s(p): expected continuation when p is put in slot 0 with weight 1 and the other n slots are drawn iid from cat s *)
Definition Phi (s : @swarm A) (p : P) : Qc :=
  E (iidn n (cat s)) (fun l => LC ops' (p, 1, fresh l) h).
Lemma Phi_bring m s p : Phi (bring m s) p = Phi s p.
Proof. unfold Phi. apply iidn_cat_bring. Qed.

Lemma res_step (mu : dist (@ustate A)) :
  All GoodU mu -> Exch mu ->
  E mu (fun zs => if rs (snd zs) then fst zs * w0 (snd zs) * Phi (snd zs) (fst (fst (st_of (snd zs)))) else 0)
  = E mu (fun zs => if rs (snd zs) then fst zs * (sumw (snd zs) / qn (S n)) * E (cat (snd zs)) (Phi (snd zs)) else 0).
Proof.
  intros HG HE.
  set (F := fun (s : @swarm A) (pw : @wp A) => snd pw * Phi s (fst pw)).
  set (G := fun (z : Qc) (s : @swarm A) => if rs s then z * slot0 (F s) s else 0).
  assert (HL : E mu (fun zs => if rs (snd zs) then fst zs * w0 (snd zs) * Phi (snd zs) (fst (fst (st_of (snd zs)))) else 0)
               = E mu (fun zs => G (fst zs) (snd zs))).
  { apply E_ext. intros [z s]. cbn [fst snd]. unfold G, F. destruct (rs s); [|reflexivity].
    destruct s as [|[x w] r]; cbn [slot0 w0 st_of fst snd]; ring. }
  rewrite HL.
  assert (HR : E mu (fun zs => if rs (snd zs) then fst zs * (sumw (snd zs) / qn (S n)) * E (cat (snd zs)) (Phi (snd zs)) else 0)
               = E mu (fun zs => / qn (S n) * sum_upto (S n) (fun m => G (fst zs) (bring m (snd zs))))).
  { apply (E_ext_All GoodU); [exact HG|]. intros [z s] Hs. cbn [fst snd]. unfold GoodU in Hs. cbn [snd] in Hs.
    pose proof (CsmcExch.sumw_pos n s Hs) as Hp. apply Qc_pos_neq0 in Hp.
    destruct (rs s) eqn:Hr.
    - rewrite E_cat. destruct Hs as [Hl _].
      set (T := sum_upto (S n) (fun m => slot0 (F s) (bring m s))).
      assert (Hsl : sumq (map (fun pw : @wp A => snd pw * Phi s (fst pw)) s) = T).
      { unfold T, F. rewrite <- Hl. apply (sum_slots (fun pw : @wp A => snd pw * Phi s (fst pw)) s). }
      unfold wp in Hsl. rewrite Hsl.
      assert (HG2 : sum_upto (S n) (fun m => G z (bring m s)) = z * T).
      { unfold T. rewrite (sum_upto_ext (S n) (fun m => G z (bring m s)) (fun m => z * slot0 (F s) (bring m s))).
        - apply (sum_upto_scale (S n) z (fun m => slot0 (F s) (bring m s))).
        - intros m _. unfold G. rewrite rs_sym, Hr. f_equal. unfold F.
          destruct (bring m s) as [|pw r] eqn:Hb; cbn [slot0]; [reflexivity|]. rewrite <- Hb, Phi_bring. reflexivity. }
      rewrite HG2. set (w := sumw s) in *.
      field. split; [apply Qc_pos_neq0, qn_pos; lia| exact Hp].
    - rewrite (sum_upto_ext (S n) _ (fun _ => 0)).
      2:{ intros m _. unfold G. rewrite rs_sym, Hr. reflexivity. }
      rewrite sum_upto_const. ring. }
  rewrite HR.
  rewrite E_scale_r, E_sum_upto.
  rewrite (sum_upto_ext (S n) _ (fun _ => E mu (fun zs => G (fst zs) (snd zs)))).
  2:{ intros m _. exact (HE m G). }
  rewrite sum_upto_const. field. apply Qc_pos_neq0, qn_pos. lia.
Qed.
End Step.

Theorem change_of_measure ops : forall (mu : dist (@ustate A)) h,
  All GoodU mu -> Exch mu ->
  E mu (fun zs => fst zs * w0 (snd zs) * LC ops (st_of (snd zs)) h) = E mu (fun zs => LU ops zs h).
Proof.
  induction ops as [|o ops IH]; intros mu h HG HE.
  - apply (E_ext_All GoodU); [exact HG|]. intros [z s] Hs. unfold LU. cbn [LC Csmc.runU fst snd].
    rewrite E_ret. cbn [fst snd]. rewrite cswarm_st_of by exact Hs. reflexivity.
  - destruct o.
    + (* Upd *)
      assert (HGu : All GoodU (bind mu updU)).
      { apply (All_bind GoodU); [exact HG|]. intros zs Hz. apply updU_Good; assumption. }
      assert (HEu : Exch (bind mu updU)) by (apply Exch_updU; exact HE).
      specialize (IH (bind mu updU) h HGu HEu).
      transitivity (E (bind mu updU) (fun zs => fst zs * w0 (snd zs) * LC ops (st_of (snd zs)) h)).
      * rewrite E_bind. apply (E_ext_All GoodU); [exact HG|]. intros [z s] Hs. cbn [fst snd].
        destruct Hs as [Hl HF]. destruct s as [|[x w] rest]; [cbn in Hl; lia|].
        cbn [st_of w0 LC fst snd]. unfold Csmc.updU, Csmc.updC. cbn [fst snd map seqdist].
        symmetry. rewrite E_dmap, E_bind. unfold Csmc.ext_w at 1. rewrite E_dmap. cbn [fst snd].
        rewrite <- E_scale_r. apply E_ext. intros a. rewrite !E_dmap. cbn [fst snd st_of w0].
        rewrite <- !E_scale_r. apply E_ext. intros rest'. ring.
      * rewrite IH. rewrite E_bind. apply E_ext. intros zs. unfold LU. cbn [Csmc.runU]. rewrite E_bind. reflexivity.
    + (* Res *)
      assert (HGr : All GoodU (bind mu resU)).
      { apply (All_bind GoodU); [exact HG|]. intros zs Hz. apply resU_Good; assumption. }
      assert (HEr : Exch (bind mu resU)) by (apply Exch_resU; assumption).
      specialize (IH (bind mu resU) h HGr HEr).
      transitivity (E (bind mu resU) (fun zs => fst zs * w0 (snd zs) * LC ops (st_of (snd zs)) h)).
      2:{ rewrite IH. rewrite E_bind. apply E_ext. intros zs. unfold LU. cbn [Csmc.runU]. rewrite E_bind. reflexivity. }
      rewrite E_bind.
      (* split both integrands into the resampling part and the pass-through part *)
      set (B := fun zs : @ustate A => if rs (snd zs) then 0 else fst zs * w0 (snd zs) * LC ops (st_of (snd zs)) h).
      transitivity (E mu (fun zs => (if rs (snd zs) then fst zs * w0 (snd zs) * Phi ops h (snd zs) (fst (fst (st_of (snd zs)))) else 0) + B zs)).
      * apply (E_ext_All GoodU); [exact HG|]. intros [z s] Hs. cbn [fst snd]. unfold B. cbn [fst snd LC].
        unfold Csmc.resC. rewrite cswarm_st_of by exact Hs. destruct (rs s) eqn:Hr.
        -- rewrite E_dmap. unfold Phi. destruct Hs as [Hl _]. destruct s as [|[x w] rest]; [cbn in Hl; lia|].
           cbn [st_of fst snd length] in *. assert (length rest = n) as -> by lia. ring.
        -- rewrite E_ret. ring.
      * rewrite E_plus. rewrite (res_step ops h mu HG HE). rewrite <- E_plus.
        apply (E_ext_All GoodU); [exact HG|]. intros [z s] Hs. cbn [fst snd]. unfold B. cbn [fst snd].
        unfold Csmc.resU. cbn [fst snd]. destruct (rs s) eqn:Hr.
        -- rewrite E_dmap. cbn [fst snd]. destruct Hs as [Hl _]. cbn [snd] in Hl. rewrite Hl. cbn [iidn].
           rewrite E_bind. rewrite Qcplus_0_r. rewrite <- E_scale_r. apply E_ext. intros p.
           rewrite E_dmap. unfold Phi. rewrite <- E_scale_r. apply E_ext. intros l.
           cbn [map st_of w0 fst snd]. unfold fresh. cbn [map st_of w0 fst snd]. rewrite Qcmult_1_r. reflexivity.
        -- rewrite E_ret. cbn [fst snd]. ring.
Qed.
End COM.
