(* The conditional density of the data order given the tree, as the particle-Gibbs assembly (C01_pg_update_invariant)
   needs it: 1 / count on the compatible orders, 0 elsewhere, summing to one over all permutations of the data points. *)
From PV Require Import Model.Perm Proofs.PermProofs Proofs.PermSound Proofs.PermComplete Proofs.PermNoDup.
From Coq Require Import Permutation.

Definition order_eq_dec : forall a b : list nat, {a = b} + {a <> b} := list_eq_dec Nat.eq_dec.
Definition order_density (F : forest) (sigma : list nat) : Qc :=
  if in_dec order_eq_dec sigma (forders F) then / fcount F else 0.

Lemma sumq_swap {X Y} (g : X -> Y -> Qc) (A : list X) (B : list Y) :
  sumq (map (fun a => sumq (map (fun b => g a b) B)) A) = sumq (map (fun b => sumq (map (fun a => g a b) A)) B).
Proof.
  induction A as [|a A IH]; cbn [map sumq].
  - induction B as [|b B IHB]; cbn [map sumq]; [reflexivity| rewrite <- IHB; ring].
  - rewrite IH. rewrite <- sumq_map_plus. reflexivity.
Qed.

Lemma sum_ind_member (B : list (list nat)) a : NoDup B ->
  sumq (map (fun b => ind b a) B) = if in_dec order_eq_dec a B then 1 else 0.
Proof.
  intros Hnd. destruct (in_dec order_eq_dec a B) as [Hin|Hout].
  - induction Hnd as [|b B Hb Hnd IH]; [contradiction|]. cbn [map sumq]. unfold ind at 1.
    destruct (list_eq_dec Nat.eq_dec a b) as [->|Hne].
    + rewrite (sumq_map_ext _ (fun _ => 0)); [rewrite sumq_map_const; ring|].
      intros b' Hb'. unfold ind. destruct (list_eq_dec Nat.eq_dec b b') as [->|_]; [contradiction| reflexivity].
    + destruct Hin as [->|Hin]; [congruence|]. rewrite IH by exact Hin. ring.
  - rewrite (sumq_map_ext _ (fun _ => 0)); [rewrite sumq_map_const; ring|].
    intros b Hb. unfold ind. destruct (list_eq_dec Nat.eq_dec a b) as [->|_]; [contradiction| reflexivity].
Qed.

Theorem order_density_sums_to_one F :
  NoDup (fpoints F) -> sumq (map (order_density F) (perms (fpoints F))) = 1.
Proof.
  intros Hnd. set (A := perms (fpoints F)). set (B := forders F).
  assert (HndA : NoDup A) by (apply perms_NoDup; exact Hnd).
  assert (HndB : NoDup B) by (apply forders_NoDup; exact Hnd).
  assert (Hincl : forall b, In b B -> In b A).
  { intros b Hb. apply perms_complete; [exact Hnd| apply (forders_sound F b Hb)]. }
  rewrite (sumq_map_ext (order_density F) (fun a => / fcount F * sumq (map (fun b => ind b a) B))).
  2:{ intros a _. unfold order_density. rewrite (sum_ind_member B a HndB). fold B.
      destruct (in_dec order_eq_dec a B); ring. }
  rewrite sumq_map_scale.
  rewrite (sumq_swap (fun a b => ind b a) A B).
  rewrite (sumq_map_ext _ (fun _ => 1)).
  - rewrite sumq_map_const. unfold B. rewrite <- fcount_is_number_of_orders.
    pose proof (fcount_pos F) as Hp. apply Qc_pos_neq0 in Hp. field. exact Hp.
  - intros b Hb. rewrite (sumq_map_ext (fun a => ind b a) (ind b)) by reflexivity.
    apply sum_ind_NoDup; [exact HndA| apply Hincl; exact Hb].
Qed.
