(* The state space of the assembled update, characterised independently of the grammar: [forests n on] is exactly the set
   of tables of forest relations over the points 0..n-1 (without outliers when outlier modelling is off).  The missing
   ingredient is that every forest has at least one compatible order (a linear extension of "descendants first"). *)
From PV Require Import Model.Grammar Model.Perm Proofs.PermComplete Proofs.GrammarSound Proofs.GrammarComplete Proofs.GrammarTable Proofs.GrammarPG.
From Coq Require Import Bool Permutation.

Section LinExt.
Variable r : rel.
Hypothesis r_trans : forall x y z, r x y = true -> r y z = true -> r x z = true.

(* a point of the list none of whose strict ancestors is in the list *)
Lemma top_exists : forall l : list nat, l <> [] -> exists m, In m l /\ forall z, In z l -> r z m = true -> r m z = true.
Proof.
  induction l as [|a l IH]; intros Hne; [congruence|].
  destruct l as [|b l'].
  - exists a. split; [left; reflexivity|]. intros z [<-|[]] H. exact H.
  - destruct IH as [m [Hm Hmax]]; [discriminate|].
    destruct (r a m && negb (r m a)) eqn:E.
    + apply andb_true_iff in E. destruct E as [E1 E2]. apply negb_true_iff in E2.
      exists a. split; [left; reflexivity|]. intros z [<-|Hz] H; [exact H|].
      (* z in l, r z a: then r z m, so r m z, so r m a: contradiction *)
      pose proof (r_trans _ _ _ H E1) as Hzm. pose proof (Hmax z Hz Hzm) as Hmz.
      rewrite (r_trans _ _ _ Hmz H) in E2. discriminate.
    + exists m. split; [right; exact Hm|]. intros z [<-|Hz] H; [|apply Hmax; assumption].
      rewrite H in E. cbn [andb] in E. apply negb_false_iff in E. exact E.
Qed.

Lemma linear_extension : forall k (pts : list nat), length pts = k -> exists sg, Permutation pts sg /\ compat (rev sg) r.
Proof.
  induction k as [|k IH]; intros pts Hl.
  - destruct pts; [|discriminate]. exists []. split; [constructor| exact I].
  - assert (Hne : pts <> []) by (intros ->; discriminate).
    destruct (top_exists pts Hne) as [m [Hm Hmax]].
    destruct (in_split _ _ Hm) as [l1 [l2 ->]].
    destruct (IH (l1 ++ l2)) as [sg [Hp Hc]].
    { rewrite app_length in *. cbn [length] in Hl. lia. }
    exists (sg ++ [m]). split.
    + apply Permutation_sym. eapply Permutation_trans; [apply Permutation_app_comm|]. cbn [app].
      apply Permutation_sym. eapply Permutation_trans; [apply Permutation_sym; apply Permutation_middle|].
      constructor. exact Hp.
    + rewrite rev_app_distr. cbn [rev app compat]. split; [|exact Hc].
      intros z Hz H. apply Hmax; [|exact H]. apply in_rev in Hz. apply Permutation_sym in Hp. apply (Permutation_in _ Hp) in Hz.
      apply in_app_or in Hz. apply in_or_app. destruct Hz as [Hz|Hz]; [left; exact Hz| right; right; exact Hz].
Qed.
End LinExt.

(* every forest has a compatible order *)
Theorem forest_has_compatible_order pts r : wf pts r -> exists sg, Permutation pts sg /\ compat (rev sg) r.
Proof. intros Hwf. apply (linear_extension r (wf_trans _ _ Hwf) (length pts) pts eq_refl). Qed.

Theorem forests_spec n on t :
  In t (forests n on) <->
  t = tab n (tget t) /\ wf (seq 0 n) (tget t) /\ (on = false -> no_outliers (seq 0 n) (tget t)).
Proof.
  split.
  - intros H. apply in_forests in H. destruct H as [sg [w [Hsg [Hv ->]]]].
    destruct (reach_props n on sg w Hsg Hv) as [Hwf [_ [Htg Hno]]]. destruct (order_facts n sg Hsg) as [_ [_ Hin]].
    split; [|split].
    + symmetry. apply tab_ext. intros x y _ _. apply Htg.
    + apply (wf_ext _ sg _ (gle (grun g0 sg w))); [exact Htg| | exact Hwf]. intros x Hx. apply in_seq. apply Hin in Hx. lia.
    + intros Hon x Hx. rewrite Htg. apply (Hno Hon). apply Hin. apply in_seq in Hx. lia.
  - intros [Ht [Hwf Hno]]. destruct (forest_has_compatible_order _ _ Hwf) as [sg [Hp Hc]].
    assert (Hsg : In sg (gorders n)) by (apply perms_complete; [apply seq_NoDup| exact Hp]).
    destruct (order_facts n sg Hsg) as [Hnd [_ Hin]].
    destruct (grammar_complete on sg (tget t)) as [w [Hv Heq]].
    + exact Hnd.
    + apply (wf_ext _ (seq 0 n) _ (tget t)); [reflexivity| | exact Hwf]. intros x Hx. apply Hin. apply in_seq in Hx. lia.
    + intros Hon x Hx. apply (Hno Hon). apply in_seq. apply Hin in Hx. lia.
    + exact Hc.
    + apply in_forests. exists sg, w. split; [exact Hsg| split; [exact Hv|]].
      rewrite Ht. apply tab_ext. intros x y _ _. symmetry. apply Heq.
Qed.
