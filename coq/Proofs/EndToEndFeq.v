(* The end-to-end density is a function of the forest up to sibling order and the order of a clone's points: C02's root
   vectors are invariant under [teq] / [feq] (children permuted at every depth - C02_D_perm_invariant - and a clone's data
   multiplied in any order), hence so is dens_one / dens_marg (with C03's spec_equiv_invariant). *)
From PV Require Import Model.EndToEnd Proofs.PermProofs Proofs.DensityProofs Proofs.DensityEquiv Proofs.MarginalProofs Proofs.MarginalSums.
From Coq Require Import Bool Permutation.

Lemma qprod_perm l l' : Permutation l l' -> Marginal.qprod l = Marginal.qprod l'.
Proof. induction 1; cbn [Marginal.qprod]; [reflexivity| rewrite IHPermutation; reflexivity| ring| congruence]. Qed.

Lemma pvec_perm G ds ds' : Permutation ds ds' -> Marginal.pvec G ds = Marginal.pvec G ds'.
Proof.
  intros HP. apply (nth_ext _ _ 0 0); [rewrite !pvec_length; reflexivity|].
  intros i Hi. rewrite pvec_length in Hi. change (Marginal.vget (Marginal.pvec G ds) i = Marginal.vget (Marginal.pvec G ds') i).
  rewrite !pvec_nth by exact Hi. unfold Marginal.node_p. f_equal. apply qprod_perm. apply Permutation_map. exact HP.
Qed.

(* a node's vector depends on its data only through pvec and on its children only through the multiset of their vectors *)
Lemma R_node_congr G ds ds' (kl kl' : list Marginal.dtree) :
  Marginal.pvec G ds = Marginal.pvec G ds' -> Permutation (map (Marginal.R G) kl) (map (Marginal.R G) kl') ->
  Marginal.R G (Marginal.Node ds kl) = Marginal.R G (Marginal.Node ds' kl').
Proof.
  intros Hp HP. pose proof (Permutation_length HP) as Hl. rewrite !map_length in Hl.
  destruct kl as [|k r]; destruct kl' as [|k' r']; try discriminate Hl.
  - cbn [Marginal.R]. exact Hp.
  - change (Marginal.vmul G (Marginal.pvec G ds) (Marginal.logS G (map (Marginal.R G) (k :: r)))
            = Marginal.vmul G (Marginal.pvec G ds') (Marginal.logS G (map (Marginal.R G) (k' :: r')))).
    rewrite Hp. f_equal. unfold Marginal.logS. cbn [map] in *.
    change (Marginal.cumsum 0 (Marginal.D G (Marginal.R G k :: map (Marginal.R G) r))
            = Marginal.cumsum 0 (Marginal.D G (Marginal.R G k' :: map (Marginal.R G) r'))).
    f_equal. apply D_perm. exact HP.
Qed.

Section Inv.
Variables (G : nat) (D : nat -> dpoint) (s : nat).
Definition dtr (t : tree) : Marginal.dtree := Marginal.proj s (mtree_of D t).

Lemma dtr_node o ks : dtr (Node o ks) = Marginal.Node (map (fun i => nth s (dp_val (D i)) []) o) (map dtr ks).
Proof. unfold dtr. cbn [mtree_of Marginal.proj]. rewrite !map_map. reflexivity. Qed.

Lemma R_teq t t' : Density.teq t t' -> Marginal.R G (dtr t) = Marginal.R G (dtr t').
Proof.
  intros e. induction e as [o o' ks ks1 ks' Ho Hf IH Hp] using teq_ind'. rewrite !dtr_node. apply R_node_congr.
  - apply pvec_perm. apply Permutation_map. exact Ho.
  - rewrite !map_map. rewrite (Forall2_map_eq (fun k => Marginal.R G (dtr k)) ks ks1 IH).
    apply Permutation_map. exact Hp.
Qed.

Lemma root_R_leq l l' : leq l l' -> Marginal.root_R G (map dtr l) = Marginal.root_R G (map dtr l').
Proof.
  intros [l1 [Hf Hp]]. unfold Marginal.root_R. apply R_node_congr; [reflexivity|]. rewrite !map_map.
  assert (H : Forall2 (fun x y => Marginal.R G (dtr x) = Marginal.R G (dtr y)) l l1).
  { eapply Forall2_impl; [|exact Hf]. intros x y Hxy. apply R_teq. exact Hxy. }
  rewrite (Forall2_map_eq (fun k => Marginal.R G (dtr k)) l l1 H). apply Permutation_map. exact Hp.
Qed.
End Inv.

Theorem rootR_of_feq G nsamp D F F' : feq F F' -> rootR_of G nsamp D F = rootR_of G nsamp D F'.
Proof.
  intros [Hl _]. unfold rootR_of, Marginal.root_R_multi. apply map_ext. intros s. rewrite !map_map.
  apply (root_R_leq G D s). exact Hl.
Qed.

Theorem dens_feq alpha c G nsamp D F F' : feq F F' ->
  dens_one alpha c G nsamp D F = dens_one alpha c G nsamp D F' /\ dens_marg alpha G nsamp D F = dens_marg alpha G nsamp D F'.
Proof.
  intros HF. unfold dens_one, dens_marg. rewrite <- (rootR_of_feq G nsamp D F F' HF).
  destruct (spec_equiv_invariant alpha c D F F' (rootR_of G nsamp D F) HF) as [H1 H2]. split; [exact H2| exact H1].
Qed.
