(* Proofs for the chain-driver model (C19). *)
From PV Require Import Model.RunDriver.
Open Scope nat_scope.

Section Total.
Variables T R : Type.
Variables burn pg subtree dp prg : kernel T R.
Variable relabel : T -> T.
Variable coin : R -> bool * R.
Variable conc : R -> T -> Qc -> Qc * R.

(* "a well-formed tree over all the data points with a finite log_p_one" - abstract *)
Variable good : T -> Prop.
Definition total (k : kernel T R) : Prop :=
  forall r t, good t -> exists t' r', k r t = Some (t', r') /\ good t'.

(* External behaviour of the kernels, NOT proved here: each is the subject of another property.
   burn/pg: normalised proposals and a never-empty swarm (C08, C01); subtree, dp, prg: C04; all of them keep the
   forest well formed over the same data points (C07).  The pinned code violates H_pg_total and H_subtree_total
   on the two inputs exhibited in Properties/C19.v. *)
Hypothesis H_burn_total : total burn.
Hypothesis H_pg_total : total pg.
Hypothesis H_subtree_total : total subtree.
Hypothesis H_dp_total : total dp.
Hypothesis H_prg_total : total prg.
Hypothesis H_relabel_good : forall t, good t -> good (relabel t).

Lemma repeat_total k n : total k -> total (repeat_k T R k n).
Proof.
  intros Hk. induction n as [|n IH]; intros r t Hg; cbn [repeat_k].
  - exists t, r. split; [reflexivity|exact Hg].
  - destruct (Hk r t Hg) as (t' & r' & E & Hg'). rewrite E. apply IH. exact Hg'.
Qed.

Lemma burn_step_total nd np : total (burn_step T R burn dp prg relabel nd np).
Proof.
  intros r t Hg. unfold burn_step.
  destruct (H_burn_total r t Hg) as (t1 & r1 & E1 & G1). rewrite E1.
  destruct (repeat_total dp nd H_dp_total r1 t1 G1) as (t2 & r2 & E2 & G2). rewrite E2.
  destruct (repeat_total prg np H_prg_total r2 t2 G2) as (t3 & r3 & E3 & G3). rewrite E3.
  exists (relabel t3), r3. split; [reflexivity| apply H_relabel_good; exact G3].
Qed.

Lemma burn_loop_total fuel : forall i nd np stop r t, good t ->
  exists t' r', burn_loop T R burn dp prg relabel fuel i nd np stop r t = Some (t', r') /\ good t'.
Proof.
  induction fuel as [|f IH]; intros i nd np stop r t Hg; cbn [burn_loop].
  - exists t, r. split; [reflexivity|exact Hg].
  - destruct (burn_step_total nd np r t Hg) as (t' & r' & E & G). rewrite E.
    destruct (stop i).
    + exists t', r'. split; [reflexivity|exact G].
    + apply IH. exact G.
Qed.

Lemma main_step_total nd np upd r t alpha : good t ->
  exists t' a' r', main_step T R pg subtree dp prg relabel coin conc nd np upd r t alpha = Some (t', a', r') /\ good t'.
Proof.
  intros Hg. unfold main_step. destruct (coin r) as [b r0].
  assert (H1 : exists t1 r1, (if b then subtree r0 t else pg r0 t) = Some (t1, r1) /\ good t1).
  { destruct b; [apply H_subtree_total| apply H_pg_total]; exact Hg. }
  destruct H1 as (t1 & r1 & E1 & G1). rewrite E1.
  destruct (repeat_total dp nd H_dp_total r1 t1 G1) as (t2 & r2 & E2 & G2). rewrite E2.
  destruct (repeat_total prg np H_prg_total r2 t2 G2) as (t3 & r3 & E3 & G3). rewrite E3.
  destruct upd.
  - destruct (conc r3 (relabel t3) alpha) as [a' r4]. exists (relabel t3), a', r4.
    split; [reflexivity| apply H_relabel_good; exact G3].
  - exists (relabel t3), alpha, r3. split; [reflexivity| apply H_relabel_good; exact G3].
Qed.

Definition all_good (tr : list (entry T)) : Prop := Forall (fun e => good (e_tree e)) tr.

Lemma main_loop_total fuel : forall i thin nd np upd stop r t alpha tr,
  1 <= thin -> good t -> all_good tr ->
  exists tr', main_loop T R pg subtree dp prg relabel coin conc fuel i thin nd np upd stop r t alpha tr = Some tr'
              /\ all_good tr'.
Proof.
  induction fuel as [|f IH]; intros i thin nd np upd stop r t alpha tr Hthin Hg Htr; cbn [main_loop].
  - exists tr. split; [reflexivity|exact Htr].
  - destruct (main_step_total nd np upd r t alpha Hg) as (t' & a' & r' & E & G). rewrite E.
    destruct thin as [|th]; [lia|].
    set (tr' := if i mod S th =? 0 then tr ++ [mkE i a' t'] else tr).
    assert (Htr' : all_good tr').
    { unfold tr'. destruct (i mod S th =? 0); [|exact Htr].
      unfold all_good. apply Forall_app. split; [exact Htr|]. constructor; [exact G|constructor]. }
    destruct (stop i).
    + exists tr'. split; [reflexivity|exact Htr'].
    + apply IH; [lia|exact G|exact Htr'].
Qed.

(* the whole chain: never a crash, every recorded entry good - for every option combination *)
Theorem driver_total : forall burnin iters thin nd np upd stopb stopm r t0 alpha0,
  1 <= thin -> good t0 ->
  exists tr, run_chain T R burn pg subtree dp prg relabel coin conc burnin iters thin nd np upd stopb stopm r t0 alpha0
             = Some tr /\ all_good tr.
Proof.
  intros burnin iters thin nd np upd stopb stopm r t0 alpha0 Hthin Hg. unfold run_chain.
  destruct (burn_loop_total burnin 0 nd np stopb r t0 Hg) as (t & r' & E & G). rewrite E.
  apply main_loop_total; [exact Hthin|exact G|].
  constructor; [exact G|constructor].
Qed.

(* which iterations are recorded (independent of the kernels): setup_trace's entry 0, then i mod thin = 0 *)
Lemma main_loop_iters fuel : forall i thin nd np upd stop r t alpha tr tr',
  main_loop T R pg subtree dp prg relabel coin conc fuel i thin nd np upd stop r t alpha tr = Some tr' ->
  map e_iter tr' = map e_iter tr ++ iters_from fuel i thin stop.
Proof.
  induction fuel as [|f IH]; intros i thin nd np upd stop r t alpha tr tr' H; cbn [main_loop iters_from] in *.
  - injection H as <-. now rewrite app_nil_r.
  - destruct (main_step T R pg subtree dp prg relabel coin conc nd np upd r t alpha) as [[[t' a'] r']|]; [|discriminate].
    destruct thin as [|th]; [discriminate|].
    destruct (i mod S th =? 0); destruct (stop i).
    + injection H as <-. rewrite map_app. cbn [map e_iter]. now rewrite app_nil_r.
    + apply IH in H. rewrite H, map_app. cbn [map e_iter]. now rewrite <- app_assoc.
    + injection H as <-. cbn [app]. now rewrite app_nil_r.
    + apply IH in H. rewrite H. reflexivity.
Qed.

Theorem driver_iters : forall burnin iters thin nd np upd stopb stopm r t0 alpha0 tr,
  run_chain T R burn pg subtree dp prg relabel coin conc burnin iters thin nd np upd stopb stopm r t0 alpha0 = Some tr ->
  map e_iter tr = trace_iters iters thin stopm.
Proof.
  intros burnin iters thin nd np upd stopb stopm r t0 alpha0 tr H. unfold run_chain in H.
  destruct (burn_loop T R burn dp prg relabel burnin 0 nd np stopb r t0) as [[t r']|]; [|discriminate].
  apply main_loop_iters in H. rewrite H. reflexivity.
Qed.

(* thin = 0 is a crash at the first iteration (the command line only accepts thin >= 1) *)
Lemma thin_zero_crashes : forall burnin iters nd np upd stopb stopm r t0 alpha0,
  run_chain T R burn pg subtree dp prg relabel coin conc burnin (S iters) 0 nd np upd stopb stopm r t0 alpha0 = None.
Proof.
  intros. unfold run_chain.
  destruct (burn_loop T R burn dp prg relabel burnin 0 nd np stopb r t0) as [[t r']|]; [|reflexivity].
  cbn [main_loop].
  destruct (main_step T R pg subtree dp prg relabel coin conc nd np upd r' t alpha0) as [[[t' a'] r'']|]; reflexivity.
Qed.
End Total.

(* ---- the index model of the conditional SMC sweep ---------------------------------------------- *)
Lemma loop_reads_in_range fuel : forall it T trig i, In i (loop_reads fuel it T trig) -> i < path_len T.
Proof.
  induction fuel as [|f IH]; intros it T trig i H; cbn [loop_reads] in H; [contradiction|].
  destruct (it <? T) eqn:E; [|contradiction].
  apply Nat.ltb_lt in E. unfold path_len.
  destruct H as [<-|H]; [lia|]. apply in_app_or in H. destruct H as [H|H].
  - destruct ((it <? T - 1) && trig it); [|contradiction]. destruct H as [<-|[]]. lia.
  - eapply IH in H. exact H.
Qed.

Lemma reads_ok_spec T l : reads_ok T l = true <-> Forall (fun i => i < path_len T) l.
Proof.
  unfold reads_ok. rewrite forallb_forall, Forall_forall. split; intros H i Hi.
  - apply Nat.ltb_lt. auto.
  - apply Nat.ltb_lt. auto.
Qed.

(* the pinned indexing is in range for every resampling pattern iff not (one data point and initial resample) *)
Theorem pinned_reads_ok_iff T init trig : 1 <= T ->
  reads_ok T (sample_reads false T init trig) = true <-> ~ (T = 1 /\ init = true).
Proof.
  intros HT. rewrite reads_ok_spec. unfold sample_reads. split.
  - intros H [-> ->]. inversion H as [|? ? _ H1]. subst. cbn [app] in H1.
    inversion H1 as [|? ? H2 _]. subst. unfold path_len in H2. lia.
  - intros Hn. constructor; [unfold path_len; lia|]. apply Forall_app. split.
    + destruct init; [|constructor]. constructor; [|constructor]. unfold path_len.
      assert (T <> 1) by (intros ->; apply Hn; split; reflexivity). lia.
    + apply Forall_forall. intros i Hi. eapply loop_reads_in_range. exact Hi.
Qed.

(* with the retained particle taken from the swarm the sweep never indexes out of range *)
Theorem fixed_reads_ok T init trig : 1 <= T -> reads_ok T (sample_reads true T init trig) = true.
Proof.
  intros HT. rewrite reads_ok_spec. unfold sample_reads.
  constructor; [unfold path_len; lia|]. apply Forall_app. split.
  - destruct init; [|constructor]. constructor; [unfold path_len; lia|constructor].
  - apply Forall_forall. intros i Hi. eapply loop_reads_in_range. exact Hi.
Qed.

(* within the accepted range [0,1] the initial resample happens exactly at threshold 1 *)
Lemma init_trigger_iff (thr : Qc) : (thr <= 1)%Qc -> init_trigger thr = true <-> thr = 1%Qc.
Proof.
  intros Hle. unfold init_trigger. rewrite Qle_bool_iff. split.
  - intros H. apply Qcle_antisym; [exact Hle| exact H].
  - intros ->. apply Qle_refl.
Qed.

(* ---- the subtree pick ---------------------------------------------------------------------------- *)
Lemma non_outlier_nil_iff labels :
  non_outlier_labels labels = [] <-> forall p, In p labels -> snd p = None.
Proof.
  unfold non_outlier_labels. induction labels as [|[i [n|]] l IH]; cbn [flat_map snd app].
  - split; [intros _ p []| reflexivity].
  - split; [discriminate|]. intros H. specialize (H (i, Some n) (or_introl eq_refl)). discriminate.
  - rewrite IH. split.
    + intros H p [<-|Hp]; [reflexivity| apply H; exact Hp].
    + intros H p Hp. apply H. right. exact Hp.
Qed.

(* the pinned pick has total mass 1 iff some data point is not an outlier; otherwise all mass is lost (a crash) *)
Theorem pinned_pick_mass labels :
  (mass (subtree_pick false labels) = 1%Qc <-> exists p, In p labels /\ snd p <> None) /\
  ((forall p, In p labels -> snd p = None) -> subtree_pick false labels = []).
Proof.
  split.
  - unfold subtree_pick. destruct (non_outlier_labels labels) as [|n l] eqn:Enl.
    + split.
      * unfold mass; cbn [E]. intros H. exfalso. revert H. apply Qclt_not_eq. reflexivity.
      * intros (p & Hp & Hn). exfalso. apply Hn. apply (proj1 (non_outlier_nil_iff labels) Enl p Hp).
    + split.
      * intros _. destruct (non_outlier_nil_iff labels) as [_ H2].
        assert (Hex : ~ forall p, In p labels -> snd p = None) by (intros H; rewrite (H2 H) in Enl; discriminate).
        clear H2 Enl. induction labels as [|[i [m|]] ls IH].
        -- exfalso. apply Hex. intros p [].
        -- exists (i, Some m). split; [left; reflexivity| discriminate].
        -- destruct IH as (p & Hp & Hn).
           ++ intros H. apply Hex. intros p [<-|Hp]; [reflexivity| apply H; exact Hp].
           ++ exists p. split; [right; exact Hp| exact Hn].
      * intros _. unfold mass. rewrite E_dmap. apply (mass_uniform (n :: l)). discriminate.
  - intros H. unfold subtree_pick. rewrite (proj2 (non_outlier_nil_iff labels) H). reflexivity.
Qed.

Theorem fixed_pick_mass labels : mass (subtree_pick true labels) = 1%Qc.
Proof.
  unfold subtree_pick. destruct (non_outlier_labels labels) as [|n l].
  - unfold mass. rewrite E_ret. reflexivity.
  - unfold mass. rewrite E_dmap. apply (mass_uniform (n :: l)). discriminate.
Qed.
