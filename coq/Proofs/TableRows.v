(* Proofs about Model/Table.v (C12), part 2: every mutation once per sample, clusters share a clone,
   clone ids are Newick nodes, values are the clone's. *)
From PV Require Import Model.Table Proofs.TableProofs.
Local Open Scope Z_scope.

(* ---- small list facts ---- *)
Lemma nodup_app {A} (a b : list A) : NoDup a -> NoDup b -> (forall x, In x a -> ~ In x b) -> NoDup (a ++ b).
Proof.
  induction a as [|x a IH]; cbn [app]; intros Ha Hb Hd; [exact Hb|].
  inversion Ha as [|? ? Hx Ha']; subst. constructor.
  - intros Hin. apply in_app_or in Hin as [Hin|Hin]; [contradiction| apply (Hd x); [left; reflexivity| exact Hin]].
  - apply IH; [exact Ha'| exact Hb|]. intros y Hy. apply Hd. right; exact Hy.
Qed.
Lemma nodup_flat_map {K A} (f : K -> list A) (keys : list K) :
  NoDup keys -> (forall k, In k keys -> NoDup (f k)) ->
  (forall k k' x, In k keys -> In k' keys -> In x (f k) -> In x (f k') -> k = k') ->
  NoDup (flat_map f keys).
Proof.
  induction keys as [|k keys IH]; cbn [flat_map]; intros Hk Hf Hd; [constructor|].
  inversion Hk as [|? ? Hn Hk']; subst. apply nodup_app.
  - apply Hf. left; reflexivity.
  - apply IH; [exact Hk'| intros k' Hk''; apply Hf; right; exact Hk''|].
    intros a b x Ha Hb. apply Hd; right; assumption.
  - intros x Hx Hin. apply in_flat_map in Hin as [k' [Hk'' Hx']].
    assert (k = k') by (apply (Hd k k' x); [left; reflexivity| right; exact Hk''| exact Hx| exact Hx']).
    subst k'. contradiction.
Qed.
Lemma nodup_map_filter {A B} (f : A -> B) (p : A -> bool) (l : list A) :
  NoDup (map f l) -> NoDup (map f (filter p l)).
Proof.
  induction l as [|a l IH]; cbn [map filter]; intros H; [constructor|].
  inversion H as [|? ? Hn H']; subst. destruct (p a); cbn [map]; [|now apply IH].
  constructor; [|now apply IH]. intros Hin. apply Hn. apply in_map_iff in Hin as [b [Hb Hin]].
  apply filter_In in Hin as [Hin _]. apply in_map_iff. exists b. split; assumption.
Qed.
Lemma nodup_fst_functional {A B} (l : list (A * B)) a b b' :
  NoDup (map fst l) -> In (a, b) l -> In (a, b') l -> b = b'.
Proof.
  induction l as [|[x y] l IH]; cbn [map fst]; intros Hn H1 H2; [destruct H1|].
  inversion Hn as [|? ? Hx Hn']; subst. destruct H1 as [H1|H1], H2 as [H2|H2].
  - congruence.
  - injection H1 as -> ->. exfalso. apply Hx. apply in_map_iff. exists (a, b'). split; [reflexivity| exact H2].
  - injection H2 as -> ->. exfalso. apply Hx. apply in_map_iff. exists (a, b). split; [reflexivity| exact H1].
  - now apply IH.
Qed.
Lemma count_one {A} (f : A -> nat) (l : list A) x : NoDup (map f l) -> In x (map f l) ->
  length (filter (fun a => Nat.eqb (f a) x) l) = 1%nat.
Proof.
  induction l as [|a l IH]; cbn [map filter]; intros Hn Hin; [destruct Hin|].
  inversion Hn as [|? ? Ha Hn']; subst. destruct (Nat.eqb (f a) x) eqn:E.
  - apply Nat.eqb_eq in E. subst x. cbn [length]. f_equal.
    assert (Hz : forall l', ~ In (f a) (map f l') -> filter (fun a0 => Nat.eqb (f a0) (f a)) l' = []).
    { induction l' as [|b l' IHl]; cbn [map filter]; intros Hb; [reflexivity|].
      destruct (Nat.eqb (f b) (f a)) eqn:Eb; [apply Nat.eqb_eq in Eb; exfalso; apply Hb; left; exact Eb|].
      apply IHl. intros H. apply Hb. right; exact H. }
    now rewrite Hz.
  - apply IH; [exact Hn'|]. destruct Hin as [Hin|Hin]; [apply Nat.eqb_neq in E; contradiction| exact Hin].
Qed.
Lemma memn_in x l : memn x l = true <-> In x l.
Proof.
  unfold memn. rewrite existsb_exists. split.
  - intros [y [Hy E]]. apply Nat.eqb_eq in E. now subst.
  - intros H. exists x. split; [exact H| apply Nat.eqb_refl].
Qed.
Lemma nodup_map_nth (data : list nat) (idxs : list nat) :
  NoDup data -> NoDup idxs -> (forall i, In i idxs -> (i < length data)%nat) ->
  NoDup (map (fun i => nth i data 0%nat) idxs).
Proof.
  intros Hd. induction idxs as [|i idxs IH]; cbn [map]; intros Hn Hb; [constructor|].
  inversion Hn as [|? ? Hi Hn']; subst. constructor.
  - intros Hin. apply in_map_iff in Hin as [j [Hj Hin]]. apply Hi.
    replace i with j; [exact Hin|].
    apply (proj1 (NoDup_nth data 0%nat) Hd); [apply Hb; right; exact Hin| apply Hb; left; reflexivity| exact Hj].
  - apply IH; [exact Hn'|]. intros j Hj. apply Hb. right; exact Hj.
Qed.

(* ---- labels of a tree ---- *)
Lemma labels_fst t : map fst (labels t) = tree_points t.
Proof.
  unfold labels, tree_points. rewrite map_app, map_map. cbn [fst]. rewrite map_id. f_equal.
  induction (all_nodes t) as [|n l IH]; cbn [flat_map map]; [reflexivity|].
  rewrite map_app, IH, map_map. cbn [fst]. now rewrite map_id.
Qed.

Definition wf_tree (data : list nat) (t : tree) : Prop :=
  NoDup data /\ NoDup (tree_points t) /\ forall i, In i (tree_points t) -> (i < length data)%nat.

(* ---- unclustered: mutation ids of the labels table = the data names, each once ---- *)
Lemma unclustered_muts data t : wf_tree data t ->
  NoDup (map l_mut (labels_unclustered data t))
  /\ forall m, In m (map l_mut (labels_unclustered data t)) <-> In m data.
Proof.
  intros (Hd & Hp & Hb). unfold labels_unclustered.
  set (rows1 := map (fun p => mkL (nth (fst p) data 0%nat) (snd p) None) (labels t)).
  assert (Hseen : map l_mut rows1 = map (fun i => nth i data 0%nat) (tree_points t)).
  { unfold rows1. rewrite map_map. cbn [l_mut]. rewrite <- labels_fst, map_map. reflexivity. }
  rewrite map_app, map_map. cbn [l_mut]. rewrite map_id. split.
  - apply nodup_app.
    + rewrite Hseen. now apply nodup_map_nth.
    + now apply NoDup_filter.
    + intros x Hx Hin. apply filter_In in Hin as [_ Hn]. apply negb_true_iff in Hn.
      apply memn_in in Hx. congruence.
  - intros m. rewrite in_app_iff, filter_In, negb_true_iff. split.
    + intros [H|[H _]]; [|exact H]. rewrite Hseen in H. apply in_map_iff in H as [i [<- Hi]].
      apply nth_In, Hb, Hi.
    + intros H. destruct (memn m (map l_mut rows1)) eqn:E; [left; now apply memn_in| right; split; [exact H| reflexivity]].
Qed.

(* ---- clustered ---- *)
Definition wf_clusters (clusters : list (nat * nat)) : Prop := NoDup (map fst clusters).

Lemma in_cluster_muts clusters c m : In m (cluster_muts clusters c) <-> In (m, c) clusters.
Proof.
  unfold cluster_muts. rewrite nodup_In, in_map_iff. split.
  - intros [[m' c'] [Hm Hin]]. cbn [fst] in Hm. subst m'. apply filter_In in Hin as [Hin Hc]. cbn [snd] in Hc.
    apply Nat.eqb_eq in Hc. now subst.
  - intros H. exists (m, c). split; [reflexivity|]. apply filter_In. split; [exact H| cbn [snd]; apply Nat.eqb_refl].
Qed.

Lemma clustered_rows1_muts data clusters t :
  map l_mut (flat_map (fun p => map (fun m => mkL m (snd p) (Some (nth (fst p) data 0%nat))) (cluster_muts clusters (nth (fst p) data 0%nat))) (labels t))
  = flat_map (cluster_muts clusters) (map (fun i => nth i data 0%nat) (tree_points t)).
Proof.
  rewrite <- labels_fst. induction (labels t) as [|p l IH]; cbn [flat_map map]; [reflexivity|].
  rewrite map_app, IH, map_map. cbn [l_mut]. now rewrite map_id.
Qed.

Lemma clustered_muts data clusters t : wf_tree data t -> wf_clusters clusters ->
  NoDup (map l_mut (labels_clustered data clusters t))
  /\ forall m, In m (map l_mut (labels_clustered data clusters t)) <->
               (In m (map fst clusters)
                \/ exists i, In i (tree_points t) /\ In (m, nth i data 0%nat) clusters).
Proof.
  intros (Hd & Hp & Hb) Hc. unfold labels_clustered.
  set (rows1 := flat_map _ (labels t)).
  assert (Hseen : map l_mut rows1 = flat_map (cluster_muts clusters) (map (fun i => nth i data 0%nat) (tree_points t)))
    by apply clustered_rows1_muts.
  rewrite map_app, map_map. cbn [l_mut]. split.
  - apply nodup_app.
    + rewrite Hseen. apply nodup_flat_map.
      * now apply nodup_map_nth.
      * intros k _. unfold cluster_muts. apply NoDup_nodup.
      * intros k k' x _ _ H1 H2. apply in_cluster_muts in H1, H2.
        exact (nodup_fst_functional clusters x k k' Hc H1 H2).
    + now apply nodup_map_filter.
    + intros x Hx Hin. apply in_map_iff in Hin as [r [<- Hr]]. apply filter_In in Hr as [_ Hn].
      apply negb_true_iff in Hn. apply memn_in in Hx. congruence.
  - intros m. rewrite in_app_iff. split.
    + intros [H|H].
      * rewrite Hseen in H. apply in_flat_map in H as [c [Hc' Hm]]. apply in_map_iff in Hc' as [i [<- Hi]].
        apply in_cluster_muts in Hm. left. apply in_map_iff. exists (m, nth i data 0%nat). split; [reflexivity| exact Hm].
      * apply in_map_iff in H as [r [<- Hr]]. apply filter_In in Hr as [Hr _]. left. now apply in_map.
    + intros [H|[i [Hi Hm]]].
      * destruct (memn m (map l_mut rows1)) eqn:E; [left; now apply memn_in|]. right.
        apply in_map_iff in H as [r [<- Hr]]. apply in_map_iff. exists r. split; [reflexivity|].
        apply filter_In. split; [exact Hr| now rewrite E].
      * left. rewrite Hseen. apply in_flat_map. exists (nth i data 0%nat). split; [apply (in_map (fun i => nth i data 0%nat)), Hi| now apply in_cluster_muts].
Qed.

(* every cluster has one clone *)
Lemma clustered_share data clusters t : wf_tree data t -> wf_clusters clusters ->
  forall r1 r2, In r1 (labels_clustered data clusters t) -> In r2 (labels_clustered data clusters t) ->
  l_cluster r1 = l_cluster r2 -> l_clone r1 = l_clone r2.
Proof.
  intros (Hd & Hp & Hb) Hc.
  assert (Hrow1 : forall r, In r (flat_map (fun p => map (fun m => mkL m (snd p) (Some (nth (fst p) data 0%nat))) (cluster_muts clusters (nth (fst p) data 0%nat))) (labels t)) ->
            exists i cl, In (i, cl) (labels t) /\ l_clone r = cl /\ l_cluster r = Some (nth i data 0%nat)
                         /\ In (l_mut r, nth i data 0%nat) clusters).
  { intros r Hr. apply in_flat_map in Hr as [[i cl] [Hl Hr]]. cbn [fst snd] in Hr.
    apply in_map_iff in Hr as [m [<- Hm]]. exists i, cl. cbn [l_clone l_cluster l_mut].
    repeat split; try assumption. now apply in_cluster_muts. }
  assert (Hrow2 : forall r, In r (map (fun r => mkL (fst r) (-1) (Some (snd r)))
              (filter (fun r => negb (memn (fst r) (map l_mut (flat_map (fun p => map (fun m => mkL m (snd p) (Some (nth (fst p) data 0%nat))) (cluster_muts clusters (nth (fst p) data 0%nat))) (labels t))))) clusters)) ->
            l_clone r = -1 /\ exists c, l_cluster r = Some c /\ In (l_mut r, c) clusters
              /\ ~ In (l_mut r) (flat_map (cluster_muts clusters) (map (fun i => nth i data 0%nat) (tree_points t)))).
  { intros r Hr. apply in_map_iff in Hr as [[m c] [<- Hm]]. apply filter_In in Hm as [Hm Hn]. cbn [fst snd] in *.
    split; [reflexivity|]. exists c. split; [reflexivity|]. split; [exact Hm|].
    apply negb_true_iff in Hn. rewrite clustered_rows1_muts in Hn. cbn [l_mut]. intros Hin. apply memn_in in Hin. congruence. }
  assert (Hlab : forall i cl, In (i, cl) (labels t) -> In i (tree_points t))
    by (intros i cl H; rewrite <- labels_fst; apply in_map_iff; exists (i, cl); split; [reflexivity| exact H]).
  intros r1 r2 H1 H2 Hcl. unfold labels_clustered in H1, H2.
  apply in_app_or in H1 as [H1|H1], H2 as [H2|H2].
  - apply Hrow1 in H1 as (i & cl & Hl & <- & Hc1 & _). apply Hrow1 in H2 as (j & cl' & Hl' & <- & Hc2 & _).
    rewrite Hc1, Hc2 in Hcl. injection Hcl as Hnth.
    assert (i = j) by (apply (proj1 (NoDup_nth data 0%nat) Hd); [eapply Hb, Hlab; eassumption| eapply Hb, Hlab; eassumption| exact Hnth]).
    subst j. apply (nodup_fst_functional (labels t) i); [rewrite labels_fst; exact Hp| exact Hl| exact Hl'].
  - exfalso. apply Hrow1 in H1 as (i & cl & Hl & _ & Hc1 & _). apply Hrow2 in H2 as (_ & c & Hc2 & Hin & Hnot).
    rewrite Hc1, Hc2 in Hcl. injection Hcl as <-. apply Hnot. apply in_flat_map.
    exists (nth i data 0%nat). split; [apply (in_map (fun i => nth i data 0%nat)); eapply Hlab; eassumption| now apply in_cluster_muts].
  - exfalso. apply Hrow1 in H2 as (i & cl & Hl & _ & Hc1 & _). apply Hrow2 in H1 as (_ & c & Hc2 & Hin & Hnot).
    rewrite Hc1, Hc2 in Hcl. injection Hcl as ->. apply Hnot. apply in_flat_map.
    exists (nth i data 0%nat). split; [apply (in_map (fun i => nth i data 0%nat)); eapply Hlab; eassumption| now apply in_cluster_muts].
  - apply Hrow2 in H1 as [-> _]. apply Hrow2 in H2 as [-> _]. reflexivity.
Qed.

(* clone ids of the labels table: -1 or a node label *)
Lemma labels_table_clone data clusters t r : In r (labels_table data clusters t) ->
  l_clone r = -1 \/ exists l, In l (node_labels t) /\ l_clone r = Z.of_nat l.
Proof.
  assert (Hl : forall i c, In (i, c) (labels t) -> c = -1 \/ exists l, In l (node_labels t) /\ c = Z.of_nat l).
  { intros i c H. apply labels_clone in H as [[-> _]|(n & Hn & -> & _)]; [left; reflexivity|].
    right. exists (lbl n). split; [now apply in_map| reflexivity]. }
  destruct clusters as [cl|]; cbn [labels_table].
  - unfold labels_clustered. intros H. apply in_app_or in H as [H|H].
    + apply in_flat_map in H as [[i c] [Hic H]]. apply in_map_iff in H as [m [<- _]]. cbn [l_clone snd]. eapply Hl, Hic.
    + apply in_map_iff in H as [x [<- _]]. left; reflexivity.
  - unfold labels_unclustered. intros H. apply in_app_or in H as [H|H].
    + apply in_map_iff in H as [[i c] [<- Hic]]. cbn [l_clone snd]. eapply Hl, Hic.
    + apply in_map_iff in H as [x [<- _]]. left; reflexivity.
Qed.

(* ---- the clone table ---- *)
Lemma clone_row_fields d r js :
  c_mut (clone_row d r js) = l_mut r /\ c_clone (clone_row d r js) = l_clone r
  /\ c_cluster (clone_row d r js) = l_cluster r /\ c_sample (clone_row d r js) = snd js.
Proof. unfold clone_row. destruct (lookup (l_clone r) d); repeat split. Qed.

Lemma in_index_from {A} (l : list A) : forall k i e,
  In (i, e) (index_from k l) <-> (k <= i)%nat /\ nth_error l (i - k) = Some e.
Proof.
  induction l as [|x l IH]; intros k i e; cbn [index_from In].
  - split; [tauto|]. intros [_ H]. destruct (i - k)%nat; discriminate.
  - rewrite IH. split.
    + intros [H|[H1 H2]].
      * injection H as <- <-. split; [lia|]. now rewrite Nat.sub_diag.
      * split; [lia|]. replace (i - k)%nat with (S (i - S k)) by lia. exact H2.
    + intros [H1 H2]. destruct (Nat.eq_dec i k) as [->|Hne].
      * left. rewrite Nat.sub_diag in H2. cbn in H2. now injection H2 as <-.
      * right. split; [lia|]. replace (i - k)%nat with (S (i - S k)) in H2 by lia. exact H2.
Qed.
Lemma index_from_snd {A} (l : list A) k : map snd (index_from k l) = l.
Proof. revert k. induction l as [|x l IH]; intros k; cbn [index_from map snd]; [reflexivity| now rewrite IH]. Qed.

Lemma count_rows_one_row d r m s (js : list (nat * nat)) :
  count_rows m s (map (clone_row d r) js) =
  if Nat.eqb (l_mut r) m then length (filter (fun x => Nat.eqb x s) (map snd js)) else 0%nat.
Proof.
  unfold count_rows. induction js as [|j js IH]; cbn [map filter].
  - destruct (Nat.eqb (l_mut r) m); reflexivity.
  - destruct (clone_row_fields d r j) as (E1 & _ & _ & E4). rewrite E1, E4.
    destruct (Nat.eqb (l_mut r) m) eqn:Em; cbn [andb].
    + destruct (Nat.eqb (snd j) s); cbn [length]; now rewrite IH.
    + exact IH.
Qed.
Lemma count_rows_table d samples lt m s :
  count_rows m s (clone_table d samples lt) =
  (length (filter (fun r => Nat.eqb (l_mut r) m) lt) * length (filter (fun x => Nat.eqb x s) samples))%nat.
Proof.
  unfold clone_table. induction lt as [|r lt IH]; cbn [flat_map filter]; [reflexivity|].
  unfold count_rows in *. rewrite filter_app, app_length, IH.
  pose proof (count_rows_one_row d r m s (index_from 0%nat samples)) as H1. unfold count_rows in H1.
  rewrite H1, index_from_snd. destruct (Nat.eqb (l_mut r) m); cbn [length]; lia.
Qed.

Theorem each_once_general d samples lt m s :
  NoDup (map l_mut lt) -> NoDup samples -> In m (map l_mut lt) -> In s samples ->
  count_rows m s (clone_table d samples lt) = 1%nat.
Proof.
  intros Hl Hs Hm Hin. rewrite count_rows_table, (count_one l_mut lt m Hl Hm).
  rewrite <- (map_id samples) in Hs, Hin. rewrite (count_one (fun x => x) samples s Hs Hin). reflexivity.
Qed.
Lemma table_muts d samples lt row : In row (clone_table d samples lt) ->
  exists r j s, In r lt /\ nth_error samples j = Some s /\ row = clone_row d r (j, s).
Proof.
  unfold clone_table. intros H. apply in_flat_map in H as [r [Hr H]]. apply in_map_iff in H as [[j s] [<- Hj]].
  apply in_index_from in Hj as [_ Hj]. rewrite Nat.sub_0_r in Hj.
  exists r, j, s. repeat split; assumption.
Qed.

(* ---- values ---- *)
Lemma lookup_fixed (vals : vals_t) (ls : list nat) l : In l ls ->
  lookup (Z.of_nat l) (map (fun l => (l, vals l)) ls) = Some (vals l).
Proof.
  induction ls as [|a ls IH]; cbn [map lookup]; intros H; [destruct H|].
  destruct (Z.eqb (Z.of_nat a) (Z.of_nat l)) eqn:E.
  - apply Z.eqb_eq, Nat2Z.inj in E. now subst.
  - destruct H as [->|H]; [rewrite Z.eqb_refl in E; discriminate| now apply IH].
Qed.
Lemma lookup_minus_one (vals : vals_t) (ls : list nat) : lookup (-1) (map (fun l => (l, vals l)) ls) = None.
Proof.
  induction ls as [|a ls IH]; cbn [map lookup]; [reflexivity|].
  destruct (Z.eqb (Z.of_nat a) (-1)) eqn:E; [apply Z.eqb_eq in E; lia| exact IH].
Qed.

Theorem values_fixed data clusters samples (vals : vals_t) t row :
  In row (fst (result_fixed data clusters samples vals t)) ->
  (c_clone row = -1 /\ c_ccf row = minus_one /\ c_prev row = minus_one)
  \/ exists l j, c_clone row = Z.of_nat l /\ In l (node_labels t)
                 /\ nth_error samples j = Some (c_sample row)
                 /\ c_ccf row = nth j (fst (vals l)) 0%Qc /\ c_prev row = nth j (snd (vals l)) 0%Qc.
Proof.
  unfold result_fixed. cbn [fst]. intros H. apply table_muts in H as (r & j & s & Hr & Hj & ->).
  destruct (labels_table_clone data clusters t r Hr) as [E|(l & Hl & E)]; unfold clone_row, ccf_dicts_fixed; rewrite E.
  - left. rewrite lookup_minus_one. cbn [c_clone c_ccf c_prev]. repeat split.
  - right. rewrite (lookup_fixed vals _ l Hl). exists l, j. cbn [c_clone c_ccf c_prev c_sample fst snd].
    repeat split; try assumption.
Qed.

(* whatever the pinned code writes is what the repaired code writes *)
Lemma result_some data clusters samples vals t x :
  result data clusters samples vals t = Some x -> x = result_fixed data clusters samples vals t.
Proof.
  unfold result, ccf_dicts, result_fixed, ccf_dicts_fixed. destruct (convert_ok t); [|discriminate].
  intros H. now injection H as <-.
Qed.

Theorem each_once_unclustered data samples vals t : wf_tree data t -> NoDup samples ->
  let tb := fst (result_fixed data None samples vals t) in
  (forall m s, In m data -> In s samples -> count_rows m s tb = 1%nat)
  /\ (forall row, In row tb -> In (c_mut row) data /\ In (c_sample row) samples).
Proof.
  intros Hw Hs tb. destruct (unclustered_muts data t Hw) as [Hn Hm]. split.
  - intros m s Hmd Hss. apply each_once_general; [exact Hn| exact Hs| now apply Hm| exact Hss].
  - intros row Hrow. unfold tb, result_fixed in Hrow. cbn [fst labels_table] in Hrow.
    apply table_muts in Hrow as (r & j & s & Hr & Hj & ->).
    destruct (clone_row_fields (ccf_dicts_fixed vals t) r (j, s)) as (E1 & _ & _ & E4). rewrite E1, E4. cbn [snd]. split.
    + apply Hm. now apply in_map.
    + eapply nth_error_In, Hj.
Qed.

Theorem each_once_clustered data clusters samples vals t : wf_tree data t -> wf_clusters clusters -> NoDup samples ->
  let tb := fst (result_fixed data (Some clusters) samples vals t) in
  (forall m s, In m (map fst clusters) -> In s samples -> count_rows m s tb = 1%nat)
  /\ (forall row, In row tb -> In (c_mut row) (map fst clusters) /\ In (c_sample row) samples).
Proof.
  intros Hw Hc Hs tb. destruct (clustered_muts data clusters t Hw Hc) as [Hn Hm]. split.
  - intros m s Hmd Hss. apply each_once_general; [exact Hn| exact Hs| apply Hm; left; exact Hmd| exact Hss].
  - intros row Hrow. unfold tb, result_fixed in Hrow. cbn [fst labels_table] in Hrow.
    apply table_muts in Hrow as (r & j & s & Hr & Hj & ->).
    destruct (clone_row_fields (ccf_dicts_fixed vals t) r (j, s)) as (E1 & _ & _ & E4). rewrite E1, E4. cbn [snd]. split.
    + assert (Hin : In (l_mut r) (map l_mut (labels_clustered data clusters t))) by now apply in_map.
      apply Hm in Hin as [Hin|[i [_ Hin]]]; [exact Hin|].
      apply in_map_iff. exists (l_mut r, nth i data 0%nat). split; [reflexivity| exact Hin].
    + eapply nth_error_In, Hj.
Qed.

Theorem clone_ids_in_newick data clusters samples vals t row :
  In row (fst (result_fixed data clusters samples vals t)) ->
  c_clone row = -1 \/ exists l, c_clone row = Z.of_nat l /\ In (Some l) (nw_labels (snd (result_fixed data clusters samples vals t))).
Proof.
  unfold result_fixed. cbn [fst snd]. intros H. apply table_muts in H as (r & j & s & Hr & Hj & ->).
  destruct (clone_row_fields (ccf_dicts_fixed vals t) r (j, s)) as (_ & E2 & _). rewrite E2.
  destruct (labels_table_clone data clusters t r Hr) as [E|(l & Hl & E)]; [left; exact E|].
  right. exists l. split; [exact E|]. rewrite nw_labels_newick. right. now apply in_map.
Qed.

Theorem cluster_shares_clone data clusters samples vals t : wf_tree data t -> wf_clusters clusters ->
  forall r1 r2, In r1 (fst (result_fixed data (Some clusters) samples vals t)) ->
                In r2 (fst (result_fixed data (Some clusters) samples vals t)) ->
                c_cluster r1 = c_cluster r2 -> c_clone r1 = c_clone r2.
Proof.
  intros Hw Hc r1 r2 H1 H2. unfold result_fixed in H1, H2. cbn [fst labels_table] in H1, H2.
  apply table_muts in H1 as (a & j1 & s1 & Ha & _ & ->). apply table_muts in H2 as (b & j2 & s2 & Hb & _ & ->).
  destruct (clone_row_fields (ccf_dicts_fixed vals t) a (j1, s1)) as (_ & A2 & A3 & _).
  destruct (clone_row_fields (ccf_dicts_fixed vals t) b (j2, s2)) as (_ & B2 & B3 & _).
  rewrite A2, A3, B2, B3. now apply (clustered_share data clusters t Hw Hc).
Qed.
