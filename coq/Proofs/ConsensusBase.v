(* Proofs about Model/Consensus.v (C16), part 1: boolean reflections, canonical clades, the majority
   (pigeonhole) arguments for counts and for normalised weights. *)
From PV Require Import Model.Consensus.
From Coq Require Import Sorted Permutation.
Local Open Scope nat_scope.

(* ---- reflections ---- *)
Lemma clade_eqb_eq a b : clade_eqb a b = true <-> a = b.
Proof.
  revert b. induction a as [|x a IH]; intros [|y b]; cbn [clade_eqb]; try (split; [discriminate| congruence]).
  - split; reflexivity.
  - rewrite andb_true_iff, Nat.eqb_eq, IH. split; [intros [-> ->]; reflexivity| intros H; injection H; auto].
Qed.
Lemma clade_eqb_refl a : clade_eqb a a = true.
Proof. now apply clade_eqb_eq. Qed.
Lemma clade_eqb_neq a b : clade_eqb a b = false <-> a <> b.
Proof.
  split.
  - intros H E. apply clade_eqb_eq in E. congruence.
  - intros H. destruct (clade_eqb a b) eqn:E; [apply clade_eqb_eq in E; contradiction| reflexivity].
Qed.
Lemma memb_in x c : memb x c = true <-> In x c.
Proof.
  unfold memb. rewrite existsb_exists. split.
  - intros [y [Hy E]]. apply Nat.eqb_eq in E. now subst.
  - intros H. exists x. split; [exact H| apply Nat.eqb_refl].
Qed.
Lemma memb_false x c : memb x c = false <-> ~ In x c.
Proof.
  split.
  - intros H Hin. apply memb_in in Hin. congruence.
  - intros H. destruct (memb x c) eqn:E; [apply memb_in in E; contradiction| reflexivity].
Qed.
Lemma subset_incl a b : subset a b = true <-> incl a b.
Proof.
  unfold subset. rewrite forallb_forall. split.
  - intros H x Hx. apply memb_in. now apply H.
  - intros H x Hx. apply memb_in. now apply H.
Qed.
Lemma disjointb_spec a b : disjointb a b = true <-> forall x, In x a -> ~ In x b.
Proof.
  unfold disjointb. rewrite forallb_forall. split.
  - intros H x Hx. apply memb_false. specialize (H x Hx). now apply negb_true_iff in H.
  - intros H x Hx. apply negb_true_iff, memb_false. now apply H.
Qed.
Lemma has_in c t : has c t = true <-> In c t.
Proof.
  unfold has. rewrite existsb_exists. split.
  - intros [y [Hy E]]. apply clade_eqb_eq in E. now subst.
  - intros H. exists c. split; [exact H| apply clade_eqb_refl].
Qed.

Lemma in_dedup c l : In c (dedup l) <-> In c l.
Proof.
  induction l as [|a l IH]; cbn [dedup]; [tauto|].
  destruct (has a l) eqn:E; cbn [In]; rewrite IH.
  - apply has_in in E. split; [tauto|]. intros [<-|H]; assumption.
  - tauto.
Qed.
Lemma nodup_dedup l : NoDup (dedup l).
Proof.
  induction l as [|a l IH]; cbn [dedup]; [constructor|].
  destruct (has a l) eqn:E; [exact IH|]. constructor; [|exact IH].
  rewrite in_dedup. intros H. apply has_in in H. congruence.
Qed.
Lemma dedup_nodup l : NoDup l -> dedup l = l.
Proof.
  induction 1 as [|a l Hn _ IH]; cbn [dedup]; [reflexivity|].
  destruct (has a l) eqn:E; [apply has_in in E; contradiction| now rewrite IH].
Qed.

Lemma Qc_ltb_lt (a b : Qc) : Qc_ltb a b = true <-> (a < b)%Qc.
Proof.
  unfold Qc_ltb, Qclt. rewrite negb_true_iff. split.
  - intros H. apply Qnot_le_lt. intros Hle. apply Qle_bool_iff in Hle. congruence.
  - intros H. destruct (Qle_bool (this b) (this a)) eqn:E; [|reflexivity].
    apply Qle_bool_iff in E. exfalso. exact (Qlt_not_le _ _ H E).
Qed.

(* ---- canonical clades: strictly increasing, non-empty ---- *)
Definition wfc (c : clade) : Prop := c <> [] /\ StronglySorted lt c.
Definition wfF (F : list clade) : Prop := Forall wfc F.

Lemma ssorted_nodup c : StronglySorted lt c -> NoDup c.
Proof.
  induction 1 as [|x c _ IH Hf]; constructor; [|exact IH].
  intros Hin. rewrite Forall_forall in Hf. specialize (Hf x Hin). lia.
Qed.
Lemma sorted_ext a : forall b, StronglySorted lt a -> StronglySorted lt b ->
  (forall x, In x a <-> In x b) -> a = b.
Proof.
  induction a as [|x a IH]; intros [|y b] Ha Hb H.
  - reflexivity.
  - exfalso. apply (proj2 (H y)). left; reflexivity.
  - exfalso. apply (proj1 (H x)). left; reflexivity.
  - apply StronglySorted_inv in Ha as [Ha Hfa]. apply StronglySorted_inv in Hb as [Hb Hfb].
    rewrite Forall_forall in Hfa, Hfb.
    assert (x = y).
    { destruct (proj1 (H x) (or_introl eq_refl)) as [E|Hx]; [now symmetry|].
      destruct (proj2 (H y) (or_introl eq_refl)) as [E|Hy]; [exact E|].
      specialize (Hfa y Hy). specialize (Hfb x Hx). lia. }
    subst y. f_equal. apply IH; [assumption| assumption|].
    intros z. split; intros Hz.
    + destruct (proj1 (H z) (or_intror Hz)) as [E|Hz']; [|exact Hz'].
      subst z. specialize (Hfa x Hz). lia.
    + destruct (proj2 (H z) (or_intror Hz)) as [E|Hz']; [|exact Hz'].
      subst z. specialize (Hfb x Hz). lia.
Qed.
Lemma wfc_ext a b : wfc a -> wfc b -> incl a b -> incl b a -> a = b.
Proof. intros [_ Ha] [_ Hb] H1 H2. apply sorted_ext; [assumption| assumption|]. intros x; split; auto. Qed.
Lemma same_len_eq a b : wfc a -> wfc b -> incl a b -> length a = length b -> a = b.
Proof.
  intros Ha Hb Hi Hl. apply wfc_ext; [assumption| assumption| exact Hi|].
  apply NoDup_length_incl; [apply ssorted_nodup, Ha| lia| exact Hi].
Qed.
Lemma strict_subset_length a b : wfc a -> wfc b -> incl a b -> a <> b -> length a < length b.
Proof.
  intros Ha Hb Hi Hne.
  assert (length a <= length b) by (apply NoDup_incl_length; [apply ssorted_nodup, Ha| exact Hi]).
  destruct (Nat.eq_dec (length a) (length b)) as [E|E]; [|lia].
  exfalso. apply Hne. now apply same_len_eq.
Qed.

(* ---- pigeonhole, counting version ---- *)
Lemma pigeon {A} (f g : A -> bool) (l : list A) :
  length l < length (filter f l) + length (filter g l) ->
  exists x, In x l /\ f x = true /\ g x = true.
Proof.
  induction l as [|a l IH]; cbn [filter length]; [lia|].
  destruct (f a) eqn:Ef, (g a) eqn:Eg; cbn [length]; intros H.
  - exists a. split; [left; reflexivity| split; assumption].
  - destruct IH as [x [Hx Hfg]]; [lia|]. exists x. split; [right; exact Hx| exact Hfg].
  - destruct IH as [x [Hx Hfg]]; [lia|]. exists x. split; [right; exact Hx| exact Hfg].
  - destruct IH as [x [Hx Hfg]]; [lia|]. exists x. split; [right; exact Hx| exact Hfg].
Qed.

Section QcPart.
Local Open Scope Qc_scope.

Lemma qn_le a b : (a <= b)%nat -> qn a <= qn b.
Proof.
  intros H. replace b with (a + (b - a))%nat by lia. rewrite qn_add.
  pose proof (qn_nonneg (b - a)). qc_lra.
Qed.
Lemma qn_lt_inv a b : qn a < qn b -> (a < b)%nat.
Proof.
  intros H. destruct (Nat.lt_ge_cases a b) as [Hlt|Hge]; [exact Hlt|].
  apply qn_le in Hge. exfalso. exact (Qclt_not_le _ _ H Hge).
Qed.

Definition half : Qc := Q2Qc (1 # 2).
Lemma half_lt_ratio k n : half < qn k / qn n -> (n < 2 * k)%nat.
Proof.
  intros H. destruct n as [|n].
  - exfalso. rewrite qn_0 in H. unfold Qcdiv in H.
    assert (Hz : / (0 : Qc) = 0) by (apply Qc_is_canon; reflexivity).
    rewrite Hz in H. replace (qn k * 0) with 0 in H by ring.
    revert H. apply Qcle_not_lt. unfold half. vm_compute. discriminate.
  - assert (Hp : 0 < qn (S n)) by (apply qn_pos; lia).
    assert (H1 : half * qn (S n) < qn k).
    { replace (qn k) with (qn k / qn (S n) * qn (S n)) by (field; now apply Qc_pos_neq0).
      apply Qcmult_lt_compat_r; assumption. }
    apply qn_lt_inv. rewrite qn_mul.
    assert (Hq2 : qn 2 = 1 + 1) by (apply Qc_is_canon; reflexivity). rewrite Hq2.
    assert (H2 : half + half = 1) by (apply Qc_is_canon; vm_compute; reflexivity).
    assert (H3 : qn (S n) = (half + half) * qn (S n)) by (rewrite H2; ring).
    rewrite H3. replace ((half + half) * qn (S n)) with (half * qn (S n) + half * qn (S n)) by ring.
    replace ((1 + 1) * qn k) with (qn k + qn k) by ring. qc_lra.
Qed.

Theorem majority_counts trees thr a b :
  half <= thr -> thr < support_counts trees a -> thr < support_counts trees b ->
  exists t, In t trees /\ has a t = true /\ has b t = true.
Proof.
  unfold support_counts. intros Ht Ha Hb.
  assert (Ha' : half < qn (length (filter (has a) trees)) / qn (length trees)) by (eapply Qcle_lt_trans; eassumption).
  assert (Hb' : half < qn (length (filter (has b) trees)) / qn (length trees)) by (eapply Qcle_lt_trans; eassumption).
  apply half_lt_ratio in Ha', Hb'. apply pigeon. lia.
Qed.

(* ---- pigeonhole, weighted version ---- *)
Definition wsum {A} (f : A -> bool) (wt : list (A * Qc)) : Qc := sumq (map snd (filter (fun p => f (fst p)) wt)).

Lemma wpigeon {A} (f g : A -> bool) (wt : list (A * Qc)) :
  (forall p, In p wt -> 0 <= snd p) ->
  wsum f wt + wsum g wt <= sumq (map snd wt) + wsum (fun x => f x && g x) wt.
Proof.
  unfold wsum. induction wt as [|[x w] wt IH]; intros Hw; cbn [filter map sumq fst snd].
  - qc_lra.
  - assert (H0 : 0 <= w) by (apply (Hw (x, w)); left; reflexivity).
    assert (IH' := IH (fun p Hp => Hw p (or_intror Hp))). clear IH.
    destruct (f x), (g x); cbn [andb map sumq snd]; qc_lra.
Qed.
Lemma wsum_zero {A} (h : A -> bool) (wt : list (A * Qc)) :
  (forall p, In p wt -> h (fst p) = false) -> wsum h wt = 0.
Proof.
  unfold wsum. induction wt as [|[x w] wt IH]; intros H; cbn [filter map sumq fst]; [reflexivity|].
  pose proof (H (x, w) (or_introl eq_refl)) as Hx. cbn [fst] in Hx. rewrite Hx. apply IH. intros p Hp. apply H. right; exact Hp.
Qed.

Theorem majority_weighted (wt : list (ctree * Qc)) thr a b :
  (forall p, In p wt -> 0 <= snd p) -> sumq (map snd wt) <= 1 ->
  half <= thr -> thr < support_weighted wt a -> thr < support_weighted wt b ->
  exists p, In p wt /\ has a (fst p) = true /\ has b (fst p) = true.
Proof.
  intros Hw Hs Ht Ha Hb.
  change (support_weighted wt a) with (wsum (has a) wt) in Ha.
  change (support_weighted wt b) with (wsum (has b) wt) in Hb.
  pose proof (wpigeon (has a) (has b) wt Hw) as Hp.
  destruct (existsb (fun p => has a (fst p) && has b (fst p)) wt) eqn:E.
  - apply existsb_exists in E as [p [Hp' E]]. apply andb_true_iff in E. exists p. tauto.
  - exfalso. rewrite (wsum_zero (fun x => has a x && has b x) wt) in Hp.
    + assert (H2 : 1 <= half + half) by (vm_compute; discriminate).
      revert Ht Ha Hb Hs Hp H2. generalize (wsum (has a) wt) (wsum (has b) wt) (sumq (map snd wt)) half.
      intros. qc_lra.
    + intros p Hp'. destruct (has a (fst p) && has b (fst p)) eqn:E'; [|reflexivity].
      assert (existsb (fun p => has a (fst p) && has b (fst p)) wt = true)
        by (apply existsb_exists; exists p; split; assumption).
      congruence.
Qed.

(* ---- retained families inherit laminarity from the input trees ---- *)
Lemma in_retained thr sup cl c : In c (retained thr sup cl) <-> In c cl /\ thr < sup c.
Proof. unfold retained. rewrite filter_In, Qc_ltb_lt. reflexivity. Qed.

Theorem majority_laminar_counts trees thr :
  half <= thr -> Forall laminar trees -> laminar (retained_counts thr trees).
Proof.
  intros Ht Hl a b Ha Hb. unfold retained_counts in *.
  apply in_retained in Ha as [_ Ha], Hb as [_ Hb].
  destruct (majority_counts trees thr a b Ht Ha Hb) as (t & Hin & H1 & H2).
  rewrite Forall_forall in Hl. apply (Hl t Hin); now apply has_in.
Qed.
Theorem majority_laminar_weighted wt thr :
  (forall p, In p wt -> 0 <= snd p) -> sumq (map snd wt) <= 1 ->
  half <= thr -> Forall laminar (map fst wt) -> laminar (retained_weighted thr wt).
Proof.
  intros Hw Hs Ht Hl a b Ha Hb. unfold retained_weighted in *.
  apply in_retained in Ha as [_ Ha], Hb as [_ Hb].
  destruct (majority_weighted wt thr a b Hw Hs Ht Ha Hb) as (p & Hin & H1 & H2).
  rewrite Forall_forall in Hl. apply (Hl (fst p)); [now apply in_map| now apply has_in| now apply has_in].
Qed.

End QcPart.

(* retained families are duplicate-free sub-families of the input clades *)
Lemma retained_nodup thr sup cl : NoDup cl -> NoDup (retained thr sup cl).
Proof. intros H. unfold retained. now apply NoDup_filter. Qed.
Lemma retained_counts_wf thr trees : Forall wfF trees -> wfF (retained_counts thr trees) /\ NoDup (retained_counts thr trees).
Proof.
  intros Hw. split.
  - unfold wfF. rewrite Forall_forall. intros c Hc. apply in_retained in Hc as [Hc _].
    unfold all_clades in Hc. apply in_dedup, in_concat in Hc as [t [Ht Hc]].
    rewrite Forall_forall in Hw. specialize (Hw t Ht). unfold wfF in Hw. rewrite Forall_forall in Hw. now apply Hw.
  - apply retained_nodup, nodup_dedup.
Qed.
Lemma retained_weighted_wf thr wt : Forall wfF (map fst wt) -> wfF (retained_weighted thr wt) /\ NoDup (retained_weighted thr wt).
Proof.
  intros Hw. split.
  - unfold wfF. rewrite Forall_forall. intros c Hc. apply in_retained in Hc as [Hc _].
    unfold all_clades in Hc. apply in_dedup, in_concat in Hc as [t [Ht Hc]].
    rewrite Forall_forall in Hw. specialize (Hw t Ht). unfold wfF in Hw. rewrite Forall_forall in Hw. now apply Hw.
  - apply retained_nodup, nodup_dedup.
Qed.
