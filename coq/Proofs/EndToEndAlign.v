(* The placement grammar on rose forests (Model/EndToEnd.v: fstep / frun) builds, letter by letter, a rose forest whose
   relation [frel] is the grammar state's relation [gle] and whose top-level clones are, position by position, the
   clones represented by [groots].  Consequence: [forest_of_table n on t] is a well-formed rose forest over the points
   0..n-1 whose relation table is t - the table t DENOTES that forest, so that gam_fscrp is C03's density of the state. *)
From PV Require Import Model.EndToEnd Proofs.PermProofs Proofs.GrammarSound Proofs.ProposalsPoint.
From Coq Require Import Bool Permutation.

Definition rep (t : tree) : nat := hd 0%nat (own t).

(* ---- small list / boolean facts ------------------------------------------------------------------------------ *)
Lemma nonempty_node o ks : nonempty (Node o ks) <-> o <> [] /\ Forall nonempty ks.
Proof.
  cbn [nonempty]. split; intros [H1 H2]; (split; [exact H1|]).
  - induction ks as [|k r IH]; [constructor|]. destruct H2 as [Hk Hr]. constructor; [exact Hk| apply IH, Hr].
  - induction ks as [|k r IH]; [exact I|]. inversion H2; subst. split; [assumption| apply IH; assumption].
Qed.

Lemma nd_app_l {A} (a b : list A) : NoDup (a ++ b) -> NoDup a.
Proof. induction a as [|x a IH]; cbn [app]; intros H; [constructor|]. inversion H; subst. constructor; [intros Hx; apply H2; apply in_or_app; left; exact Hx| apply IH; assumption]. Qed.
Lemma nd_app_r {A} (a b : list A) : NoDup (a ++ b) -> NoDup b.
Proof. induction a as [|x a IH]; cbn [app]; intros H; [exact H|]. inversion H; subst. apply IH; assumption. Qed.

Lemma inb_app a l1 l2 : inb a (l1 ++ l2) = inb a l1 || inb a l2.
Proof. unfold inb. apply existsb_app. Qed.
Lemma inb_false a l : ~ In a l -> inb a l = false.
Proof. intros H. destruct (inb a l) eqn:E; [|reflexivity]. apply inb_In in E. contradiction. Qed.
Lemma inb_single a x : inb a [x] = (a =? x)%nat.
Proof. unfold inb. cbn [existsb]. apply orb_false_r. Qed.
Lemma inb_flat_map b (ts : list tree) : inb b (flat_map points ts) = existsb (fun t => inb b (points t)) ts.
Proof. induction ts as [|t ts IH]; cbn [flat_map existsb]; [reflexivity| rewrite inb_app, IH; reflexivity]. Qed.

Lemma trel_false_l t a b : ~ In a (points t) -> trel t a b = false.
Proof. intros H. destruct (trel t a b) eqn:E; [|reflexivity]. destruct (trel_points t a b E). contradiction. Qed.
Lemma trel_false_r t a b : ~ In b (points t) -> trel t a b = false.
Proof. intros H. destruct (trel t a b) eqn:E; [|reflexivity]. destruct (trel_points t a b E). contradiction. Qed.
Lemma ex_trel_false_l ts a b : ~ In a (flat_map points ts) -> existsb (fun t => trel t a b) ts = false.
Proof.
  intros H. destruct (existsb (fun t => trel t a b) ts) eqn:E; [|reflexivity]. apply existsb_exists in E.
  destruct E as [t [Ht Hr]]. destruct (trel_points t a b Hr) as [Ha _]. exfalso. apply H. apply in_flat_map. exists t. auto.
Qed.
Lemma ex_trel_false_r ts a b : ~ In b (flat_map points ts) -> existsb (fun t => trel t a b) ts = false.
Proof.
  intros H. destruct (existsb (fun t => trel t a b) ts) eqn:E; [|reflexivity]. apply existsb_exists in E.
  destruct E as [t [Ht Hr]]. destruct (trel_points t a b Hr) as [_ Hb]. exfalso. apply H. apply in_flat_map. exists t. auto.
Qed.
Lemma existsb_trel_unique_r ks k a b :
  NoDup (flat_map points ks) -> In k ks -> In b (points k) -> existsb (fun k' => trel k' a b) ks = trel k a b.
Proof.
  intros Hnd Hk Hb. destruct (trel k a b) eqn:E.
  - apply existsb_exists. exists k. auto.
  - destruct (existsb (fun k' => trel k' a b) ks) eqn:E2; [|reflexivity].
    apply existsb_exists in E2. destruct E2 as [k' [Hk' H]]. destruct (trel_points k' a b H) as [_ Hb'].
    rewrite (flat_map_unique ks k k' b Hnd Hk Hk' Hb Hb') in E. congruence.
Qed.
Lemma existsb_perm {A} (p : A -> bool) l l' : Permutation l l' -> existsb p l = existsb p l'.
Proof.
  induction 1 as [|a l l' _ IH|a b l|l l' l'' _ IH1 _ IH2]; cbn [existsb].
  - reflexivity.
  - rewrite IH. reflexivity.
  - destruct (p a), (p b); reflexivity.
  - congruence.
Qed.

Lemma rep_in t : own t <> [] -> In (rep t) (own t).
Proof. unfold rep. destruct (own t) as [|r o]; [congruence| left; reflexivity]. Qed.
Lemma own_points t z : In z (own t) -> In z (points t).
Proof. destruct t as [o ks]. cbn [own points]. intros H. apply in_or_app. right. exact H. Qed.

(* the representative of a clone is an ancestor-or-equal of exactly the points of its subtree *)
Lemma trel_rep t b : own t <> [] -> trel t (rep t) b = inb b (points t).
Proof.
  destruct t as [o ks]. unfold rep. cbn [own trel points]. intros Ho. destruct o as [|r o]; [congruence|]. cbn [hd].
  assert (Hr : inb r (r :: o) = true) by (apply inb_In; left; reflexivity). rewrite Hr. cbn [andb]. rewrite inb_app.
  destruct (existsb (fun k => trel k r b) ks) eqn:E.
  - apply existsb_exists in E. destruct E as [k [Hk Ht]]. destruct (trel_points k r b Ht) as [_ Hb].
    assert (Hf : inb b (flat_map points ks) = true) by (apply inb_In, in_flat_map; exists k; auto).
    rewrite Hf. rewrite !orb_true_r. reflexivity.
  - rewrite orb_false_r. apply orb_comm.
Qed.

Lemma trel_add_own t x a b : own t <> [] -> NoDup (points t) -> ~ In x (points t) ->
  trel (add_own x t) a b
  = if (a =? x)%nat then (if (b =? x)%nat then true else trel t (rep t) b)
    else if (b =? x)%nat then trel t a (rep t) else trel t a b.
Proof.
  intros Ho Hnd Hx. rewrite (trel_rep t b Ho). destruct t as [o ks]. unfold rep. cbn [own add_own trel points] in *.
  destruct o as [|r o]; [congruence|]. cbn [hd].
  assert (Hxk : ~ In x (flat_map points ks)) by (intros H; apply Hx; apply in_or_app; left; exact H).
  assert (Hxo : inb x (r :: o) = false) by (apply inb_false; intros H; apply Hx; apply in_or_app; right; exact H).
  assert (Hrk : ~ In r (flat_map points ks)).
  { intros H. apply (NoDup_app_disjoint _ _ r Hnd H). left; reflexivity. }
  assert (Hr : inb r (r :: o) = true) by (apply inb_In; left; reflexivity).
  rewrite !inb_app, !inb_single.
  destruct (a =? x)%nat eqn:Ea; destruct (b =? x)%nat eqn:Eb.
  - rewrite !orb_true_r. reflexivity.
  - apply Nat.eqb_eq in Ea. subst a. rewrite Hxo, (ex_trel_false_l ks x b Hxk). cbn [orb andb].
    rewrite !orb_false_r. apply orb_comm.
  - apply Nat.eqb_eq in Eb. subst b. rewrite (ex_trel_false_r ks a x Hxk), (ex_trel_false_r ks a r Hrk), Hr.
    cbn [orb andb]. rewrite !orb_false_r, !orb_true_r, !andb_true_r. reflexivity.
  - rewrite !orb_false_r. reflexivity.
Qed.

Lemma points_add_own x t : points (add_own x t) = points t ++ [x].
Proof. destruct t as [o ks]. cbn [add_own points]. rewrite app_assoc. reflexivity. Qed.
Lemma rep_add_own x t : own t <> [] -> rep (add_own x t) = rep t.
Proof. destruct t as [o ks]. unfold rep. cbn [add_own own]. destruct o; [congruence| reflexivity]. Qed.
Lemma nonempty_add_own x t : nonempty t -> nonempty (add_own x t).
Proof.
  destruct t as [o ks]. cbn [add_own]. rewrite !nonempty_node. intros [_ H]. split; [|exact H].
  destruct o; discriminate.
Qed.
Lemma nonempty_own t : nonempty t -> own t <> [].
Proof. destruct t as [o ks]. rewrite nonempty_node. cbn [own]. tauto. Qed.

Lemma upd_nth_mid {A} (f : A -> A) l1 a l2 : upd_nth (length l1) f (l1 ++ a :: l2) = l1 ++ f a :: l2.
Proof. induction l1 as [|b l1 IH]; cbn [length app upd_nth]; [reflexivity| rewrite IH; reflexivity]. Qed.

(* ---- positional pick / drop ---- *)
Lemma pick_drop_perm l idx : forall k, Permutation (pickt_from k l idx ++ dropt_from k l idx) l.
Proof.
  induction l as [|t r IH]; intros k; cbn [pickt_from dropt_from]; [constructor|].
  destruct (memb k idx).
  - cbn [app]. constructor. apply IH.
  - eapply Permutation_trans; [apply Permutation_sym, Permutation_middle|]. constructor. apply IH.
Qed.
Lemma pickt_from_in l idx : forall k t, In t (pickt_from k l idx) ->
  exists j, (j < length l)%nat /\ memb (k + j) idx = true /\ forall d, t = nth j l d.
Proof.
  induction l as [|a r IH]; intros k t H; cbn [pickt_from] in H; [contradiction|].
  destruct (memb k idx) eqn:E.
  - destruct H as [<-|H].
    + exists 0%nat. cbn [length nth]. rewrite Nat.add_0_r. repeat split; [lia| exact E].
    + destruct (IH (S k) t H) as [j [Hj [Hm Hn]]]. exists (S j). cbn [length nth].
      replace (k + S j)%nat with (S k + j)%nat by lia. repeat split; [lia| exact Hm| exact Hn].
  - destruct (IH (S k) t H) as [j [Hj [Hm Hn]]]. exists (S j). cbn [length nth].
    replace (k + S j)%nat with (S k + j)%nat by lia. repeat split; [lia| exact Hm| exact Hn].
Qed.
Lemma pickt_from_nth l idx : forall k j d, (j < length l)%nat -> memb (k + j) idx = true -> In (nth j l d) (pickt_from k l idx).
Proof.
  induction l as [|a r IH]; intros k j d Hj Hm; cbn [length] in Hj; [lia|]. cbn [pickt_from].
  destruct j as [|j].
  - rewrite Nat.add_0_r in Hm. rewrite Hm. left. reflexivity.
  - replace (k + S j)%nat with (S k + j)%nat in Hm by lia. cbn [nth].
    destruct (memb k idx); [right|]; apply IH; try assumption; lia.
Qed.
Lemma filter_dropt {B} (g : tree -> B) (p : B -> bool) idx : forall l k,
  (forall j d, (j < length l)%nat -> p (g (nth j l d)) = negb (memb (k + j) idx)) ->
  filter p (map g l) = map g (dropt_from k l idx).
Proof.
  induction l as [|a r IH]; intros k H; cbn [map filter dropt_from]; [reflexivity|].
  pose proof (H 0%nat a ltac:(cbn [length]; lia)) as H0. cbn [nth] in H0. rewrite Nat.add_0_r in H0. rewrite H0.
  assert (Hr : filter p (map g r) = map g (dropt_from (S k) r idx)).
  { apply IH. intros j d Hj. specialize (H (S j) d ltac:(cbn [length]; lia)). cbn [nth] in H.
    replace (k + S j)%nat with (S k + j)%nat in H by lia. exact H. }
  destruct (memb k idx); cbn [negb map]; rewrite Hr; reflexivity.
Qed.

(* ---- the alignment invariant ---------------------------------------------------------------------------------- *)
Record al (s : gst) (F : forest) : Prop := mkAl {
  al_roots : groots s = map rep (roots F);
  al_le : forall a b, gle s a b = frel F a b;
  al_pts : Permutation (fpoints F) (gpl s);
  al_ne : Forall nonempty (roots F)
}.

Lemma al_0 : al g0 f0.
Proof. constructor; cbn; try reflexivity; constructor. Qed.

Section Step.
Variables (s : gst) (F : forest) (x : nat).
Hypothesis Hinv : ginv s.
Hypothesis Hal : al s F.
Hypothesis Hx : ~ In x (gpl s).

Lemma st_nd : NoDup (fpoints F).
Proof. eapply Permutation_NoDup; [apply Permutation_sym, (al_pts _ _ Hal)| apply (gi_nd _ Hinv)]. Qed.
Lemma st_ndr : NoDup (flat_map points (roots F)).
Proof. pose proof st_nd as H. unfold fpoints in H. apply nd_app_l in H. exact H. Qed.
Lemma st_xf : ~ In x (fpoints F).
Proof. intros H. apply Hx. eapply Permutation_in; [apply (al_pts _ _ Hal)| exact H]. Qed.
Lemma st_xr : ~ In x (flat_map points (roots F)).
Proof. intros H. apply st_xf. unfold fpoints. apply in_or_app. left. exact H. Qed.
Lemma st_root_ne t : In t (roots F) -> own t <> [].
Proof. intros Ht. apply nonempty_own. pose proof (al_ne _ _ Hal) as H. rewrite Forall_forall in H. apply H, Ht. Qed.
Lemma st_root_nd t : In t (roots F) -> NoDup (points t).
Proof.
  intros Ht. pose proof st_ndr as H. apply in_split in Ht. destruct Ht as [l1 [l2 E]]. rewrite E in H.
  rewrite flat_map_app in H. cbn [flat_map] in H. apply nd_app_r in H. apply nd_app_l in H. exact H.
Qed.
Lemma st_root_x t : In t (roots F) -> ~ In x (points t).
Proof. intros Ht H. apply st_xr. apply in_flat_map. exists t. auto. Qed.

(* -- outlier -- *)
Lemma al_outlier : al (gstep s x Outlier) (fstep F x Outlier).
Proof.
  cbn [gstep fstep]. constructor; cbn [groots gle gpl roots].
  - apply (al_roots _ _ Hal).
  - intros a b. rewrite (al_le _ _ Hal). reflexivity.
  - unfold fpoints. cbn [roots outl]. rewrite app_assoc.
    eapply Permutation_trans; [apply Permutation_sym, Permutation_cons_append|]. constructor. apply (al_pts _ _ Hal).
  - apply (al_ne _ _ Hal).
Qed.

(* -- into an existing top-level clone -- *)
Lemma al_existing i : (i < length (groots s))%nat -> al (gstep s x (Existing i)) (fstep F x (Existing i)).
Proof.
  intros Hi. pose proof (al_roots _ _ Hal) as Hr. rewrite Hr, map_length in Hi.
  destruct (nth_split (roots F) (Node [] []) Hi) as [l1 [l2 [E Hl1]]].
  set (t := nth i (roots F) (Node [] [])) in *.
  assert (Ht : In t (roots F)) by (rewrite E; apply in_or_app; right; left; reflexivity).
  assert (Hy : nth i (groots s) x = rep t).
  { rewrite Hr, E, map_app. cbn [map]. rewrite <- Hl1, <- (map_length rep l1). apply nth_middle. }
  clearbody t.
  pose proof (st_root_ne t Ht) as Hne. pose proof (st_root_nd t Ht) as Hndt. pose proof (st_root_x t Ht) as Hxt.
  assert (Hrp : In (rep t) (points t)) by (apply own_points, rep_in, Hne).
  cbn [gstep fstep]. rewrite Hy. constructor; cbn [groots gle gpl roots outl].
  - rewrite Hr, E, <- Hl1, upd_nth_mid, !map_app. cbn [map]. rewrite (rep_add_own x t Hne). reflexivity.
  - intros a b. unfold frel. cbn [roots]. rewrite E, <- Hl1, upd_nth_mid, !existsb_app. cbn [existsb].
    rewrite (trel_add_own t x a b Hne Hndt Hxt).
    assert (Hx1 : ~ In x (flat_map points l1)).
    { intros H. apply st_xr. rewrite E, flat_map_app. apply in_or_app. left; exact H. }
    assert (Hx2 : ~ In x (flat_map points l2)).
    { intros H. apply st_xr. rewrite E, flat_map_app. apply in_or_app. right. cbn [flat_map]. apply in_or_app. right; exact H. }
    destruct (a =? x)%nat eqn:Ea; destruct (b =? x)%nat eqn:Eb.
    + rewrite orb_true_r. reflexivity.
    + apply Nat.eqb_eq in Ea. subst a. rewrite (ex_trel_false_l l1 x b Hx1), (ex_trel_false_l l2 x b Hx2). cbn [orb]. rewrite orb_false_r.
      rewrite (al_le _ _ Hal). unfold frel. apply existsb_trel_unique; [apply st_ndr| exact Ht| exact Hrp].
    + apply Nat.eqb_eq in Eb. subst b. rewrite (ex_trel_false_r l1 a x Hx1), (ex_trel_false_r l2 a x Hx2). cbn [orb]. rewrite orb_false_r.
      rewrite (al_le _ _ Hal). unfold frel. apply existsb_trel_unique_r; [apply st_ndr| exact Ht| exact Hrp].
    + rewrite (al_le _ _ Hal). unfold frel. rewrite E. rewrite !existsb_app. reflexivity.
  - unfold fpoints. cbn [roots outl]. rewrite E, <- Hl1, upd_nth_mid. rewrite flat_map_app. cbn [flat_map]. rewrite points_add_own.
    eapply Permutation_trans; [|constructor; apply (al_pts _ _ Hal)]. unfold fpoints. rewrite E. rewrite flat_map_app. cbn [flat_map].
    rewrite <- !app_assoc. apply Permutation_sym. eapply Permutation_trans; [apply Permutation_middle|].
    apply Permutation_app_head. eapply Permutation_trans; [apply Permutation_middle|]. apply Permutation_app_head.
    cbn [app]. apply Permutation_refl.
  - pose proof (al_ne _ _ Hal) as H. rewrite E in H. rewrite E, <- Hl1, upd_nth_mid. apply Forall_app in H. destruct H as [H1 H2].
    inversion H2; subst. apply Forall_app. split; [exact H1|]. constructor; [apply nonempty_add_own; assumption| assumption].
Qed.

(* -- a new clone above the top-level clones at positions sub -- *)
Section New.
Variable sub : list nat.
Hypothesis Hsub : forall i, In i sub -> (i < length (groots s))%nat.
Let Sx := pick x (groots s) sub.
Let picked := pickt (roots F) sub.
Let dropped := dropt (roots F) sub.

Lemma Hlen : length (groots s) = length (roots F).
Proof. rewrite (al_roots _ _ Hal), map_length. reflexivity. Qed.
Lemma groots_nth j d : (j < length (roots F))%nat -> nth j (groots s) x = rep (nth j (roots F) d).
Proof.
  intros Hj. rewrite (al_roots _ _ Hal). rewrite (nth_indep _ x (rep d)) by (rewrite map_length; exact Hj). apply map_nth.
Qed.
Lemma memb_Sx_pos j : (j < length (roots F))%nat -> memb (nth j (groots s) x) Sx = memb j sub.
Proof.
  intros Hj. destruct (memb j sub) eqn:E.
  - apply memb_in. apply memb_in in E. unfold Sx, pick. apply in_map_iff. exists j. auto.
  - destruct (memb (nth j (groots s) x) Sx) eqn:E2; [|reflexivity]. apply memb_in in E2. unfold Sx, pick in E2.
    apply in_map_iff in E2. destruct E2 as [i [He Hi]].
    assert (i = j).
    { apply (proj1 (NoDup_nth (groots s) x) (gi_rnd _ Hinv)); [apply Hsub, Hi| rewrite Hlen; exact Hj| exact He]. }
    subst i. apply memb_in in Hi. congruence.
Qed.
Lemma picked_in t : In t picked -> In t (roots F).
Proof. intros H. eapply Permutation_in; [apply (pick_drop_perm (roots F) sub 0)|]. apply in_or_app. left; exact H. Qed.
Lemma dropped_in t : In t dropped -> In t (roots F).
Proof. intros H. eapply Permutation_in; [apply (pick_drop_perm (roots F) sub 0)|]. apply in_or_app. right; exact H. Qed.
Lemma Sx_picked r : In r Sx <-> In r (map rep picked).
Proof.
  split.
  - intros H. unfold Sx, pick in H. apply in_map_iff in H. destruct H as [i [<- Hi]].
    pose proof (Hsub i Hi) as Hlt. rewrite Hlen in Hlt. rewrite (groots_nth i (Node [] []) Hlt). apply in_map.
    apply pickt_from_nth; [exact Hlt| apply memb_in; exact Hi].
  - intros H. apply in_map_iff in H. destruct H as [t [<- Ht]]. destruct (pickt_from_in _ _ _ _ Ht) as [j [Hj [Hm Hn]]].
    cbn [Nat.add] in Hm. rewrite (Hn (Node [] [])), <- (groots_nth j _ Hj). unfold Sx, pick. apply in_map_iff. exists j.
    split; [reflexivity| apply memb_in; exact Hm].
Qed.

Lemma al_new : al (gstep s x (NewOver sub)) (fstep F x (NewOver sub)).
Proof.
  cbn [gstep fstep]. fold Sx picked dropped.
  pose proof (pick_drop_perm (roots F) sub 0) as Hperm. fold (pickt (roots F) sub) (dropt (roots F) sub) in Hperm. fold picked dropped in Hperm.
  assert (Hxp : ~ In x (flat_map points picked)).
  { intros H. apply in_flat_map in H. destruct H as [t [Ht Hxt]]. apply (st_root_x t (picked_in t Ht) Hxt). }
  assert (Hxd : ~ In x (flat_map points dropped)).
  { intros H. apply in_flat_map in H. destruct H as [t [Ht Hxt]]. apply (st_root_x t (dropped_in t Ht) Hxt). }
  constructor; cbn [groots gle gpl roots outl].
  - cbn [map]. unfold rep at 1. cbn [own hd]. f_equal. rewrite (al_roots _ _ Hal). unfold dropped, dropt. apply filter_dropt.
    intros j d Hj. cbn [Nat.add]. rewrite <- (groots_nth j d Hj). rewrite (memb_Sx_pos j Hj). reflexivity.
  - intros a b. unfold frel. cbn [roots existsb trel]. rewrite !inb_single.
    destruct (a =? x)%nat eqn:Ea; destruct (b =? x)%nat eqn:Eb; cbn [andb orb].
    + reflexivity.
    + apply Nat.eqb_eq in Ea. subst a. rewrite (ex_trel_false_l picked x b Hxp), (ex_trel_false_l dropped x b Hxd). rewrite !orb_false_r.
      rewrite inb_flat_map.
      assert (He : existsb (fun r => gle s r b) Sx = existsb (fun r => gle s r b) (map rep picked)).
      { destruct (existsb (fun r => gle s r b) Sx) eqn:E1; symmetry.
        - apply existsb_exists in E1. destruct E1 as [r [Hr Hg]]. apply existsb_exists. exists r. split; [apply Sx_picked; exact Hr| exact Hg].
        - destruct (existsb (fun r => gle s r b) (map rep picked)) eqn:E2; [|reflexivity]. apply existsb_exists in E2.
          destruct E2 as [r [Hr Hg]]. apply Sx_picked in Hr. assert (existsb (fun r => gle s r b) Sx = true) by (apply existsb_exists; exists r; auto). congruence. }
      rewrite He. clear He. generalize picked_in. generalize picked. intros pk Hpk. induction pk as [|t pk IH]; cbn [map existsb]; [reflexivity|].
      rewrite IH by (intros t' Ht'; apply Hpk; right; exact Ht'). f_equal.
      assert (Ht : In t (roots F)) by (apply Hpk; left; reflexivity).
      rewrite (al_le _ _ Hal). unfold frel. rewrite (existsb_trel_unique (roots F) t (rep t) b st_ndr Ht (own_points _ _ (rep_in t (st_root_ne t Ht)))).
      apply trel_rep. apply st_root_ne, Ht.
    + apply Nat.eqb_eq in Eb. subst b. rewrite (ex_trel_false_r picked a x Hxp), (ex_trel_false_r dropped a x Hxd). reflexivity.
    + rewrite (al_le _ _ Hal). unfold frel. rewrite <- existsb_app. apply existsb_perm. apply Permutation_sym. exact Hperm.
  - unfold fpoints. cbn [roots outl flat_map points]. rewrite <- !app_assoc. cbn [app].
    eapply Permutation_trans; [apply Permutation_sym, Permutation_middle|]. constructor.
    eapply Permutation_trans; [|apply (al_pts _ _ Hal)]. unfold fpoints. rewrite !app_assoc. apply Permutation_app_tail.
    rewrite <- flat_map_app. apply Permutation_flat_map. exact Hperm.
  - pose proof (al_ne _ _ Hal) as H. rewrite Forall_forall in H. constructor.
    + apply nonempty_node. split; [discriminate|]. apply Forall_forall. intros t Ht. apply H, picked_in, Ht.
    + apply Forall_forall. intros t Ht. apply H, dropped_in, Ht.
Qed.
End New.

Theorem al_step on a : In a (gsupp on s) -> al (gstep s x a) (fstep F x a).
Proof.
  intros Ha. unfold gsupp in Ha. destruct a as [i|sub|].
  - apply al_existing. apply (in_all_places_existing _ _ _ Ha).
  - apply al_new. apply (new_letter_sub _ _ _ Ha).
  - apply al_outlier.
Qed.
End Step.

(* ---- along a whole word ------------------------------------------------------------------------------------- *)
Theorem al_run on : forall sig w s F, ginv s -> al s F -> NoDup sig -> (forall x, In x sig -> ~ In x (gpl s)) -> gvalid on s sig w ->
  al (grun s sig w) (frun F sig w).
Proof.
  induction sig as [|x sig IH]; intros w s F Hinv Hal Hnd Hfresh Hv; destruct w as [|a w]; cbn [gvalid grun frun] in *; try contradiction.
  - exact Hal.
  - destruct Hv as [Ha Hv]. inversion Hnd as [|? ? Hnx Hnd']; subst. apply IH.
    + apply (gstep_inv on); [exact Hinv| apply Hfresh; left; reflexivity| exact Ha].
    + apply (al_step s F x Hinv Hal (Hfresh x (or_introl eq_refl)) on a Ha).
    + exact Hnd'.
    + intros z Hz. rewrite gstep_pl. intros [->|Hin]; [contradiction| apply (Hfresh z); [right; exact Hz| exact Hin]].
    + exact Hv.
Qed.

(* with outlier modelling off no point ever becomes an outlier *)
Lemma frun_no_outliers : forall sig w s F, outl F = [] -> gvalid false s sig w -> outl (frun F sig w) = [].
Proof.
  induction sig as [|x sig IH]; intros w s F Ho Hv; destruct w as [|a w]; cbn [gvalid frun] in *; try contradiction; try exact Ho.
  destruct Hv as [Ha Hv]. apply (IH w (gstep s x a)); [|exact Hv].
  destruct a as [i|sub|]; cbn [fstep outl]; try exact Ho.
  unfold gsupp in Ha. apply in_all_places_outlier in Ha. discriminate.
Qed.

(* ---- the table denotes its forest --------------------------------------------------------------------------- *)
Section Table.
Variables (n : nat) (on : bool).

Lemma first_order_spec t : In t (forests n on) -> In (first_order n t) (gorders n) /\ cb (first_order n t) t = true.
Proof.
  intros Ht. unfold first_order. destruct (filter (fun sg => cb sg t) (gorders n)) as [|sg l] eqn:E.
  - exfalso. apply in_forests in Ht. destruct Ht as [sg [w [Hsg [Hv ->]]]].
    assert (H : In sg (filter (fun sg0 => cb sg0 (tab n (gle (grun g0 sg w)))) (gorders n))).
    { apply filter_In. split; [exact Hsg| apply (cb_of_reach n on); assumption]. }
    rewrite E in H. contradiction.
  - assert (H : In sg (filter (fun sg => cb sg t) (gorders n))) by (rewrite E; left; reflexivity).
    apply filter_In in H. exact H.
Qed.

Theorem forest_of_table_spec t : In t (forests n on) ->
  let F := forest_of_table n on t in
  tab n (frel F) = t /\ Density.wf F /\ Permutation (seq 0 n) (fpoints F) /\ (on = false -> outl F = []).
Proof.
  intros Ht F. destruct (first_order_spec t Ht) as [Hsg Hcb]. set (sg := first_order n t) in *.
  destruct (reach_of_cb n on sg t Hsg Ht Hcb) as [w [Hv Et]].
  assert (Hw : genc n on sg t = w).
  { rewrite Et, <- (gdec_rev n sg w). apply g_enc; [exact Hsg| apply (gpaths_valid n on sg w Hsg); exact Hv]. }
  assert (HF : F = frun f0 sg w) by (unfold F, forest_of_table; fold sg; rewrite Hw; reflexivity).
  destruct (order_facts n sg Hsg) as [Hnd [Hlen Hin]].
  pose proof (al_run on sg w g0 f0 ginv_g0 al_0 Hnd (fun _ _ H => H) Hv) as Hal.
  destruct (grun_inv on sg w g0 ginv_g0 Hnd (fun _ _ H => H) Hv) as [Hinv Hpl]. cbn [g0 gpl] in Hpl. rewrite app_nil_r in Hpl.
  rewrite <- HF in Hal. repeat split.
  - rewrite Et. apply tab_ext. intros a b _ _. symmetry. apply (al_le _ _ Hal).
  - eapply Permutation_NoDup; [apply Permutation_sym, (al_pts _ _ Hal)| apply (gi_nd _ Hinv)].
  - apply (al_ne _ _ Hal).
  - eapply Permutation_trans; [|apply Permutation_sym, (al_pts _ _ Hal)]. rewrite Hpl.
    eapply Permutation_trans; [|apply Permutation_rev]. apply NoDup_Permutation; [apply seq_NoDup| exact Hnd|].
    intros z. rewrite in_seq, Hin. lia.
  - intros ->. rewrite HF. apply (frun_no_outliers sg w g0 f0); [reflexivity| exact Hv].
Qed.
End Table.
