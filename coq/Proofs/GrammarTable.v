(* Plumbing between the grammar (relations as functions) and the particle-Gibbs assembly (trees as Leibniz-comparable
   values, paths as lists produced by [conts]): finite tables, the boolean compatibility test, valid words = [conts]. *)
From PV Require Import Model.Grammar Proofs.ProposalsPoint Proofs.PermNoDup Proofs.GrammarSound Proofs.GrammarComplete Proofs.GrammarUnique Proofs.CsmcTarget.
From Coq Require Import Bool Permutation.

(* ---- tables ---- *)
Lemma tget_tab n r x y : (x < n)%nat -> (y < n)%nat -> tget (tab n r) x y = r x y.
Proof.
  intros Hx Hy. unfold tget, tab.
  rewrite (nth_indep _ [] ((fun x => map (r x) (seq 0 n)) 0%nat)) by (rewrite map_length, seq_length; exact Hx).
  rewrite (map_nth (fun x => map (r x) (seq 0 n))). rewrite seq_nth by exact Hx. cbn [plus].
  rewrite (nth_indep _ false (r x 0%nat)) by (rewrite map_length, seq_length; exact Hy).
  rewrite (map_nth (r x)). rewrite seq_nth by exact Hy. reflexivity.
Qed.
Lemma tget_tab_out n r x y : (n <= x)%nat \/ (n <= y)%nat -> tget (tab n r) x y = false.
Proof.
  intros H. unfold tget, tab. destruct (Nat.lt_ge_cases x n) as [Hx|Hx].
  - destruct H as [H|H]; [lia|].
    rewrite (nth_indep _ [] ((fun x => map (r x) (seq 0 n)) 0%nat)) by (rewrite map_length, seq_length; exact Hx).
    rewrite (map_nth (fun x => map (r x) (seq 0 n))). apply nth_overflow. rewrite map_length, seq_length. exact H.
  - rewrite (nth_overflow _ []) by (rewrite map_length, seq_length; exact Hx). destruct y; reflexivity.
Qed.
Lemma tab_ext n r r' : (forall x y, (x < n)%nat -> (y < n)%nat -> r x y = r' x y) -> tab n r = tab n r'.
Proof.
  intros H. unfold tab. apply map_ext_in. intros x Hx. apply in_seq in Hx. apply map_ext_in. intros y Hy. apply in_seq in Hy.
  apply H; lia.
Qed.
Lemma tab_inj n r r' : tab n r = tab n r' -> forall x y, (x < n)%nat -> (y < n)%nat -> r x y = r' x y.
Proof. intros H x y Hx Hy. rewrite <- (tget_tab n r x y Hx Hy), <- (tget_tab n r' x y Hx Hy), H. reflexivity. Qed.
Lemma tab_tget_tab n r : tab n (tget (tab n r)) = tab n r.
Proof. apply tab_ext. intros x y Hx Hy. apply tget_tab; assumption. Qed.
Definition teq : forall a b : list (list bool), {a = b} + {a <> b} := list_eq_dec (list_eq_dec bool_dec).

(* a relation that vanishes outside 0..n-1 is the one read back from its table *)
Lemma tget_tab_all n r : (forall x y, r x y = true -> (x < n)%nat /\ (y < n)%nat) -> forall x y, tget (tab n r) x y = r x y.
Proof.
  intros Hd x y. destruct (Nat.lt_ge_cases x n) as [Hx|Hx]; [destruct (Nat.lt_ge_cases y n) as [Hy|Hy]|].
  - apply tget_tab; assumption.
  - rewrite tget_tab_out by (right; exact Hy). destruct (r x y) eqn:E; [|reflexivity]. destruct (Hd _ _ E). lia.
  - rewrite tget_tab_out by (left; exact Hx). destruct (r x y) eqn:E; [|reflexivity]. destruct (Hd _ _ E). lia.
Qed.

(* ---- the boolean compatibility test ---- *)
Fixpoint compat_b (pl : list nat) (r : rel) : bool :=
  match pl with
  | [] => true
  | x :: older => forallb (fun z => implb (r z x) (r x z)) older && compat_b older r
  end.
Lemma compat_b_spec pl r : compat_b pl r = true <-> compat pl r.
Proof.
  induction pl as [|x pl IH]; cbn [compat_b compat]; [split; auto|].
  rewrite andb_true_iff, forallb_forall, IH. split; intros [H1 H2]; (split; [|exact H2]).
  - intros z Hz Hr. specialize (H1 z Hz). rewrite Hr in H1. exact H1.
  - intros z Hz. destruct (r z x) eqn:E; [cbn [implb]; apply H1; assumption| reflexivity].
Qed.

(* ---- wf is extensional and only depends on the set of points ---- *)
Lemma wf_ext pts pts' r r' : (forall a b, r a b = r' a b) -> (forall x, In x pts' -> In x pts) -> wf pts' r' -> wf pts r.
Proof.
  intros He Hp [Hd Hr Ht Hc]. constructor.
  - intros a b H. rewrite He in H. destruct (Hd _ _ H). split; apply Hp; assumption.
  - intros a b H. rewrite !He in *. apply Hr; assumption.
  - intros a b c H1 H2. rewrite !He in *. eapply Ht; eassumption.
  - intros a b c H1 H2. rewrite !He in *. eapply Hc; eassumption.
Qed.

(* ---- with outlier modelling off the grammar never produces an outlier ---- *)
Lemma gstep_noout s x a : In a (gsupp false s) -> (forall p, In p (gpl s) -> p <> x) ->
  (forall p, In p (gpl s) -> gle s p p = true) -> forall p, In p (gpl (gstep s x a)) -> gle (gstep s x a) p p = true.
Proof.
  intros Ha Hx Hall p Hp. rewrite gstep_pl in Hp. destruct a as [i|sub|].
  - cbn [gstep gle]. destruct (Nat.eqb_spec p x) as [->|Hn]; [reflexivity|]. destruct Hp as [Hp|Hp]; [congruence| apply Hall; exact Hp].
  - cbn [gstep gle]. destruct (Nat.eqb_spec p x) as [->|Hn]; [reflexivity|]. destruct Hp as [Hp|Hp]; [congruence| apply Hall; exact Hp].
  - apply in_all_places_outlier in Ha. discriminate.
Qed.
Lemma grun_noout : forall sig w s, NoDup sig -> (forall x, In x sig -> ~ In x (gpl s)) -> gvalid false s sig w ->
  (forall p, In p (gpl s) -> gle s p p = true) -> forall p, In p (gpl (grun s sig w)) -> gle (grun s sig w) p p = true.
Proof.
  induction sig as [|x sig IH]; intros [|a w] s Hnd Hf Hv Hall; cbn [gvalid grun] in *; try contradiction; [exact Hall|].
  destruct Hv as [Ha Hv]. inversion Hnd as [|? ? Hnx Hnd']; subst. apply IH; try assumption.
  - intros z Hz. rewrite gstep_pl. intros [->|Hin]; [contradiction| apply (Hf z); [right; exact Hz| exact Hin]].
  - apply gstep_noout; try assumption. intros p Hp ->. apply (Hf x); [left; reflexivity| exact Hp].
Qed.

(* ---- valid words are exactly what [conts] enumerates ---- *)
Lemma grun_nil s sig : grun s sig [] = s.
Proof. destruct sig; reflexivity. Qed.
Lemma grun_app_short : forall s1 w s s2, length w = length s1 -> grun s (s1 ++ s2) w = grun s s1 w.
Proof.
  induction s1 as [|z s1 IH]; intros [|a w] s s2 Hl; cbn [length] in Hl; try discriminate; cbn [app grun].
  - apply grun_nil.
  - apply IH. lia.
Qed.

Section Conts.
Variable on : bool.
Variable sg : list nat.
Definition gstate (p : list place) : gst := grun g0 sg (rev p).
Definition gsup (p : list place) : list place := gsupp on (gstate p).

Lemma conts_valid : forall s2 s1 x w, sg = s1 ++ s2 -> length x = length s1 ->
  (In w (conts gsup (length s2) x) <-> gvalid on (grun g0 s1 (rev x)) s2 w).
Proof.
  induction s2 as [|z s2 IH]; intros s1 x w Hsg Hl; cbn [length conts].
  - destruct w as [|a w]; cbn [gvalid In]; split.
    + intros _. exact I.
    + intros _. left. reflexivity.
    + intros [H|[]]. discriminate.
    + intros [].
  - rewrite in_flat_map. split.
    + intros [a [Ha Hw]]. apply in_map_iff in Hw. destruct Hw as [w' [<- Hw']]. cbn [gvalid].
      assert (Hst : gstate x = grun g0 s1 (rev x)) by (unfold gstate; rewrite Hsg; apply grun_app_short; rewrite rev_length; exact Hl).
      unfold gsup in Ha. rewrite Hst in Ha. split; [exact Ha|].
      apply (IH (s1 ++ [z]) (a :: x) w') in Hw'.
      * cbn [rev] in Hw'. rewrite grun_snoc in Hw' by (rewrite rev_length; exact Hl). exact Hw'.
      * rewrite Hsg, <- app_assoc. reflexivity.
      * cbn [length]. rewrite app_length. cbn [length]. lia.
    + destruct w as [|a w']; cbn [gvalid]; [contradiction|]. intros [Ha Hv]. exists a.
      assert (Hst : gstate x = grun g0 s1 (rev x)) by (unfold gstate; rewrite Hsg; apply grun_app_short; rewrite rev_length; exact Hl).
      split; [unfold gsup; rewrite Hst; exact Ha|]. apply in_map.
      apply (IH (s1 ++ [z]) (a :: x) w').
      * rewrite Hsg, <- app_assoc. reflexivity.
      * cbn [length]. rewrite app_length. cbn [length]. lia.
      * cbn [rev]. rewrite grun_snoc by (rewrite rev_length; exact Hl). exact Hv.
Qed.

Lemma paths_valid w : In w (conts gsup (length sg) []) <-> gvalid on g0 sg w.
Proof. apply (conts_valid sg [] [] w); reflexivity. Qed.
End Conts.

(* [conts] over duplicate-free supports has no duplicates *)
Lemma conts_NoDup {A} (supp : list A -> list A) : (forall x, NoDup (supp x)) -> forall k x, NoDup (conts supp k x).
Proof.
  intros Hs. induction k as [|k IH]; intros x; cbn [conts]; [constructor; [intros []| constructor]|].
  apply NoDup_flat_map_intro.
  - apply Hs.
  - intros a _. apply NoDup_map_inj; [intros u v _ _ H; injection H; auto| apply IH].
  - intros a b w _ _ Ha Hb. apply in_map_iff in Ha. apply in_map_iff in Hb.
    destruct Ha as [u [<- _]]. destruct Hb as [v [He _]]. injection He; auto.
Qed.
