(* C02, order-theoretic half of the floor claim: raising convolution entries can only raise every R entry. *)
From PV Require Import Model.Marginal Proofs.MarginalSums Proofs.MarginalProofs.

Definition vle (G : nat) (a b : vec) : Prop := forall i, (i < G)%nat -> vget a i <= vget b i.
Definition vnonneg (a : vec) : Prop := forall i, 0 <= vget a i.

Lemma Qc_mul_mono a a' b b' : 0 <= a -> a <= a' -> 0 <= b -> b <= b' -> a * b <= a' * b'.
Proof.
  intros Ha Haa Hb Hbb. apply Qcle_trans with (a' * b).
  - apply Qcmult_le_compat_r; assumption.
  - rewrite (Qcmult_comm a' b), (Qcmult_comm a' b'). apply Qcmult_le_compat_r; [assumption|].
    apply Qcle_trans with a; assumption.
Qed.

Lemma conv_mono G a b a' b' k : (k < G)%nat ->
  vnonneg a -> vle G a a' -> vnonneg b -> vle G b b' ->
  vget (conv G a b) k <= vget (conv G a' b') k.
Proof.
  intros Hk Ha Haa Hb Hbb. rewrite !conv_nth by exact Hk. apply Sum_le. intros j Hj.
  apply Qc_mul_mono; [apply Ha| apply Haa| apply Hb| apply Hbb]; lia.
Qed.
Lemma vget_overflow (a : vec) i : (length a <= i)%nat -> vget a i = 0.
Proof. intros H. unfold vget. apply nth_overflow. exact H. Qed.
Lemma conv_nonneg G a b : vnonneg a -> vnonneg b -> vnonneg (conv G a b).
Proof.
  intros Ha Hb k. destruct (Nat.lt_ge_cases k G) as [Hk|Hk].
  - rewrite conv_nth by exact Hk. apply Sum_nonneg. intros j Hj. apply Qc_mul_nonneg; [apply Ha| apply Hb].
  - rewrite vget_overflow by (rewrite conv_length; exact Hk). apply Qcle_refl.
Qed.

Section Floor.
Variable cv : vec -> vec -> vec.
Variable G : nat.
Hypothesis cv_length : forall a b, length (cv a b) = G.
Hypothesis cv_dominates : forall a b k, (k < G)%nat -> vnonneg a -> vnonneg b ->
  vget (conv G a b) k <= vget (cv a b) k.

Definition rel (c c' : vec) : Prop := vnonneg c /\ vnonneg c' /\ vle G c c'.

Lemma cv_nonneg a b : vnonneg a -> vnonneg b -> vnonneg (cv a b).
Proof.
  intros Ha Hb k. destruct (Nat.lt_ge_cases k G) as [Hk|Hk].
  - apply Qcle_trans with (vget (conv G a b) k); [apply conv_nonneg; assumption| apply cv_dominates; assumption].
  - rewrite vget_overflow by (rewrite cv_length; exact Hk). apply Qcle_refl.
Qed.

Lemma step_rel c c' acc acc' : rel c c' -> rel acc acc' -> rel (conv G c acc) (cv c' acc').
Proof.
  intros [Hc [Hc' Hcc]] [Ha [Ha' Haa]]. split; [apply conv_nonneg; assumption|].
  split; [apply cv_nonneg; assumption|].
  intros k Hk. apply Qcle_trans with (vget (conv G c' acc') k).
  - apply conv_mono; assumption.
  - apply cv_dominates; assumption.
Qed.

Lemma fold_rel rest rest' : Forall2 rel rest rest' -> forall acc acc', rel acc acc' ->
  rel (fold_left (fun acc c => conv G c acc) rest acc) (fold_left (fun acc c => cv c acc) rest' acc').
Proof.
  induction 1 as [|c c' rest rest' Hc _ IH]; intros acc acc' Hacc; cbn [fold_left]; [exact Hacc|].
  apply IH. apply step_rel; assumption.
Qed.

Lemma D_rel cs cs' : Forall2 rel cs cs' -> cs <> [] -> rel (D G cs) (Dg cv G cs').
Proof.
  intros HF Hne. destruct HF as [|c0 c0' r r' H0 HF]; [congruence|].
  destruct HF as [|c1 c1' r r' H1 HF]; cbn [D Dg]; [exact H0|].
  apply fold_rel; [exact HF| apply step_rel; assumption].
Qed.

Lemma Dg_fold_length rest : forall acc, length acc = G ->
  length (fold_left (fun acc c => cv c acc) rest acc) = G.
Proof. induction rest as [|c rest IH]; intros acc Hl; cbn [fold_left]; [exact Hl| apply IH, cv_length]. Qed.
Lemma Dg_length cs : cs <> [] -> (forall c, In c cs -> length c = G) -> length (Dg cv G cs) = G.
Proof.
  intros Hne Hl. destruct cs as [|c0 [|c1 rest]]; [congruence| |]; cbn [Dg].
  - apply Hl. left. reflexivity.
  - apply Dg_fold_length, cv_length.
Qed.
Lemma Rg_length t : length (Rg cv G t) = G.
Proof. destruct t as [ds [|k r]]; cbn [Rg]; [apply pvec_length| apply vmul_length]. Qed.

Theorem floor_monotone_rel t : pos_data G t -> rel (R G t) (Rg cv G t).
Proof.
  induction t as [ds ks IH] using tree_ind'. intros Hpos.
  assert (HR : vnonneg (R G (Node ds ks))).
  { intros x. destruct (Nat.lt_ge_cases x G) as [Hx|Hx]; [apply Qc_lt_le, R_positive; assumption|].
    rewrite vget_R_out by exact Hx. apply Qcle_refl. }
  assert (Hle : vle G (R G (Node ds ks)) (Rg cv G (Node ds ks))).
  { intros x Hx. destruct ks as [|k r].
  - cbn [R Rg]. apply Qcle_refl.
  - change (R G (Node ds (k :: r))) with (vmul G (pvec G ds) (logS G (map (R G) (k :: r)))).
    change (Rg cv G (Node ds (k :: r))) with (vmul G (pvec G ds) (logSg cv G (map (Rg cv G) (k :: r)))).
    unfold vmul. rewrite !vec_of_nth by exact Hx.
    assert (Hp : 0 <= vget (pvec G ds) x).
    { rewrite pvec_nth by exact Hx. apply Qc_lt_le, node_p_pos; [exact Hx|].
      intros d Hd. apply (Hpos ds); [left; reflexivity| exact Hd| exact Hx]. }
    rewrite (Qcmult_comm _ (vget (logS _ _) x)), (Qcmult_comm _ (vget (logSg _ _ _) x)).
    apply Qcmult_le_compat_r; [|exact Hp].
    assert (HF : Forall2 rel (map (R G) (k :: r)) (map (Rg cv G) (k :: r))).
    { assert (Hsub : forall t, In t (k :: r) -> pos_data G t).
      { intros t Ht ds' Hds'. apply Hpos. cbn [payloads]. right. apply in_flat_map. exists t. split; assumption. }
      revert IH Hsub. generalize (k :: r). intros l IH Hsub.
      induction IH as [|t l Ht _ IHl]; cbn [map]; constructor.
      - apply Ht. apply Hsub. left. reflexivity.
      - apply IHl. intros t' Ht'. apply Hsub. right. exact Ht'. }
    assert (Hne : map (R G) (k :: r) <> []) by (cbn [map]; discriminate).
    assert (Hne' : map (Rg cv G) (k :: r) <> []) by (cbn [map]; discriminate).
    pose proof (D_rel _ _ HF Hne) as [_ [_ HD]].
    assert (HL : length (D G (map (R G) (k :: r))) = G).
    { apply D_length; [exact Hne|]. intros c Hc. apply in_map_iff in Hc. destruct Hc as [t [<- _]]. apply R_length. }
    assert (HL' : length (Dg cv G (map (Rg cv G) (k :: r))) = G).
    { apply Dg_length; [exact Hne'|]. intros c Hc. apply in_map_iff in Hc. destruct Hc as [t [<- _]]. apply Rg_length. }
    unfold logS, logSg. cbn [map]. cbn [map] in HL, HL', HD.
    rewrite !cumsum_nth by (rewrite ?HL, ?HL'; exact Hx).
    apply Qcplus_le_compat; [apply Qcle_refl|]. apply Sum_le. intros j Hj. apply HD. lia. }
  split; [exact HR|]. split; [|exact Hle].
  intros x. destruct (Nat.lt_ge_cases x G) as [Hx|Hx].
  - apply Qcle_trans with (vget (R G (Node ds ks)) x); [apply HR| apply Hle; exact Hx].
  - rewrite vget_overflow by (rewrite Rg_length; exact Hx). apply Qcle_refl.
Qed.
End Floor.

Theorem floor_monotone : forall (cv : vec -> vec -> vec) (G : nat),
  (forall a b, length (cv a b) = G) ->
  (forall a b k, (k < G)%nat -> (forall i, 0 <= vget a i) -> (forall i, 0 <= vget b i) ->
                 vget (conv G a b) k <= vget (cv a b) k) ->
  forall t, pos_data G t -> forall x, (x < G)%nat -> vget (R G t) x <= vget (Rg cv G t) x.
Proof.
  intros cv G Hl Hd t Hpos x Hx.
  destruct (floor_monotone_rel cv G Hl Hd t Hpos) as [_ [_ H]]. apply H. exact Hx.
Qed.
