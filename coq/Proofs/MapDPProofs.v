(* C10 proofs: the traced assignment is feasible and attains the maximum over all feasible assignments. *)
From PV Require Import Model.MapDP Proofs.MarginalSums.
Local Open Scope Z_scope.

(* ---------- vectors ---------- *)
Lemma nth_map_seq' {X} (F : nat -> X) n s d : (s < n)%nat -> nth s (map F (seq 0 n)) d = F s.
Proof.
  intros Hs. rewrite (nth_indep _ d (F 0%nat)) by (rewrite map_length, seq_length; exact Hs).
  rewrite (map_nth F), seq_nth by exact Hs. reflexivity.
Qed.
Lemma zvec_of_nth G f i : (i < G)%nat -> zget (zvec_of G f) i = f i.
Proof. intros Hi. unfold zget, zvec_of. apply nth_map_seq'. exact Hi. Qed.
Lemma zeros_nth G i : zget (zvec_of G (fun _ => 0)) i = 0.
Proof.
  destruct (Nat.lt_ge_cases i G) as [Hi|Hi]; [apply zvec_of_nth; exact Hi|].
  unfold zget, zvec_of. apply nth_overflow. rewrite map_length, seq_length. exact Hi.
Qed.

(* ---------- one max-convolution entry ---------- *)
Definition dn_inv (r d : zvec) (i n : nat) (cb : nat * Z) : Prop :=
  (fst cb <= n)%nat /\ snd cb = zget r (fst cb) + zget d (i - fst cb)%nat
  /\ forall j, (j <= n)%nat -> zget r j + zget d (i - j)%nat <= snd cb.

Lemma dn_fold_inv r d i n :
  dn_inv r d i n (fold_left (fun cb j => let v := zget r j + zget d (i - j)%nat in if v >=? snd cb then (j, v) else cb)
                            (seq 1 n) (0%nat, zget r 0 + zget d i)).
Proof.
  induction n as [|n IH].
  - cbn [seq fold_left]. unfold dn_inv. cbn [fst snd]. rewrite Nat.sub_0_r. split; [lia|]. split; [reflexivity|].
    intros j Hj. assert (j = 0)%nat by lia. subst j. rewrite Nat.sub_0_r. lia.
  - rewrite seq_S, fold_left_app. cbn [fold_left Nat.add].
    set (cb := fold_left _ (seq 1 n) _) in *. destruct IH as [H1 [H2 H3]].
    cbv zeta. destruct (Z.geb_spec (zget r (S n) + zget d (i - S n)%nat) (snd cb)) as [Hge|Hlt]; unfold dn_inv; cbn [fst snd].
    + split; [lia|]. split; [reflexivity|]. intros j Hj.
      destruct (Nat.eq_dec j (S n)) as [->|Hne]; [lia|]. specialize (H3 j). lia.
    + split; [lia|]. split; [exact H2|]. intros j Hj.
      destruct (Nat.eq_dec j (S n)) as [->|Hne]; [lia|]. apply H3. lia.
Qed.

Lemma dn_entry_spec r d i :
  (fst (dn_entry r d i) <= i)%nat
  /\ snd (dn_entry r d i) = zget r (fst (dn_entry r d i)) + zget d (i - fst (dn_entry r d i))%nat
  /\ forall j, (j <= i)%nat -> zget r j + zget d (i - j)%nat <= snd (dn_entry r d i).
Proof. exact (dn_fold_inv r d i i). Qed.

Lemma dn_choice_nth G r d i : (i < G)%nat -> nth i (fst (dn G r d)) 0%nat = fst (dn_entry r d i).
Proof. intros Hi. unfold dn. cbn [fst]. apply (nth_map_seq' (fun i => fst (dn_entry r d i))). exact Hi. Qed.
Lemma dn_value_nth G r d i : (i < G)%nat -> zget (snd (dn G r d)) i = snd (dn_entry r d i).
Proof. intros Hi. unfold dn, zget. cbn [snd]. apply (nth_map_seq' (fun i => snd (dn_entry r d i))). exact Hi. Qed.

(* ---------- running maximum ---------- *)
Lemma s_entry_spec d j :
  (fst (s_entry d j) <= j)%nat /\ snd (s_entry d j) = zget d (fst (s_entry d j))
  /\ forall j', (j' <= j)%nat -> zget d j' <= snd (s_entry d j).
Proof.
  induction j as [|j [H1 [H2 H3]]]; cbn [s_entry].
  - cbn [fst snd]. split; [lia|]. split; [reflexivity|]. intros j' Hj'. assert (j' = 0)%nat by lia. subst. lia.
  - cbv zeta. destruct (Z.gtb_spec (zget d (S j)) (snd (s_entry d j))) as [Hgt|Hle]; cbn [fst snd].
    + split; [lia|]. split; [reflexivity|]. intros j' Hj'.
      destruct (Nat.eq_dec j' (S j)) as [->|Hne]; [lia|]. specialize (H3 j'). lia.
    + split; [lia|]. split; [exact H2|]. intros j' Hj'.
      destruct (Nat.eq_dec j' (S j)) as [->|Hne]; [lia|]. apply H3. lia.
Qed.
Lemma S_choice_nth G d x : (x < G)%nat -> nth x (fst (compute_S G d)) 0%nat = fst (s_entry d x).
Proof. intros Hx. unfold compute_S. cbn [fst]. apply (nth_map_seq' (fun j => fst (s_entry d j))). exact Hx. Qed.
Lemma S_value_nth G d x : (x < G)%nat -> zget (snd (compute_S G d)) x = snd (s_entry d x).
Proof. intros Hx. unfold compute_S, zget. cbn [snd]. apply (nth_map_seq' (fun j => snd (s_entry d j))). exact Hx. Qed.

Lemma Rmax_nth G lp ks x : (x < G)%nat ->
  zget (Rmax G (Node lp ks)) x
  = zget lp x + snd (s_entry (snd (compute_D G (map (Rmax G) ks))) x).
Proof. intros Hx. cbn [Rmax]. rewrite zvec_of_nth by exact Hx. rewrite S_value_nth by exact Hx. reflexivity. Qed.

(* ---------- upper bound: no feasible assignment scores more than the table entry ---------- *)
Definition upper (G : nat) (t : ztree) : Prop :=
  forall v, feas t v = true -> (hd 0%nat v < G)%nat -> score t v <= zget (Rmax G t) (hd 0%nat v).

Lemma chain_upper G ks : Forall (upper G) ks ->
  forall acc w i a, (a + list_sum (tops ks w) = i)%nat -> (i < G)%nat ->
  all_true (segmap feas ks w) = true ->
  zget acc a + zsum (segmap score ks w) <= zget (snd (dchain G (map (Rmax G) ks) acc)) i.
Proof.
  induction 1 as [|k r Hk _ IH]; intros acc w i a Hsum Hi Hall.
  - cbn [map dchain snd segmap zsum fold_right]. unfold tops in Hsum. cbn [segmap list_sum fold_right] in Hsum.
    replace a with i by lia. lia.
  - unfold tops in Hsum. cbn [segmap] in Hsum, Hall |- *. fold (tops r (skipn (size k) w)) in Hsum.
    set (w1 := firstn (size k) w) in *. set (w2 := skipn (size k) w) in *.
    cbn [list_sum fold_right] in Hsum. fold (list_sum (tops r w2)) in Hsum.
    unfold all_true in Hall. cbn [forallb] in Hall. apply andb_prop in Hall. destruct Hall as [Hf1 Hf2].
    fold (all_true (segmap feas r w2)) in Hf2.
    cbn [map dchain snd zsum fold_right]. fold (zsum (segmap score r w2)).
    set (j := hd 0%nat w1) in *.
    specialize (IH (snd (dn G (Rmax G k) acc)) w2 i (a + j)%nat ltac:(lia) Hi Hf2).
    rewrite dn_value_nth in IH by lia.
    destruct (dn_entry_spec (Rmax G k) acc (a + j)) as [_ [_ Hmax]].
    specialize (Hmax j ltac:(lia)). replace (a + j - j)%nat with a in Hmax by lia.
    specialize (Hk w1 Hf1 ltac:(fold j; lia)). fold j in Hk. lia.
Qed.

Theorem upper_all G t : upper G t.
Proof.
  induction t as [lp ks IH] using tree_ind'. intros v Hf Hx. set (x := hd 0%nat v) in *.
  cbn [feas] in Hf. apply andb_prop in Hf. destruct Hf as [Hle Hall]. apply Nat.leb_le in Hle. fold x in Hle.
  rewrite Rmax_nth by exact Hx. cbn [score]. fold x.
  pose proof (chain_upper G ks IH (zvec_of G (fun _ => 0)) (tl v) (list_sum (tops ks (tl v))) 0%nat
                ltac:(lia) ltac:(lia) Hall) as Hc.
  rewrite zeros_nth in Hc. fold (compute_D G (map (Rmax G) ks)) in Hc.
  destruct (s_entry_spec (snd (compute_D G (map (Rmax G) ks))) x) as [_ [_ Hmax]].
  specialize (Hmax (list_sum (tops ks (tl v))) Hle). lia.
Qed.

(* ---------- the traceback realises the table entry ---------- *)
Fixpoint pick_sum (rs : list zvec) (js : list nat) : Z :=
  match rs, js with
  | r :: rs', j :: js' => zget r j + pick_sum rs' js'
  | _, _ => 0
  end.

Lemma chain_back G rs : forall acc t, (t < G)%nat ->
  let res := dchain G rs acc in
  let b := back (fst res) t in
  zget (snd res) t = pick_sum rs (fst b) + zget acc (snd b)
  /\ (snd b + list_sum (fst b) = t)%nat /\ length (fst b) = length rs.
Proof.
  induction rs as [|r rest IH]; intros acc t Ht; cbv zeta.
  - cbn [dchain fst snd back pick_sum list_sum fold_right length]. split; [lia|]. split; [lia|reflexivity].
  - cbn [dchain fst snd back]. cbv zeta. cbn [fst snd].
    specialize (IH (snd (dn G r acc)) t Ht). cbv zeta in IH. destruct IH as [Hv [Hs Hl]].
    set (res := dchain G rest (snd (dn G r acc))) in *. set (b := back (fst res) t) in *.
    assert (Ht1 : (snd b < G)%nat) by lia.
    rewrite dn_value_nth in Hv by exact Ht1. rewrite dn_choice_nth by exact Ht1.
    destruct (dn_entry_spec r acc (snd b)) as [Hc [Hval _]].
    set (j := fst (dn_entry r acc (snd b))) in *.
    cbn [pick_sum list_sum fold_right length]. fold (list_sum (fst b)).
    split; [lia|]. split; [lia|]. rewrite Hl. reflexivity.
Qed.

Definition good (G : nat) (t : ztree) : Prop :=
  forall x, (x < G)%nat ->
  hd 0%nat (trace G t x) = x /\ length (trace G t x) = size t /\ feas t (trace G t x) = true
  /\ score t (trace G t x) = zget (Rmax G t) x /\ Forall (fun i => (i < G)%nat) (trace G t x).

Lemma zip_props G ks : Forall (good G) ks ->
  forall js, length js = length ks -> Forall (fun j => (j < G)%nat) js ->
  let w := concat (zipmap (trace G) ks js) in
  length w = sizes ks /\ tops ks w = js /\ all_true (segmap feas ks w) = true
  /\ zsum (segmap score ks w) = pick_sum (map (Rmax G) ks) js /\ Forall (fun i => (i < G)%nat) w.
Proof.
  induction 1 as [|k r Hk _ IH]; intros js Hl Hb; cbv zeta.
  - destruct js; [|discriminate]. cbn. repeat split; constructor.
  - destruct js as [|j js]; [discriminate|]. cbn [length] in Hl. inversion Hb as [|? ? Hj Hb']; subst.
    destruct (Hk j Hj) as [Hhd [Hlen [Hfe [Hsc Hbd]]]].
    specialize (IH js ltac:(lia) Hb'). cbv zeta in IH. destruct IH as [I1 [I2 [I3 [I4 I5]]]].
    cbn [zipmap concat]. set (w2 := concat (zipmap (trace G) r js)) in *.
    unfold tops. rewrite !(segmap_cons_app _ k r (trace G k j) w2 Hlen). fold (tops r w2).
    split; [|split; [|split; [|split]]].
    + rewrite app_length, Hlen, I1. reflexivity.
    + rewrite Hhd, I2. reflexivity.
    + unfold all_true. cbn [forallb]. rewrite Hfe. exact I3.
    + cbn [zsum fold_right map pick_sum]. fold (zsum (segmap score r w2)). rewrite Hsc, I4. reflexivity.
    + apply Forall_app. split; assumption.
Qed.

Lemma list_sum_bound js t : (list_sum js <= t)%nat -> Forall (fun j => (j <= t)%nat) js.
Proof.
  revert t. induction js as [|j js IH]; intros t H; constructor; cbn [list_sum fold_right] in H.
  - lia.
  - fold (list_sum js) in H. eapply Forall_impl; [|apply (IH (list_sum js)); lia]. cbn. intros; lia.
Qed.

Theorem good_all G t : good G t.
Proof.
  induction t as [lp ks IH] using tree_ind'. intros x Hx.
  cbn [trace]. unfold child_idx. cbv zeta.
  set (cd := compute_D G (map (Rmax G) ks)).
  rewrite S_choice_nth by exact Hx.
  destruct (s_entry_spec (snd cd) x) as [Hc [Hsv _]]. set (t := fst (s_entry (snd cd) x)) in *.
  pose proof (chain_back G (map (Rmax G) ks) (zvec_of G (fun _ => 0)) t ltac:(lia)) as Hb.
  cbv zeta in Hb. fold (compute_D G (map (Rmax G) ks)) in Hb. fold cd in Hb.
  destruct Hb as [Hv [Hs Hl]]. rewrite zeros_nth in Hv. rewrite map_length in Hl.
  set (js := fst (back (fst cd) t)) in *.
  assert (Hjs : Forall (fun j => (j < G)%nat) js).
  { eapply Forall_impl; [|apply (list_sum_bound js t); lia]. cbn. intros; lia. }
  pose proof (zip_props G ks IH js Hl Hjs) as Hz. cbv zeta in Hz.
  set (w := concat (zipmap (trace G) ks js)) in *. destruct Hz as [Z1 [Z2 [Z3 [Z4 Z5]]]].
  cbn [hd tl length feas score size]. fold (sizes ks).
  split; [reflexivity|]. split; [rewrite Z1; reflexivity|]. split; [|split].
  - rewrite Z2, Z3. rewrite andb_true_r. apply Nat.leb_le. lia.
  - rewrite Rmax_nth by exact Hx. fold cd. rewrite Z4, Hsv. fold t. lia.
  - constructor; [exact Hx| exact Z5].
Qed.

(* ---------- forest level ---------- *)
Theorem map_assign_feasible G f : (1 <= G)%nat ->
  length (map_assign G f) = sizes f /\ Forall (fun i => (i < G)%nat) (map_assign G f)
  /\ ffeas f (G - 1) (map_assign G f) = true.
Proof.
  intros HG. destruct (good_all G (Node [] f) (G - 1)%nat ltac:(lia)) as [_ [Hlen [Hfe [_ Hb]]]].
  unfold map_assign. cbn [trace tl] in *. cbn [length size] in Hlen. fold (sizes f) in Hlen.
  split; [lia|]. split; [inversion Hb; assumption|]. cbn [feas hd tl] in Hfe. exact Hfe.
Qed.

Theorem map_assign_optimal G f w : (1 <= G)%nat -> ffeas f (G - 1) w = true ->
  fscore f w <= fscore f (map_assign G f).
Proof.
  intros HG Hw.
  destruct (good_all G (Node [] f) (G - 1)%nat ltac:(lia)) as [_ [_ [_ [Hsc _]]]].
  pose proof (upper_all G (Node [] f) ((G - 1)%nat :: w)) as Hu. cbn [feas hd tl] in Hu.
  specialize (Hu Hw ltac:(lia)).
  unfold map_assign. cbn [trace tl score hd] in *. fold (fscore f w) in Hu.
  match type of Hsc with _ + zsum (segmap score f ?W) = _ => fold (fscore f W) in Hsc end.
  lia.
Qed.

(* ---------- prevalences ---------- *)
Local Open Scope Qc_scope.
Lemma sum_ccf G l : sumq (map (ccf G) l) = qn (list_sum l) / qn (G - 1)%nat.
Proof.
  induction l as [|a l IH]; cbn [map sumq list_sum fold_right].
  - rewrite qn_0. unfold Qcdiv. ring.
  - fold (list_sum l). rewrite IH, qn_add. unfold ccf, Qcdiv. ring.
Qed.
Lemma qn_le a b : (a <= b)%nat -> qn a <= qn b.
Proof. intros H. replace b with (a + (b - a))%nat by lia. rewrite qn_add. pose proof (qn_nonneg (b - a)). qc_lra. Qed.
Lemma inv_nonneg (c : Qc) : 0 <= c -> 0 <= / c.
Proof.
  intros Hc. destruct (Qc_eq_dec c 0) as [->|Hne]; [apply Qcle_refl|].
  apply Qc_lt_le, Qc_inv_pos. destruct (Qcle_lt_or_eq _ _ Hc) as [H|H]; [exact H| congruence].
Qed.

Lemma prevs_nonneg G t : forall v, feas t v = true -> Forall (fun p => 0 <= p) (prevs G t v).
Proof.
  induction t as [lp ks IH] using tree_ind'. intros v Hf. cbn [feas] in Hf.
  apply andb_prop in Hf. destruct Hf as [Hle Hall]. apply Nat.leb_le in Hle.
  cbn [prevs]. constructor.
  - rewrite sum_ccf. unfold ccf, Qcdiv.
    match goal with |- 0 <= ?a * ?c - ?b * ?c => replace (a * c - b * c) with ((a - b) * c) by ring end.
    apply Qc_mul_nonneg; [|apply inv_nonneg, qn_nonneg].
    pose proof (qn_le _ _ Hle) as Hq. revert Hq. generalize (qn (hd 0%nat v)), (qn (list_sum (tops ks (tl v)))).
    intros a b Hq. unfold Qcminus. apply -> Qcle_minus_iff. exact Hq.
  - clear Hle. revert Hall. generalize (tl v). induction IH as [|k r Hk _ IHr]; intros w Hall; cbn [segmap concat]; [constructor|].
    unfold all_true in Hall. cbn [segmap forallb] in Hall. apply andb_prop in Hall. destruct Hall as [H1 H2].
    apply Forall_app. split; [apply Hk; exact H1| apply IHr; exact H2].
Qed.

Theorem fprevs_nonneg G f w : ffeas f (G - 1) w = true -> Forall (fun p => 0 <= p) (fprevs G f w).
Proof.
  intros H. pose proof (prevs_nonneg G (Node [] f) ((G - 1)%nat :: w)) as Hp.
  cbn [feas hd tl prevs] in Hp. specialize (Hp H). inversion Hp; assumption.
Qed.

(* top-level fractions sum to at most one *)
Theorem top_ccf_le_one G (f : list ztree) w : (2 <= G)%nat -> ffeas f (G - 1) w = true ->
  sumq (map (ccf G) (tops f w)) <= 1.
Proof.
  intros HG H. unfold ffeas in H. apply andb_prop in H. destruct H as [Hle _]. apply Nat.leb_le in Hle.
  rewrite sum_ccf. pose proof (qn_le _ _ Hle) as Hq. pose proof (qn_pos (G - 1) ltac:(lia)) as Hp.
  unfold Qcdiv. replace 1 with (qn (G - 1) * / qn (G - 1)) by (field; apply Qc_pos_neq0; exact Hp).
  apply Qcmult_le_compat_r; [exact Hq| apply Qc_lt_le, Qc_inv_pos; exact Hp].
Qed.
