(* Completeness of the grammar: every forest over the points of an order that is compatible with the order is built by
   some valid word (C08: "every tree compatible with the data order is reachable"). *)
From PV Require Import Model.Grammar Proofs.ProposalsPoint Proofs.GrammarSound.
From Coq Require Import Bool.

Lemma gvalid_length on : forall sig w s, gvalid on s sig w -> length w = length sig.
Proof.
  induction sig as [|x sig IH]; intros [|a w] s H; cbn [gvalid] in H; try contradiction; [reflexivity|].
  destruct H as [_ H]. cbn [length]. f_equal. eapply IH. exact H.
Qed.
Lemma grun_snoc : forall sig w s x a, length w = length sig -> grun s (sig ++ [x]) (w ++ [a]) = gstep (grun s sig w) x a.
Proof.
  induction sig as [|z sig IH]; intros [|b w] s x a Hl; cbn [length] in Hl; try discriminate; cbn [app grun]; [reflexivity|].
  apply IH. lia.
Qed.
Lemma gvalid_snoc on : forall sig w s x a, gvalid on s sig w -> In a (gsupp on (grun s sig w)) -> gvalid on s (sig ++ [x]) (w ++ [a]).
Proof.
  induction sig as [|z sig IH]; intros [|b w] s x a Hv Ha; cbn [gvalid] in Hv; try contradiction; cbn [app gvalid grun] in *.
  - split; [exact Ha| exact I].
  - destruct Hv as [Hb Hv]. split; [exact Hb| apply IH; assumption].
Qed.

Lemma existsb_false {X} (f : X -> bool) l : existsb f l = false -> forall z, In z l -> f z = false.
Proof.
  intros H z Hz. destruct (f z) eqn:E; [|reflexivity]. rewrite (proj2 (existsb_exists f l)) in H; [discriminate| exists z; auto].
Qed.

(* every filter of a list is one of its sub-lists of that size *)
Lemma filter_in_subsets {X} (P : X -> bool) : forall l, In (filter P l) (subsets_k (length (filter P l)) l).
Proof.
  induction l as [|a l IH]; cbn [filter]; [left; reflexivity|].
  destruct (P a); cbn [length subsets_k].
  - apply in_or_app. left. apply in_map. exact IH.
  - destruct (length (filter P l)) eqn:El.
    + destruct (filter P l); [left; reflexivity| discriminate].
    + apply in_or_app. right. exact IH.
Qed.
Lemma filter_length_le {X} (P : X -> bool) l : (length (filter P l) <= length l)%nat.
Proof. induction l as [|a l IH]; cbn [filter length]; [lia| destruct (P a); cbn [length]; lia]. Qed.

Lemma in_pick_filter d l (P : nat -> bool) y :
  In y (pick d l (filter (fun i => P (nth i l d)) (seq 0 (length l)))) <-> In y l /\ P y = true.
Proof.
  unfold pick. rewrite in_map_iff. split.
  - intros [i [<- Hi]]. apply filter_In in Hi. destruct Hi as [Hi HP]. apply in_seq in Hi. split; [apply nth_In; lia| exact HP].
  - intros [Hy HP]. destruct (In_nth l y d Hy) as [i [Hi He]]. exists i. split; [exact He|].
    apply filter_In. split; [apply in_seq; lia| rewrite He; exact HP].
Qed.

Lemma existing_in_places R on i : (i < R)%nat -> In (Existing i) (all_places R on).
Proof. intros H. unfold all_places. apply in_or_app. left. apply in_map. unfold roots_of. apply in_seq. lia. Qed.
Lemma new_in_places R on (P : nat -> bool) : In (NewOver (filter P (roots_of R))) (all_places R on).
Proof.
  unfold all_places. apply in_or_app. right. apply in_or_app. left. unfold new_places. apply in_flat_map.
  exists (length (filter P (roots_of R))). split.
  - apply in_seq. pose proof (filter_length_le P (roots_of R)) as H. unfold roots_of in H at 2. rewrite seq_length in H. lia.
  - apply in_map. apply filter_in_subsets.
Qed.
Lemma outlier_in_places R : In Outlier (all_places R true).
Proof. unfold all_places. apply in_or_app. right. apply in_or_app. right. left. reflexivity. Qed.

(* the restriction of a forest to the points other than x *)
Definition drop (x : nat) (r : rel) : rel := fun a b => if (a =? x) || (b =? x) then false else r a b.
Lemma drop_old x r a b : a <> x -> b <> x -> drop x r a b = r a b.
Proof. intros Ha Hb. unfold drop. apply Nat.eqb_neq in Ha, Hb. rewrite Ha, Hb. reflexivity. Qed.
Lemma drop_true x r a b : drop x r a b = true -> a <> x /\ b <> x /\ r a b = true.
Proof.
  unfold drop. destruct (Nat.eqb_spec a x), (Nat.eqb_spec b x); cbn [orb]; try discriminate. auto.
Qed.

Lemma wf_drop sig x r : ~ In x sig -> wf (sig ++ [x]) r -> wf sig (drop x r).
Proof.
  intros Hx [Hd Hr Ht Hc]. constructor.
  - intros a b H. apply drop_true in H. destruct H as [Ha [Hb H]]. destruct (Hd _ _ H) as [H1 H2].
    apply in_app_or in H1. apply in_app_or in H2.
    destruct H1 as [H1|[H1|[]]]; [|congruence]. destruct H2 as [H2|[H2|[]]]; [|congruence]. split; assumption.
  - intros a b H. apply drop_true in H. destruct H as [Ha [Hb H]]. rewrite !drop_old by assumption. apply Hr; assumption.
  - intros a b c H1 H2. apply drop_true in H1, H2. destruct H1 as [Ha [Hb H1]], H2 as [_ [Hcx H2]].
    rewrite drop_old by assumption. eapply Ht; eassumption.
  - intros a b c H1 H2. apply drop_true in H1, H2. destruct H1 as [Ha [Hcx H1]], H2 as [Hb [_ H2]].
    rewrite !drop_old by assumption. eapply Hc; eassumption.
Qed.

Theorem grammar_complete on : forall sig r,
  NoDup sig -> wf sig r -> (on = false -> no_outliers sig r) -> compat (rev sig) r ->
  exists w, gvalid on g0 sig w /\ forall a b, gle (grun g0 sig w) a b = r a b.
Proof.
  induction sig as [|x sig IH] using rev_ind; intros r Hnd Hwf Hno Hc.
  - exists []. split; [exact I|]. intros a b. cbn. destruct (r a b) eqn:E; [|reflexivity].
    destruct (wf_dom _ _ Hwf a b E) as [[] _].
  - apply NoDup_remove in Hnd. rewrite app_nil_r in Hnd. destruct Hnd as [Hnd Hx].
    rewrite rev_app_distr in Hc. cbn [rev app compat] in Hc. destruct Hc as [Hhead Hc].
    destruct (IH (drop x r)) as [w [Hv Heq]].
    + exact Hnd.
    + apply wf_drop; assumption.
    + intros Hon a Ha. rewrite drop_old by (intros ->; contradiction). apply (Hno Hon). apply in_or_app. left. exact Ha.
    + apply (compat_ext _ r); [|exact Hc]. intros a b Ha Hb. apply in_rev in Ha, Hb.
      rewrite drop_old; [reflexivity| intros ->; contradiction| intros ->; contradiction].
    + set (s := grun g0 sig w) in *.
      destruct (grun_inv on sig w g0 ginv_g0 Hnd (fun _ _ H => H) Hv) as [Hinv Hpl]. fold s in Hinv, Hpl.
      cbn [g0 gpl] in Hpl. rewrite app_nil_r in Hpl.
      assert (Hxs : ~ In x (gpl s)) by (rewrite Hpl; intros H; apply in_rev in H; contradiction).
      pose proof (gvalid_length _ _ _ _ Hv) as Hlen.
      destruct Hwf as [Hd Hr Ht Hch].
      assert (Hold : forall a, a <> x -> In a (sig ++ [x]) -> In a sig).
      { intros a Ha H. apply in_app_or in H. destruct H as [H|[H|[]]]; [exact H| congruence]. }
      assert (Hroot_sig : forall y, In y (groots s) -> In y sig /\ y <> x).
      { intros y Hy. pose proof (root_placed s Hinv y Hy) as H. rewrite Hpl in H. apply in_rev in H. split; [exact H| intros ->; contradiction]. }
      (* the letter, and the proof that the step reproduces r *)
      assert (Hgoal : exists a, In a (gsupp on s) /\ forall p q, gle (gstep s x a) p q = r p q).
      { destruct (r x x) eqn:Exx.
        - destruct (existsb (fun z => r z x) sig) eqn:Eex.
          + (* joins the top-level clone of an older point *)
            apply existsb_exists in Eex. destruct Eex as [z [Hz Hzx]].
            assert (Hzne : z <> x) by (intros ->; contradiction).
            assert (Hxz : r x z = true) by (apply Hhead; [rewrite <- in_rev; exact Hz| exact Hzx]).
            assert (Hzz : gle s z z = true) by (rewrite Heq, drop_old by assumption; apply (Hr _ _ Hzx)).
            destruct (gi_rcov s Hinv z Hzz) as [y [Hy Hyz]]. destruct (Hroot_sig y Hy) as [Hys Hyne].
            rewrite Heq, drop_old in Hyz by assumption.
            assert (Hyx : r y x = true) by (eapply Ht; eassumption).
            assert (Hxy : r x y = true) by (apply Hhead; [rewrite <- in_rev; exact Hys| exact Hyx]).
            destruct (In_nth _ _ x Hy) as [i [Hi Hnth]].
            exists (Existing i). split; [apply existing_in_places; exact Hi|].
            intros p q. cbn [gstep gle]. rewrite Hnth.
            destruct (Nat.eqb_spec p x) as [->|Hp]; destruct (Nat.eqb_spec q x) as [->|Hq].
            * symmetry. exact Exx.
            * rewrite Heq, drop_old by assumption. destruct (r x q) eqn:E1.
              -- eapply Ht; eassumption.
              -- destruct (r y q) eqn:E2; [|reflexivity]. rewrite <- E1. symmetry. eapply Ht; eassumption.
            * rewrite Heq, drop_old by assumption. destruct (r p x) eqn:E1.
              -- eapply Ht; eassumption.
              -- destruct (r p y) eqn:E2; [|reflexivity]. rewrite <- E1. symmetry. eapply Ht; eassumption.
            * rewrite Heq, drop_old by assumption. reflexivity.
          + (* a new clone above the top-level clones it is an ancestor of *)
            pose proof (existsb_false _ _ Eex) as Hnone. cbn beta in Hnone. clear Eex.
            exists (NewOver (filter (fun i => r x (nth i (groots s) x)) (roots_of (length (groots s))))). split; [apply new_in_places|].
            intros p q. cbn [gstep gle]. unfold roots_of.
            destruct (Nat.eqb_spec p x) as [->|Hp]; destruct (Nat.eqb_spec q x) as [->|Hq]; cbn [orb].
            * symmetry. exact Exx.
            * destruct (r x q) eqn:E1.
              -- apply existsb_exists. destruct (Hd _ _ E1) as [_ Hqin]. apply Hold in Hqin; [|exact Hq].
                 assert (Hqq : gle s q q = true) by (rewrite Heq, drop_old by assumption; apply (Hr _ _ E1)).
                 destruct (gi_rcov s Hinv q Hqq) as [y [Hy Hyq]]. destruct (Hroot_sig y Hy) as [Hys Hyne].
                 exists y. split; [|exact Hyq]. apply in_pick_filter. split; [exact Hy|].
                 rewrite Heq, drop_old in Hyq by assumption.
                 destruct (Hch _ _ _ E1 Hyq) as [H|H]; [exact H|]. rewrite (Hnone y Hys) in H. discriminate.
              -- destruct (existsb (fun r0 => gle s r0 q) _) eqn:E2; [|reflexivity]. apply existsb_exists in E2. destruct E2 as [y [Hy Hyq]].
                 apply in_pick_filter in Hy. destruct Hy as [Hy Hxy]. destruct (Hroot_sig y Hy) as [Hys Hyne].
                 rewrite Heq, drop_old in Hyq by assumption. rewrite <- E1. symmetry. eapply Ht; eassumption.
            * destruct (r p x) eqn:E1; [|reflexivity]. destruct (Hd _ _ E1) as [Hpin _]. apply Hold in Hpin; [|exact Hp].
              rewrite (Hnone p Hpin) in E1. discriminate.
            * rewrite Heq, drop_old by assumption. reflexivity.
        - (* an outlier *)
          assert (Hon : on = true).
          { destruct on; [reflexivity|]. rewrite (Hno eq_refl x) in Exx; [discriminate| apply in_or_app; right; left; reflexivity]. }
          subst on. exists Outlier. split; [apply outlier_in_places|].
          intros p q. cbn [gstep gle]. rewrite Heq. unfold drop.
          destruct (Nat.eqb_spec p x) as [->|Hp]; cbn [orb].
          + destruct (r x q) eqn:E; [|reflexivity]. rewrite (proj1 (Hr _ _ E)) in Exx. discriminate.
          + destruct (Nat.eqb_spec q x) as [->|Hq]; [|reflexivity].
            destruct (r p x) eqn:E; [|reflexivity]. rewrite (proj2 (Hr _ _ E)) in Exx. discriminate. }
      destruct Hgoal as [a [Ha Hstep]].
      exists (w ++ [a]). split.
      * apply gvalid_snoc; assumption.
      * intros p q. rewrite grun_snoc by exact Hlen. apply Hstep.
Qed.
