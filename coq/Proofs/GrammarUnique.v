(* Uniqueness: two valid words along the same order that build the same forest are the same word.  Together with
   soundness and completeness: the map word -> forest is a bijection between the valid words along an order and the
   forests compatible with it. *)
From PV Require Import Model.Grammar Proofs.ProposalsPoint Proofs.GrammarSound Proofs.GrammarComplete.
From Coq Require Import Bool.

(* what a later placement leaves untouched *)
Lemma gstep_frozen s x a p q : p <> x -> q <> x -> gle (gstep s x a) p q = gle s p q.
Proof.
  intros Hp Hq. apply Nat.eqb_neq in Hp, Hq. destruct a; cbn [gstep gle]; rewrite ?Hp, ?Hq; reflexivity.
Qed.
Lemma grun_frozen : forall sig w s p q, ~ In p sig -> ~ In q sig -> gle (grun s sig w) p q = gle s p q.
Proof.
  induction sig as [|x sig IH]; intros [|a w] s p q Hp Hq; cbn [grun]; try reflexivity.
  rewrite IH.
  - apply gstep_frozen; intros ->; [apply Hp| apply Hq]; left; reflexivity.
  - intros H; apply Hp; right; exact H.
  - intros H; apply Hq; right; exact H.
Qed.

(* two sub-lists of a duplicate-free list with the same elements are equal *)
Lemma subsets_k_ext {X} (l : list X) : NoDup l -> forall k1 k2 s1 s2,
  In s1 (subsets_k k1 l) -> In s2 (subsets_k k2 l) -> (forall i, In i s1 <-> In i s2) -> s1 = s2.
Proof.
  induction 1 as [|a r Ha Hnd IH]; intros k1 k2 s1 s2 H1 H2 He.
  - destruct k1, k2; cbn [subsets_k] in H1, H2; try contradiction; destruct H1 as [<-|[]], H2 as [<-|[]]; reflexivity.
  - assert (Hcase : forall k s, In s (subsets_k k (a :: r)) ->
              (exists s', s = a :: s' /\ exists k', In s' (subsets_k k' r)) \/ (exists k', In s (subsets_k k' r))).
    { intros [|k] s Hs; cbn [subsets_k] in Hs.
      - destruct Hs as [<-|[]]. right. exists 0%nat. destruct r; left; reflexivity.
      - apply in_app_or in Hs. destruct Hs as [Hs|Hs].
        + apply in_map_iff in Hs. destruct Hs as [s' [<- Hs']]. left. exists s'. split; [reflexivity| exists k; exact Hs'].
        + right. exists (S k). exact Hs. }
    assert (Hsub : forall k s, In s (subsets_k k r) -> ~ In a s).
    { intros k s Hs Hin. destruct (subsets_k_sub _ _ _ Hs) as [Hs1 _]. apply Ha. apply Hs1. exact Hin. }
    destruct (Hcase _ _ H1) as [[s1' [-> [k1' H1']]]|[k1' H1']]; destruct (Hcase _ _ H2) as [[s2' [-> [k2' H2']]]|[k2' H2']].
    + f_equal. apply (IH k1' k2'); try assumption. intros i. split; intros Hi.
      * destruct (proj1 (He i) (or_intror Hi)) as [<-|H]; [exfalso; apply (Hsub _ _ H1' Hi)| exact H].
      * destruct (proj2 (He i) (or_intror Hi)) as [<-|H]; [exfalso; apply (Hsub _ _ H2' Hi)| exact H].
    + exfalso. apply (Hsub _ _ H2'). apply He. left. reflexivity.
    + exfalso. apply (Hsub _ _ H1'). apply He. left. reflexivity.
    + apply (IH k1' k2'); assumption.
Qed.

(* two different sub-lists differ on some element of the list *)
Lemma subsets_differ (l : list nat) : NoDup l -> forall k1 k2 s1 s2,
  In s1 (subsets_k k1 l) -> In s2 (subsets_k k2 l) -> s1 <> s2 ->
  exists i, In i l /\ ((In i s1 /\ ~ In i s2) \/ (In i s2 /\ ~ In i s1)).
Proof.
  intros Hnd k1 k2 s1 s2 H1 H2 Hne.
  destruct (filter (fun i => xorb (memb i s1) (memb i s2)) l) as [|i rest] eqn:Ef.
  - exfalso. apply Hne. apply (subsets_k_ext l Hnd k1 k2); try assumption.
    assert (Hall : forall i, In i l -> memb i s1 = memb i s2).
    { intros i Hi. destruct (xorb (memb i s1) (memb i s2)) eqn:Ex.
      - assert (In i (filter (fun i => xorb (memb i s1) (memb i s2)) l)) by (apply filter_In; auto). rewrite Ef in H. contradiction.
      - apply xorb_eq. exact Ex. }
    destruct (subsets_k_sub _ _ _ H1) as [S1 _]. destruct (subsets_k_sub _ _ _ H2) as [S2 _].
    intros i. split; intros Hi.
    + apply memb_in. rewrite <- Hall by (apply S1; exact Hi). apply memb_in. exact Hi.
    + apply memb_in. rewrite Hall by (apply S2; exact Hi). apply memb_in. exact Hi.
  - assert (Hi : In i (filter (fun i => xorb (memb i s1) (memb i s2)) l)) by (rewrite Ef; left; reflexivity).
    apply filter_In in Hi. destruct Hi as [Hil Hx]. exists i. split; [exact Hil|].
    destruct (memb i s1) eqn:E1, (memb i s2) eqn:E2; cbn [xorb] in Hx; try discriminate.
    + left. split; [apply memb_in; exact E1| intros H; apply memb_in in H; congruence].
    + right. split; [apply memb_in; exact E2| intros H; apply memb_in in H; congruence].
Qed.

Section Sep.
Variable on : bool.
Variable s : gst.
Variable x : nat.
Hypothesis Hinv : ginv s.
Hypothesis Hx : ~ In x (gpl s).

Definition scope (p : nat) : Prop := p = x \/ In p (gpl s).
Definition differ (a1 a2 : place) : Prop :=
  exists p q, scope p /\ scope q /\ gle (gstep s x a1) p q <> gle (gstep s x a2) p q.
Lemma differ_sym a1 a2 : differ a1 a2 -> differ a2 a1.
Proof. intros [p [q [Hp [Hq H]]]]. exists p, q. repeat split; try assumption. intros E. apply H. symmetry. exact E. Qed.

Lemma nth_root i : (i < length (groots s))%nat -> In (nth i (groots s) x) (groots s).
Proof. intros H. apply nth_In. exact H. Qed.

Lemma outlier_vs a : In a (gsupp on s) -> a <> Outlier -> differ Outlier a.
Proof.
  intros Ha Hne. exists x, x. split; [left; reflexivity| split; [left; reflexivity|]].
  pose proof (fresh_row s x Hinv Hx x) as Hf.
  destruct a as [i|sub|]; [| |congruence]; cbn [gstep gle]; rewrite Nat.eqb_refl, Hf; discriminate.
Qed.

Lemma existing_vs_existing i j : (i < length (groots s))%nat -> (j < length (groots s))%nat -> i <> j -> differ (Existing i) (Existing j).
Proof.
  intros Hi Hj Hne. set (yi := nth i (groots s) x). set (yj := nth j (groots s) x).
  pose proof (nth_root i Hi) as Hyi. pose proof (nth_root j Hj) as Hyj. fold yi in Hyi. fold yj in Hyj.
  pose proof (root_neq s x Hinv Hx yi Hyi) as Hn.
  exists x, yi. split; [left; reflexivity| split; [right; apply (root_placed s Hinv); exact Hyi|]].
  cbn [gstep gle]. fold yi yj. apply Nat.eqb_neq in Hn. rewrite Nat.eqb_refl, Hn.
  rewrite (proj1 (gi_rtop s Hinv yi Hyi)).
  destruct (gle s yj yi) eqn:E; [|discriminate]. exfalso.
  pose proof (gi_rsep s Hinv yj yi Hyj Hyi E) as Heq. unfold yi, yj in Heq.
  apply (proj1 (NoDup_nth (groots s) x) (gi_rnd s Hinv)) in Heq; [congruence| exact Hj| exact Hi].
Qed.

Lemma existing_vs_new i sub : (i < length (groots s))%nat -> differ (Existing i) (NewOver sub).
Proof.
  intros Hi. set (yi := nth i (groots s) x). pose proof (nth_root i Hi) as Hyi. fold yi in Hyi.
  pose proof (root_neq s x Hinv Hx yi Hyi) as Hn.
  exists yi, x. split; [right; apply (root_placed s Hinv); exact Hyi| split; [left; reflexivity|]].
  cbn [gstep gle]. fold yi. apply Nat.eqb_neq in Hn. rewrite Nat.eqb_refl, Hn.
  rewrite (proj1 (gi_rtop s Hinv yi Hyi)). discriminate.
Qed.

Lemma new_vs_new sub1 sub2 : In (NewOver sub1) (gsupp on s) -> In (NewOver sub2) (gsupp on s) -> sub1 <> sub2 -> differ (NewOver sub1) (NewOver sub2).
Proof.
  intros H1 H2 Hne.
  assert (Hone : forall s1 s2, In (NewOver s1) (gsupp on s) -> In (NewOver s2) (gsupp on s) ->
                 forall i, In i s1 -> ~ In i s2 -> differ (NewOver s1) (NewOver s2)).
  { intros s1 s2 Hs1 Hs2 i Hi1 Hi2.
    pose proof (new_letter_sub _ _ _ Hs1) as Hb1. pose proof (new_letter_sub _ _ _ Hs2) as Hb2.
    set (yi := nth i (groots s) x). pose proof (nth_root i (Hb1 i Hi1)) as Hyi. fold yi in Hyi.
    pose proof (root_neq s x Hinv Hx yi Hyi) as Hn.
    exists x, yi. split; [left; reflexivity| split; [right; apply (root_placed s Hinv); exact Hyi|]].
    cbn [gstep gle]. apply Nat.eqb_neq in Hn. rewrite Nat.eqb_refl, Hn. cbn [orb].
    assert (E1 : existsb (fun r => gle s r yi) (pick x (groots s) s1) = true).
    { apply existsb_exists. exists yi. split; [unfold pick; apply in_map_iff; exists i; split; [reflexivity| exact Hi1]| apply (proj1 (gi_rtop s Hinv yi Hyi))]. }
    rewrite E1.
    destruct (existsb (fun r => gle s r yi) (pick x (groots s) s2)) eqn:E2; [|discriminate]. exfalso.
    apply existsb_exists in E2. destruct E2 as [r [Hr Hl]].
    unfold pick in Hr. apply in_map_iff in Hr. destruct Hr as [j [<- Hj]].
    pose proof (gi_rsep s Hinv _ yi (nth_root j (Hb2 j Hj)) Hyi Hl) as Heq. unfold yi in Heq.
    apply (proj1 (NoDup_nth (groots s) x) (gi_rnd s Hinv)) in Heq; [subst; contradiction| apply Hb2; exact Hj| apply Hb1; exact Hi1]. }
  pose proof (in_all_places_new _ _ _ H1) as P1. pose proof (in_all_places_new _ _ _ H2) as P2.
  destruct (subsets_differ _ (seq_NoDup _ _) _ _ _ _ P1 P2 Hne) as [i [_ [[Ha Hb]|[Ha Hb]]]].
  - apply (Hone sub1 sub2 H1 H2 i Ha Hb).
  - apply differ_sym. apply (Hone sub2 sub1 H2 H1 i Ha Hb).
Qed.

Theorem letters_separate a1 a2 : In a1 (gsupp on s) -> In a2 (gsupp on s) -> a1 <> a2 -> differ a1 a2.
Proof.
  intros H1 H2 Hne. destruct a1 as [i|sub1|], a2 as [j|sub2|].
  - apply existing_vs_existing; [apply (in_all_places_existing _ _ _ H1)| apply (in_all_places_existing _ _ _ H2)| congruence].
  - apply existing_vs_new. apply (in_all_places_existing _ _ _ H1).
  - apply differ_sym. apply (outlier_vs _ H1). discriminate.
  - apply differ_sym. apply existing_vs_new. apply (in_all_places_existing _ _ _ H2).
  - apply new_vs_new; [assumption| assumption| congruence].
  - apply differ_sym. apply (outlier_vs _ H1). discriminate.
  - apply (outlier_vs _ H2). discriminate.
  - apply (outlier_vs _ H2). discriminate.
  - congruence.
Qed.
End Sep.

Lemma place_eq_dec (a b : place) : {a = b} + {a <> b}.
Proof. decide equality; [apply Nat.eq_dec| apply (list_eq_dec Nat.eq_dec)]. Qed.

Theorem grun_unique on : forall sig w1 w2 s, ginv s -> NoDup sig -> (forall x, In x sig -> ~ In x (gpl s)) ->
  gvalid on s sig w1 -> gvalid on s sig w2 ->
  (forall p q, gle (grun s sig w1) p q = gle (grun s sig w2) p q) -> w1 = w2.
Proof.
  induction sig as [|x sig IH]; intros [|a1 w1] [|a2 w2] s Hinv Hnd Hfresh V1 V2 He; cbn [gvalid] in V1, V2; try contradiction; [reflexivity|].
  destruct V1 as [A1 V1], V2 as [A2 V2]. inversion Hnd as [|? ? Hnx Hnd']; subst.
  assert (Hx : ~ In x (gpl s)) by (apply Hfresh; left; reflexivity).
  destruct (place_eq_dec a1 a2) as [->|Hne].
  - f_equal. apply (IH w1 w2 (gstep s x a2)).
    + apply (gstep_inv on); assumption.
    + exact Hnd'.
    + intros z Hz. rewrite gstep_pl. intros [->|Hin]; [contradiction| apply (Hfresh z); [right; exact Hz| exact Hin]].
    + exact V1.
    + exact V2.
    + exact He.
  - exfalso. destruct (letters_separate on s x Hinv Hx a1 a2 A1 A2 Hne) as [p [q [Hp [Hq Hd]]]].
    assert (Hscope : forall z, scope s x z -> ~ In z sig).
    { intros z [->|Hz]; [exact Hnx| intros Hin; apply (Hfresh z); [right; exact Hin| exact Hz]]. }
    apply Hd. specialize (He p q). cbn [grun] in He.
    rewrite !grun_frozen in He by (apply Hscope; assumption). exact He.
Qed.

(* T3 *)
Theorem grammar_unique on sig w1 w2 : NoDup sig -> gvalid on g0 sig w1 -> gvalid on g0 sig w2 ->
  (forall p q, gle (grun g0 sig w1) p q = gle (grun g0 sig w2) p q) -> w1 = w2.
Proof. intros Hnd V1 V2 He. apply (grun_unique on sig w1 w2 g0 ginv_g0 Hnd (fun _ _ H => H) V1 V2 He). Qed.
