(* C03 proofs, part 2: the density is a function of the forest up to sibling order (no labels in the model). *)
From PV Require Import Model.Density Proofs.PermProofs Proofs.DensityProofs.

(* ---------- induction principle for the nested relation ---------- *)
Section TeqInd.
Variable P : tree -> tree -> Prop.
Hypothesis H : forall o o' ks ks1 ks',
  Permutation o o' -> Forall2 teq ks ks1 -> Forall2 P ks ks1 -> Permutation ks1 ks' -> P (Node o ks) (Node o' ks').
Fixpoint teq_ind' (t t' : tree) (e : teq t t') {struct e} : P t t' :=
  match e with
  | teq_node o o' ks ks1 ks' Ho Hf Hp =>
      H o o' ks ks1 ks' Ho Hf
        ((fix go (l l1 : list tree) (f : Forall2 teq l l1) {struct f} : Forall2 P l l1 :=
            match f with
            | Forall2_nil _ => Forall2_nil _
            | @Forall2_cons _ _ _ x y l0 l0' hx hr => Forall2_cons x y (teq_ind' x y hx) (go l0 l0' hr)
            end) ks ks1 Hf) Hp
  end.
End TeqInd.

(* ---------- generic list facts ---------- *)
Lemma Forall2_map_eq {A B} (f : A -> B) l l1 : Forall2 (fun x y => f x = f y) l l1 -> map f l = map f l1.
Proof. induction 1; cbn [map]; congruence. Qed.
Lemma Forall2_length' {A B} (R : A -> B -> Prop) l l1 : Forall2 R l l1 -> length l = length l1.
Proof. induction 1; cbn [length]; congruence. Qed.
Lemma Forall2_perm {A B} (R : A -> B -> Prop) l1 l2 : Permutation l1 l2 ->
  forall m1, Forall2 R l1 m1 -> exists m2, Forall2 R l2 m2 /\ Permutation m1 m2.
Proof.
  induction 1 as [|x l1 l2 Hp IH|x y l|l1 l2 l3 H12 IH12 H23 IH23]; intros m1 Hf.
  - inversion Hf; subst. exists []. split; constructor.
  - inversion Hf as [|? b ? m1' Hxb Hrest]; subst. destruct (IH m1' Hrest) as [m2 [Hf2 Hp2]].
    exists (b :: m2). split; [constructor; assumption| constructor; exact Hp2].
  - inversion Hf as [|? b ? m1' Hyb Hrest]; subst. inversion Hrest as [|? b' ? m1'' Hxb' Hrest']; subst.
    exists (b' :: b :: m1''). split; [repeat constructor; assumption| apply perm_swap].
  - destruct (IH12 m1 Hf) as [m2 [Hf2 Hp2]]. destruct (IH23 m2 Hf2) as [m3 [Hf3 Hp3]].
    exists m3. split; [exact Hf3| eapply Permutation_trans; eassumption].
Qed.
Lemma Forall2_flip {A B} (R : A -> B -> Prop) l l1 : Forall2 R l l1 -> Forall2 (fun y x => R x y) l1 l.
Proof. induction 1; constructor; assumption. Qed.
Lemma Forall2_impl {A B} (R S : A -> B -> Prop) l l1 : (forall x y, R x y -> S x y) -> Forall2 R l l1 -> Forall2 S l l1.
Proof. intros HRS. induction 1; constructor; auto. Qed.
Lemma Permutation_flat_map_F2 {A B} (g : A -> list B) l l1 :
  Forall2 (fun x y => Permutation (g x) (g y)) l l1 -> Permutation (flat_map g l) (flat_map g l1).
Proof. induction 1; cbn [flat_map]; [constructor| apply Permutation_app; assumption]. Qed.
Lemma Permutation_flat_map_perm {A B} (g : A -> list B) l l' :
  Permutation l l' -> Permutation (flat_map g l) (flat_map g l').
Proof.
  induction 1; cbn [flat_map].
  - constructor.
  - apply Permutation_app_head. assumption.
  - rewrite !app_assoc. apply Permutation_app_tail. apply Permutation_app_comm.
  - eapply Permutation_trans; eassumption.
Qed.

(* ---------- teq is an equivalence ---------- *)
Lemma teq_refl t : teq t t.
Proof.
  induction t as [o ks IH] using tree_ind'. apply (teq_node o o ks ks ks); [apply Permutation_refl| |apply Permutation_refl].
  induction IH; constructor; assumption.
Qed.
Lemma teq_sym t t' : teq t t' -> teq t' t.
Proof.
  intros e. induction e as [o o' ks ks1 ks' Ho Hf IH Hp] using teq_ind'.
  apply Forall2_flip in IH.
  destruct (Forall2_perm _ ks1 ks' Hp ks IH) as [m2 [Hf2 Hp2]].
  apply (teq_node o' o ks' m2 ks); [apply Permutation_sym; exact Ho| exact Hf2| apply Permutation_sym; exact Hp2].
Qed.
Lemma teq_trans t1 : forall t2 t3, teq t1 t2 -> teq t2 t3 -> teq t1 t3.
Proof.
  induction t1 as [o1 ks IH] using tree_ind'. intros t2 t3 H12 H23.
  inversion H12 as [? o2 ? ks1 k2 Ho12 Hf12 Hp12]; subst.
  inversion H23 as [? o3 ? k2' k3 Ho23 Hf23 Hp23]; subst.
  destruct (Forall2_perm _ k2 ks1 (Permutation_sym Hp12) k2' Hf23) as [m [Hfm Hpm]].
  apply (teq_node o1 o3 ks m k3); [eapply Permutation_trans; eassumption| |].
  - clear - IH Hf12 Hfm. revert m Hfm. induction Hf12 as [|x y l l' Hxy Hrest IHf]; intros m Hfm.
    + inversion Hfm; subst. constructor.
    + inversion Hfm as [|? z ? m' Hyz Hrest']; subst. inversion IH as [|? ? Hx HIH]; subst.
      constructor; [apply (Hx y z Hxy Hyz)| apply IHf; assumption].
  - eapply Permutation_trans; [apply Permutation_sym; exact Hpm| exact Hp23].
Qed.

Lemma leq_refl l : leq l l.
Proof. exists l. split; [|apply Permutation_refl]. induction l; constructor; [apply teq_refl| assumption]. Qed.
Lemma leq_sym l l' : leq l l' -> leq l' l.
Proof.
  intros [l1 [Hf Hp]]. apply Forall2_flip in Hf.
  assert (Hf' : Forall2 teq l1 l) by (eapply Forall2_impl; [|exact Hf]; intros x y; apply teq_sym).
  destruct (Forall2_perm _ l1 l' Hp l Hf') as [m2 [Hf2 Hp2]].
  exists m2. split; [exact Hf2| apply Permutation_sym; exact Hp2].
Qed.
Lemma Forall2_teq_trans l1 : forall l2 l3, Forall2 teq l1 l2 -> Forall2 teq l2 l3 -> Forall2 teq l1 l3.
Proof.
  induction l1 as [|x l1 IH]; intros l2 l3 H12 H23; inversion H12; subst; inversion H23; subst; constructor.
  - eapply teq_trans; eassumption.
  - eapply IH; eassumption.
Qed.
Lemma leq_trans l1 l2 l3 : leq l1 l2 -> leq l2 l3 -> leq l1 l3.
Proof.
  intros [m1 [Hf1 Hp1]] [m2 [Hf2 Hp2]].
  destruct (Forall2_perm _ l2 m1 (Permutation_sym Hp1) m2 Hf2) as [m [Hfm Hpm]].
  exists m. split; [eapply Forall2_teq_trans; eassumption|].
  eapply Permutation_trans; [apply Permutation_sym; exact Hpm| exact Hp2].
Qed.
Lemma feq_refl F : feq F F.
Proof. split; [apply leq_refl| apply Permutation_refl]. Qed.
Lemma feq_sym F F' : feq F F' -> feq F' F.
Proof. intros [H1 H2]. split; [apply leq_sym; exact H1| apply Permutation_sym; exact H2]. Qed.
Lemma feq_trans F1 F2 F3 : feq F1 F2 -> feq F2 F3 -> feq F1 F3.
Proof.
  intros [H1 H2] [H3 H4]. split; [eapply leq_trans; eassumption| eapply Permutation_trans; eassumption].
Qed.

(* ---------- the ingredients of the spec are invariant ---------- *)
Lemma nclones_teq t t' : teq t t' -> nclones t = nclones t'.
Proof.
  intros e. induction e as [o o' ks ks1 ks' Ho Hf IH Hp] using teq_ind'. cbn [nclones]. f_equal.
  rewrite (Forall2_map_eq nclones ks ks1 IH). apply list_sum_perm. apply Permutation_map. exact Hp.
Qed.
Lemma crp_tree_teq t t' : teq t t' -> crp_tree t = crp_tree t'.
Proof.
  intros e. induction e as [o o' ks ks1 ks' Ho Hf IH Hp] using teq_ind'. cbn [crp_tree].
  rewrite (Permutation_length Ho). f_equal.
  rewrite (Forall2_map_eq crp_tree ks ks1 IH). apply prodq_perm. apply Permutation_map. exact Hp.
Qed.
Lemma mult_tree_teq t t' : teq t t' -> mult_tree t = mult_tree t'.
Proof.
  intros e. induction e as [o o' ks ks1 ks' Ho Hf IH Hp] using teq_ind'. cbn [mult_tree].
  rewrite (Forall2_length' _ _ _ Hf), (Permutation_length Hp). f_equal.
  rewrite (Forall2_map_eq mult_tree ks ks1 IH). apply prodq_perm. apply Permutation_map. exact Hp.
Qed.
Lemma points_teq t t' : teq t t' -> Permutation (points t) (points t').
Proof.
  intros e. induction e as [o o' ks ks1 ks' Ho Hf IH Hp] using teq_ind'. cbn [points].
  apply Permutation_app; [|exact Ho].
  eapply Permutation_trans; [apply Permutation_flat_map_F2; exact IH| apply Permutation_flat_map_perm; exact Hp].
Qed.

Lemma leq_map_perm {B} (f : tree -> B) l l' : (forall t t', teq t t' -> f t = f t') -> leq l l' -> Permutation (map f l) (map f l').
Proof.
  intros Hf [l1 [HF Hp]].
  rewrite (Forall2_map_eq f l l1); [apply Permutation_map; exact Hp|].
  eapply Forall2_impl; [|exact HF]. exact Hf.
Qed.
Lemma leq_length l l' : leq l l' -> length l = length l'.
Proof. intros [l1 [HF Hp]]. rewrite (Forall2_length' _ _ _ HF). apply Permutation_length. exact Hp. Qed.
Lemma leq_points l l' : leq l l' -> Permutation (flat_map points l) (flat_map points l').
Proof.
  intros [l1 [HF Hp]].
  eapply Permutation_trans; [apply Permutation_flat_map_F2| apply Permutation_flat_map_perm; exact Hp].
  eapply Forall2_impl; [|exact HF]. apply points_teq.
Qed.

Lemma feq_fpoints F F' : feq F F' -> Permutation (fpoints F) (fpoints F').
Proof. intros [H1 H2]. unfold fpoints. apply Permutation_app; [apply leq_points; exact H1| exact H2]. Qed.

Section Invariance.
Variables (alpha c : Qc) (D : nat -> dpoint) (F F' : forest) (rootR : list (list Qc)).
Hypothesis HF : feq F F'.

Lemma fclones_feq : fclones F = fclones F'.
Proof. destruct HF as [H1 _]. unfold fclones. apply list_sum_perm. apply leq_map_perm; [apply nclones_teq| exact H1]. Qed.
Lemma spec_crp_feq : spec_crp alpha F = spec_crp alpha F'.
Proof.
  unfold spec_crp. rewrite fclones_feq. f_equal. destruct HF as [H1 _].
  apply prodq_perm. apply leq_map_perm; [apply crp_tree_teq| exact H1].
Qed.
Lemma spec_topo_marg_feq : spec_topo_marg F = spec_topo_marg F'.
Proof. unfold spec_topo_marg. rewrite fclones_feq. reflexivity. Qed.
Lemma spec_topo_one_feq : spec_topo_one c F = spec_topo_one c F'.
Proof.
  unfold spec_topo_one. destruct HF as [H1 _]. rewrite (leq_length _ _ H1). f_equal.
  apply prodq_perm. apply leq_map_perm; [|exact H1]. intros t t' e. rewrite (nclones_teq t t' e). reflexivity.
Qed.
Lemma spec_mult_feq : spec_mult F = spec_mult F'.
Proof.
  unfold spec_mult. destruct HF as [H1 _]. rewrite (leq_length _ _ H1). do 2 f_equal.
  apply prodq_perm. apply leq_map_perm; [apply mult_tree_teq| exact H1].
Qed.
Lemma spec_outlier_prior_feq : spec_outlier_prior D F = spec_outlier_prior D F'.
Proof.
  unfold spec_outlier_prior. destruct HF as [H1 H2]. f_equal; apply prodq_perm; apply Permutation_map;
    [apply leq_points; exact H1| exact H2].
Qed.
Lemma spec_outliers_feq : spec_outliers D F = spec_outliers D F'.
Proof. unfold spec_outliers. destruct HF as [_ H2]. apply prodq_perm, Permutation_map, H2. Qed.
Lemma spec_data_feq : spec_data_marg F rootR = spec_data_marg F' rootR /\ spec_data_one F rootR = spec_data_one F' rootR.
Proof.
  unfold spec_data_marg, spec_data_one. destruct HF as [H1 _]. apply leq_length in H1.
  destruct (roots F), (roots F'); cbn [length] in H1; try discriminate; split; reflexivity.
Qed.

Theorem spec_equiv_invariant :
  spec_log_p alpha D F rootR = spec_log_p alpha D F' rootR
  /\ spec_log_p_one alpha c D F rootR = spec_log_p_one alpha c D F' rootR.
Proof.
  unfold spec_log_p, spec_log_p_one. destruct spec_data_feq as [Hd1 Hd2].
  rewrite spec_crp_feq, spec_topo_marg_feq, spec_topo_one_feq, spec_mult_feq, spec_outlier_prior_feq, spec_outliers_feq, Hd1, Hd2.
  split; reflexivity.
Qed.

Hypothesis Hc : 1 < c.
Hypothesis Hok : forall i, In i (fpoints F) -> dp_ok (D i).

Theorem impl_equiv_invariant :
  impl_log_p alpha D F rootR = impl_log_p alpha D F' rootR
  /\ impl_log_p_one alpha c D F rootR = impl_log_p_one alpha c D F' rootR
  /\ impl_both alpha c D F rootR = impl_both alpha c D F' rootR.
Proof.
  assert (Hok' : forall i, In i (fpoints F') -> dp_ok (D i)).
  { intros i Hi. apply Hok. eapply Permutation_in; [apply Permutation_sym, feq_fpoints, HF| exact Hi]. }
  destruct spec_equiv_invariant as [H1 H2].
  rewrite !impl_both_spec, !impl_log_p_spec, !impl_log_p_one_spec by assumption.
  rewrite H1, H2. repeat split; reflexivity.
Qed.
End Invariance.
