(* Proofs for the memo-table model (C14). *)
From PV Require Import Model.Memo.
Open Scope nat_scope.

Section Memo.
Variables Env A K V : Type.
Variable f : Env -> A -> V.
Variable key : Env -> A -> K.
Variable keqb : K -> K -> bool.
(* the key type has a decidable equality and keqb decides it (hash + __eq__ of the key objects) *)
Hypothesis keqb_eq : forall a b, keqb a b = true <-> a = b.

Notation table := (table K V).
Notation lookup := (lookup K V keqb).
Notation remove_key := (remove_key K V keqb).
Notation call := (call Env A K V f key keqb).
Notation run := (run Env A K V f key keqb).
Notation spec := (spec Env A V f).

(* every cached entry holds the value of f for EVERY argument (and environment) that maps to its key *)
Definition table_ok (t : table) : Prop :=
  forall k v, In (k, v) t -> forall e a, key e a = k -> v = f e a.

Lemma lookup_in k t v : lookup k t = Some v -> In (k, v) t.
Proof.
  induction t as [|[k' v'] r IH]; cbn [Memo.lookup]; [discriminate|].
  destruct (keqb k k') eqn:E.
  - intros H. injection H as ->. apply keqb_eq in E. subst. left. reflexivity.
  - intros H. right. apply IH. exact H.
Qed.
Lemma lookup_none k t : (forall k' v, In (k', v) t -> k' <> k) -> lookup k t = None.
Proof.
  induction t as [|[k' v'] r IH]; cbn [Memo.lookup]; intros H; [reflexivity|].
  destruct (keqb k k') eqn:E.
  - apply keqb_eq in E. subst. exfalso. apply (H k' v'); [left; reflexivity| reflexivity].
  - apply IH. intros k2 v2 Hin. apply (H k2 v2). right. exact Hin.
Qed.
Lemma remove_subset k t x : In x (remove_key k t) -> In x t.
Proof.
  induction t as [|[k' v'] r IH]; cbn [Memo.remove_key]; [intros []|].
  destruct (keqb k k'); [intros H; right; exact H|]. intros [<-|H]; [left; reflexivity| right; apply IH; exact H].
Qed.
Lemma firstn_subset {X} n (l : list X) x : In x (firstn n l) -> In x l.
Proof.
  revert l. induction n as [|n IH]; intros [|y l] H; cbn [firstn] in H; try contradiction.
  destruct H as [<-|H]; [left; reflexivity| right; apply IH; exact H].
Qed.
Lemma drop_subset {X} i (l : list X) x : In x (drop_nth i l) -> In x l.
Proof.
  revert i. induction l as [|y l IH]; intros i H; [destruct i; contradiction|].
  destruct i as [|i]; cbn [drop_nth] in H; [right; exact H|].
  destruct H as [<-|H]; [left; reflexivity| right; apply (IH i); exact H].
Qed.
Lemma ok_subset (t t' : table) : (forall x, In x t' -> In x t) -> table_ok t -> table_ok t'.
Proof. intros Hs Hok k v Hin. apply Hok. apply Hs. exact Hin. Qed.

Hypothesis Hsound : key_sound Env A K V f key.

Lemma call_correct cap e a t : table_ok t ->
  fst (fst (call cap e a t)) = f e a /\ table_ok (snd (call cap e a t)).
Proof.
  intros Hok. unfold Memo.call. destruct (lookup (key e a) t) as [v|] eqn:E; cbn [fst snd].
  - apply lookup_in in E. assert (Hv : v = f e a) by (apply (Hok _ _ E); reflexivity).
    split; [exact Hv|]. intros k w [H|H].
    + injection H as <- <-. intros e' a' Hk. rewrite Hv. apply Hsound. symmetry. exact Hk.
    + apply remove_subset in H. apply (Hok _ _ H).
  - split; [reflexivity|]. apply (ok_subset ((key e a, f e a) :: t)); [intros x; apply firstn_subset|].
    intros k w [H|H].
    + injection H as <- <-. intros e' a' Hk. apply Hsound. symmetry. exact Hk.
    + apply (Hok _ _ H).
Qed.

Lemma run_correct cap h : forall t, table_ok t -> run cap h t = spec h.
Proof.
  induction h as [|ev h IH]; intros t Hok; [reflexivity|]. destruct ev as [e a| |i]; cbn [Memo.run Memo.spec].
  - destruct (call_correct cap e a t Hok) as [Hv Hok'].
    destruct (call cap e a t) as [[v b] t']. cbn [fst snd] in *. rewrite Hv, (IH t' Hok'). reflexivity.
  - apply IH. intros k v [].
  - apply IH. apply (ok_subset t); [intros x; apply drop_subset| exact Hok].
Qed.

(* for every capacity, every history of calls, clears and evictions: memoised = unmemoised *)
Theorem memo_refines : forall cap h, run cap h [] = spec h.
Proof. intros cap h. apply run_correct. intros k v []. Qed.

(* a key that no entry carries is a miss: the function is recomputed *)
Lemma absent_key_misses cap e a t :
  (forall k' v, In (k', v) t -> k' <> key e a) -> snd (fst (call cap e a t)) = false.
Proof. intros H. unfold Memo.call. rewrite (lookup_none _ _ H). reflexivity. Qed.
End Memo.

(* ---- key soundness of the individual caches --------------------------------------------------------- *)
Lemma insert_perm x l : Permutation (insert x l) (x :: l).
Proof.
  induction l as [|y r IH]; cbn [insert]; [apply Permutation_refl|].
  destruct (x <=? y); [apply Permutation_refl|].
  eapply Permutation_trans; [apply perm_skip; exact IH| apply perm_swap].
Qed.
Lemma isort_perm l : Permutation (isort l) l.
Proof.
  induction l as [|x r IH]; cbn [isort]; [constructor|].
  eapply Permutation_trans; [apply insert_perm| apply perm_skip; exact IH].
Qed.

Section Keys.
Variable Arr : Type.
Variable digest : Arr -> nat.
(* NOT provable: xxh3-64 is assumed collision-free on the arrays that occur in a process *)
Hypothesis digest_injective : forall x y, digest x = digest y -> x = y.

Lemma map_digest_inj l l' : map digest l = map digest l' -> l = l'.
Proof.
  revert l'. induction l as [|x l IH]; intros [|y l'] H; try discriminate; [reflexivity|].
  cbn [map] in H. injection H as Hx Hl. f_equal; [apply digest_injective; exact Hx| apply IH; exact Hl].
Qed.

Section LogS.
Variable V : Type.
Variable g : list Arr -> V.          (* compute_log_S on the list of the children's log_R arrays *)
(* holds for the exact-arithmetic recursion (property C02: the children convolution is a product in a
   commutative ring); in floating point only inside C02's underflow window and up to rounding *)
Hypothesis g_perm_invariant : forall l l', Permutation l l' -> g l = g l'.

Theorem logS_key_sound : forall l l', logS_key Arr digest l = logS_key Arr digest l' -> g l = g l'.
Proof.
  intros l l' H. apply g_perm_invariant. unfold logS_key in H.
  assert (P : Permutation (map digest l) (map digest l')).
  { eapply Permutation_trans; [apply Permutation_sym, isort_perm|]. rewrite H. apply isort_perm. }
  apply Permutation_sym, Permutation_map_inv in P. destruct P as (l3 & E & P).
  apply map_digest_inj in E. subst. exact P.
Qed.
End LogS.

Section Conv.
Variable V : Type.
Variable c : Arr * Arr -> V.         (* _convolve_two_children *)
Hypothesis c_commutative : forall a b, c (a, b) = c (b, a).

Theorem conv_key_sound : forall p q, conv_key Arr digest p = conv_key Arr digest q -> c p = c q.
Proof.
  intros [a b] [a' b'] H. unfold conv_key in H.
  destruct (digest a =? digest b) eqn:E1; destruct (digest a' =? digest b') eqn:E2.
  - apply Nat.eqb_eq in E1, E2. injection H as H.
    apply digest_injective in E1, E2, H. subst. reflexivity.
  - destruct (digest a' <? digest b'); discriminate.
  - destruct (digest a <? digest b); discriminate.
  - destruct (digest a <? digest b); destruct (digest a' <? digest b');
      injection H as H1 H2; apply digest_injective in H1, H2; subst;
      first [reflexivity | apply c_commutative].
Qed.
End Conv.
End Keys.

(* the proposal caches: the key is the whole argument tuple together with alpha, hence trivially sound for any
   proposal constructor that reads nothing else *)
Theorem proposal_key_sound {D Kn P W : Type} (prop : Qc -> pargs D Kn P -> W) :
  key_sound Qc (pargs D Kn P) (pargs D Kn P * Qc) W prop proposal_key.
Proof. intros e a e' b H. unfold proposal_key in H. injection H as -> ->. reflexivity. Qed.

(* a changed alpha can never hit an entry stored under another alpha *)
Theorem alpha_change_misses {D Kn P W : Type} (keqb : pargs D Kn P * Qc -> pargs D Kn P * Qc -> bool) :
  (forall a b, keqb a b = true <-> a = b) ->
  forall (t : table (pargs D Kn P * Qc) W) alpha a,
  (forall k v, In (k, v) t -> snd k <> alpha) -> lookup _ _ keqb (proposal_key alpha a) t = None.
Proof.
  intros Hk t alpha a H. apply lookup_none; [exact Hk|].
  intros k' v Hin E. apply (H k' v Hin). rewrite E. reflexivity.
Qed.
