(* Auxiliary-variable (two-stage) kernels: draw sigma from its conditional law given the state, then apply a kernel
   that leaves the joint slice pi(s) * c(sigma | s) invariant.  This is the structure of the particle-Gibbs update:
   sigma = data order (uniform over the orders compatible with the tree, C09), K_sigma = conditional SMC along sigma. *)
From PV Require Import Base.Dist.

Lemma E_sumq_swap {S X} (d : dist S) (l : list X) (g : X -> S -> Qc) :
  E d (fun s => sumq (map (fun x => g x s) l)) = sumq (map (fun x => E d (g x)) l).
Proof.
  induction l as [|x l IH]; cbn [map sumq]; [apply E_zero|]. rewrite E_plus, IH. reflexivity.
Qed.

Theorem aux_variable_invariant {S Sig : Type} (pi : dist S) (sigs : list Sig) (cd : Sig -> S -> Qc)
        (K : Sig -> S -> dist S) :
  (forall s, sumq (map (fun sg => cd sg s) sigs) = 1) ->
  (forall sg f, E pi (fun s => cd sg s * E (K sg s) f) = E pi (fun s => cd sg s * f s)) ->
  invariant pi (fun s => bind (wlist (fun sg => cd sg s) sigs) (fun sg => K sg s)).
Proof.
  intros Hc HK f.
  rewrite (E_ext _ _ (fun s => sumq (map (fun sg => cd sg s * E (K sg s) f) sigs))).
  2:{ intros s. rewrite E_bind, E_wlist. reflexivity. }
  rewrite E_sumq_swap.
  rewrite (sumq_map_ext _ (fun sg => E pi (fun s => cd sg s * f s))) by (intros; apply HK).
  rewrite <- E_sumq_swap. apply E_ext. intros s.
  rewrite (sumq_map_ext _ (fun sg => f s * cd sg s)) by (intros; ring).
  rewrite sumq_map_scale, Hc. ring.
Qed.
