(* C17 proofs, part 2: row-order independence, the kept set, numbering, defaults, rejection. *)
From PV Require Import Model.Loader Proofs.LoaderOrder.
From Coq Require Import Permutation.
Open Scope nat_scope.

(* ---- row-order independence -------------------------------------------------------------------- *)
Section Perm.
Variables l l' : list row.
Hypothesis P : Permutation l l'.

Lemma count_mut_perm m : count_mut m l = count_mut m l'.
Proof. unfold count_mut. apply Permutation_length, Permutation_filter, P. Qed.
Lemma count_cell_perm m s : count_cell m s l = count_cell m s l'.
Proof. unfold count_cell. apply Permutation_length, Permutation_filter, P. Qed.
Lemma cn_pos_perm : Permutation (cn_pos l) (cn_pos l').
Proof. apply Permutation_filter, P. Qed.
Lemma samples_of_perm : samples_of l = samples_of l'.
Proof. unfold samples_of. apply sort_u_perm, Permutation_map, P. Qed.
Lemma complete_perm : Permutation (complete l) (complete l').
Proof.
  unfold complete. rewrite <- samples_of_perm.
  rewrite (filter_ext (fun r => count_mut (r_mid r) l' =? length (samples_of l))
                      (fun r => count_mut (r_mid r) l =? length (samples_of l))).
  - apply Permutation_filter, P.
  - intros r. rewrite count_mut_perm. reflexivity.
Qed.
Lemma cell_perm m s : cell m s l = cell m s l'.
Proof. unfold cell. apply single_perm, Permutation_filter, P. Qed.
End Perm.

Lemma load_samples_ext tb tb' l l' m ss :
  (forall r, rec_of tb r = rec_of tb' r) -> (forall m s, cell m s l = cell m s l') ->
  load_samples tb l m ss = load_samples tb' l' m ss.
Proof.
  intros Hr Hc. induction ss as [|s ss IH]; cbn [load_samples]; [reflexivity|].
  rewrite <- Hc. destruct (cell m s l) as [r|]; [|reflexivity].
  destruct (r_major r <? r_minor r); [reflexivity|]. rewrite IH, Hr. reflexivity.
Qed.
Lemma load_muts_ext tb tb' l l' ss ms :
  (forall r, rec_of tb r = rec_of tb' r) -> (forall m s, cell m s l = cell m s l') ->
  load_muts tb l ss ms = load_muts tb' l' ss ms.
Proof.
  intros Hr Hc. induction ms as [|m ms IH]; cbn [load_muts]; [reflexivity|].
  rewrite (load_samples_ext tb tb' l l' m ss Hr Hc), IH. reflexivity.
Qed.

Theorem load_perm_invariant tb tb' :
  Permutation (rows tb) (rows tb') -> has_tc tb = has_tc tb' -> has_er tb = has_er tb' -> load tb = load tb'.
Proof.
  intros P Htc Her.
  assert (P1 : Permutation (cn_pos (rows tb)) (cn_pos (rows tb'))) by (apply cn_pos_perm; exact P).
  assert (P2 : Permutation (kept_rows tb) (kept_rows tb')) by (apply complete_perm; exact P1).
  assert (ES : samples tb = samples tb') by (apply samples_of_perm; exact P1).
  assert (EK : kept tb = kept tb') by (unfold kept; apply sort_u_perm, Permutation_map; exact P2).
  unfold load. rewrite <- ES, <- EK.
  rewrite (load_muts_ext tb tb' (kept_rows tb) (kept_rows tb') (samples tb) (kept tb)).
  - reflexivity.
  - intros r. unfold rec_of, tc_of, er_of. rewrite Htc, Her. reflexivity.
  - intros m s. apply cell_perm. exact P2.
Qed.

(* ---- counting: rows of a mutation = sum over the distinct samples of the rows per cell ---------- *)
Lemma list_sum_cons x l : list_sum (x :: l) = x + list_sum l.
Proof. reflexivity. Qed.
Lemma list_sum_nil : list_sum [] = 0.
Proof. reflexivity. Qed.
Lemma list_sum_map_plus {A} (f g : A -> nat) l :
  list_sum (map (fun a => f a + g a) l) = list_sum (map f l) + list_sum (map g l).
Proof. induction l as [|a l IH]; cbn [map]; [reflexivity| rewrite !list_sum_cons, IH; lia]. Qed.
Lemma list_sum_map_ext {A} (f g : A -> nat) l :
  (forall a, In a l -> f a = g a) -> list_sum (map f l) = list_sum (map g l).
Proof.
  induction l as [|a l IH]; cbn [map]; intros H; [reflexivity|]. rewrite !list_sum_cons.
  rewrite (H a) by (left; reflexivity). rewrite IH; [reflexivity|]. intros b Hb. apply H. right. exact Hb.
Qed.
Lemma list_sum_map_const {A} (c : nat) (l : list A) : list_sum (map (fun _ => c) l) = c * length l.
Proof. induction l as [|a l IH]; cbn [map length]; [rewrite list_sum_nil; lia| rewrite list_sum_cons, IH; lia]. Qed.

Lemma indicator_sum_out k S : ~ In k S -> list_sum (map (fun s => if id_eqb k s then 1 else 0) S) = 0.
Proof.
  induction S as [|s S IH]; cbn [map]; intros H; [reflexivity|]. rewrite list_sum_cons.
  rewrite IH by (intros Hk; apply H; right; exact Hk).
  replace (id_eqb k s) with false; [reflexivity|]. symmetry. apply id_eqb_neq. intros ->. apply H. left. reflexivity.
Qed.
Lemma indicator_sum_in k S : NoDup S -> In k S -> list_sum (map (fun s => if id_eqb k s then 1 else 0) S) = 1.
Proof.
  induction S as [|s S IH]; cbn [map]; intros ND H; [destruct H|]. rewrite list_sum_cons.
  inversion ND as [|? ? Hs ND']; subst. destruct (id_eqb k s) eqn:E.
  - apply id_eqb_eq in E. subst s. rewrite indicator_sum_out by exact Hs. reflexivity.
  - destruct H as [->|H]; [rewrite id_eqb_refl in E; discriminate|]. rewrite IH by assumption. reflexivity.
Qed.

Lemma count_mut_split m S : NoDup S -> forall l, (forall r, In r l -> In (r_sid r) S) ->
  count_mut m l = list_sum (map (fun s => count_cell m s l) S).
Proof.
  intros ND. unfold count_mut, count_cell.
  induction l as [|r l IH]; intros Hcov; cbn [filter length].
  - rewrite list_sum_map_const. reflexivity.
  - rewrite (list_sum_map_ext _ (fun s => (if is_mut m r && id_eqb (r_sid r) s then 1 else 0)
                                           + length (filter (is_cell m s) l))).
    2:{ intros s _. unfold is_cell at 1. fold (is_mut m r). destruct (is_mut m r && id_eqb (r_sid r) s); reflexivity. }
    rewrite list_sum_map_plus, <- IH by (intros r' Hr'; apply Hcov; right; exact Hr').
    destruct (is_mut m r); cbn [andb length].
    + rewrite indicator_sum_in; [reflexivity| exact ND| apply Hcov; left; reflexivity].
    + rewrite list_sum_map_const. reflexivity.
Qed.

Lemma samples_of_cover l r : In r l -> In (r_sid r) (samples_of l).
Proof. intros H. unfold samples_of. apply In_sort_u, in_map. exact H. Qed.

Lemma count_mut_samples m l : count_mut m l = list_sum (map (fun s => count_cell m s l) (samples_of l)).
Proof. apply count_mut_split; [apply NoDup_sort_u| apply samples_of_cover]. Qed.

(* ---- cells ----------------------------------------------------------------------------------- *)
Lemma is_cell_spec m s r : is_cell m s r = true <-> r_mid r = m /\ r_sid r = s.
Proof. unfold is_cell. rewrite Bool.andb_true_iff, !id_eqb_eq. reflexivity. Qed.

Lemma cell_Some m s l r : cell m s l = Some r <-> filter (is_cell m s) l = [r].
Proof.
  unfold cell. destruct (filter (is_cell m s) l) as [|x [|y t]]; split; intros H; try discriminate; congruence.
Qed.
Lemma cell_Some_in m s l r : cell m s l = Some r -> In r l /\ r_mid r = m /\ r_sid r = s /\ count_cell m s l = 1.
Proof.
  intros H. apply cell_Some in H.
  assert (Hin : In r (filter (is_cell m s) l)) by (rewrite H; left; reflexivity).
  apply filter_In in Hin. destruct Hin as [Hin Hc]. apply is_cell_spec in Hc.
  unfold count_cell. rewrite H. tauto.
Qed.
Lemma cell_of_count m s l : count_cell m s l = 1 -> exists r, cell m s l = Some r.
Proof.
  unfold count_cell, cell. destruct (filter (is_cell m s) l) as [|x [|y t]]; cbn [length]; intros H; try discriminate.
  exists x. reflexivity.
Qed.
Lemma cell_unique m s l r r' : cell m s l = Some r -> In r' l -> r_mid r' = m -> r_sid r' = s -> r' = r.
Proof.
  intros H Hin Hm Hs. apply cell_Some in H.
  assert (Hf : In r' (filter (is_cell m s) l)) by (apply filter_In; split; [exact Hin| apply is_cell_spec; tauto]).
  rewrite H in Hf. destruct Hf as [E|[]]. congruence.
Qed.

(* ---- the kept set ----------------------------------------------------------------------------- *)
Lemma in_kept_rows tb r :
  In r (kept_rows tb) <-> In r (cn_pos (rows tb)) /\ count_mut (r_mid r) (cn_pos (rows tb)) = length (samples tb).
Proof. unfold kept_rows, complete, samples. rewrite filter_In, Nat.eqb_eq. reflexivity. Qed.
Lemma in_cn_pos l r : In r (cn_pos l) <-> In r l /\ 0 < r_major r.
Proof. unfold cn_pos. rewrite filter_In, Nat.ltb_lt. reflexivity. Qed.

Lemma in_kept tb m :
  In m (kept tb) <-> (exists r, In r (cn_pos (rows tb)) /\ r_mid r = m) /\
                     count_mut m (cn_pos (rows tb)) = length (samples tb).
Proof.
  unfold kept. rewrite In_sort_u, in_map_iff. split.
  - intros [r [<- Hr]]. apply in_kept_rows in Hr. destruct Hr as [Hr Hc]. split; [exists r; tauto| exact Hc].
  - intros [[r [Hr <-]] Hc]. exists r. split; [reflexivity|]. apply in_kept_rows. tauto.
Qed.

(* the statement's two exclusions *)
(* E1: no sample loses all its rows to the zero-copy-number filter *)
Definition every_sample_usable (tb : table) : Prop :=
  forall s, In s (map r_sid (rows tb)) -> In s (samples tb).
(* E2: no mutation whose extra rows in one sample exactly offset missing rows in another *)
Definition no_offsetting_mix (tb : table) : Prop :=
  forall m, count_mut m (cn_pos (rows tb)) = length (samples tb) ->
            forall s, In s (samples tb) -> count_cell m s (cn_pos (rows tb)) = 1.

Theorem kept_iff tb m : every_sample_usable tb -> no_offsetting_mix tb ->
  (In m (kept tb) <->
   In m (map r_mid (rows tb)) /\
   forall s, In s (map r_sid (rows tb)) -> count_cell m s (cn_pos (rows tb)) = 1).
Proof.
  intros E1 E2. rewrite in_kept. split.
  - intros [[r [Hr Hm]] Hc]. split.
    + apply in_map_iff. exists r. apply in_cn_pos in Hr. tauto.
    + intros s Hs. apply E2; [exact Hc| apply E1; exact Hs].
  - intros [Hm Hall]. apply in_map_iff in Hm. destruct Hm as [r0 [Hm0 Hr0]].
    assert (H1 : count_cell m (r_sid r0) (cn_pos (rows tb)) = 1) by (apply Hall, in_map; exact Hr0).
    destruct (cell_of_count _ _ _ H1) as [r Hr]. apply cell_Some_in in Hr. split.
    + exists r. tauto.
    + rewrite count_mut_samples. fold (samples tb).
      rewrite (list_sum_map_ext _ (fun _ => 1)).
      * rewrite list_sum_map_const. lia.
      * intros s Hs. apply Hall. unfold samples, samples_of in Hs. apply (proj1 (In_sort_u _ _)) in Hs.
        apply in_map_iff in Hs. destruct Hs as [r' [<- Hr']]. apply in_map. apply in_cn_pos in Hr'. tauto.
Qed.

(* ---- what a successful load contains ------------------------------------------------------------- *)
(* the record stored for (m, s) comes from the unique row of the table for that mutation and sample
   among the kept rows *)
Definition from_cell (tb : table) (l : list row) (m s : ident) (rc : lrec) : Prop :=
  exists r, cell m s l = Some r /\ rc = rec_of tb r /\ r_minor r <= r_major r.

Lemma load_samples_ok tb l m ss recs :
  load_samples tb l m ss = Ok recs -> Forall2 (from_cell tb l m) ss recs.
Proof.
  revert recs. induction ss as [|s ss IH]; cbn [load_samples]; intros recs H.
  - inversion H. constructor.
  - destruct (cell m s l) as [r|] eqn:Ec; [|discriminate].
    destruct (r_major r <? r_minor r) eqn:Er; [discriminate|].
    destruct (load_samples tb l m ss) as [recs'| |]; try discriminate.
    inversion H; subst. constructor; [|apply IH; reflexivity].
    exists r. apply Nat.ltb_ge in Er. tauto.
Qed.

Lemma load_muts_ok tb l ss ms d :
  load_muts tb l ss ms = Ok d ->
  map fst d = ms /\ Forall (fun p => Forall2 (from_cell tb l (fst p)) ss (snd p)) d.
Proof.
  revert d. induction ms as [|m ms IH]; cbn [load_muts]; intros d H.
  - inversion H. split; [reflexivity| constructor].
  - destruct (load_samples tb l m ss) as [recs| |] eqn:Es; try discriminate.
    destruct (load_muts tb l ss ms) as [d'| |]; try discriminate.
    inversion H; subst. destruct (IH d' eq_refl) as [E F]. cbn [map fst]. split; [f_equal; exact E|].
    constructor; [|exact F]. cbn [fst snd]. apply load_samples_ok. exact Es.
Qed.

Lemma kept_rows_sub tb r : In r (kept_rows tb) -> In r (rows tb) /\ 0 < r_major r.
Proof. intros H. apply in_kept_rows in H. destruct H as [H _]. apply in_cn_pos in H. exact H. Qed.

Definition from_table (tb : table) (m s : ident) (rc : lrec) : Prop :=
  exists r, In r (rows tb) /\ r_mid r = m /\ r_sid r = s /\ 0 < r_major r /\ r_minor r <= r_major r /\
            rc = rec_of tb r.

Lemma Forall2_imp {A B} (R R' : A -> B -> Prop) l1 l2 :
  (forall a b, R a b -> R' a b) -> Forall2 R l1 l2 -> Forall2 R' l1 l2.
Proof. intros H. induction 1; constructor; auto. Qed.

Theorem load_numbering tb ss d : load tb = Ok (ss, d) ->
  ss = samples tb /\ ssorted ss /\
  map fst d = kept tb /\ ssorted (map fst d) /\
  Forall (fun p => Forall2 (from_table tb (fst p)) ss (snd p)) d.
Proof.
  unfold load. destruct (load_muts tb (kept_rows tb) (samples tb) (kept tb)) as [d'| |] eqn:E; try discriminate.
  intros H. inversion H; subst. destruct (load_muts_ok _ _ _ _ _ E) as [E1 F].
  split; [reflexivity|]. split; [apply ssorted_sort_u|]. split; [exact E1|].
  split; [rewrite E1; apply ssorted_sort_u|].
  eapply Forall_impl; [|exact F]. intros [m recs] H2. cbn [fst snd] in *.
  eapply Forall2_imp; [|exact H2]. intros s rc [r [Hc [Hrc Hmm]]].
  apply cell_Some_in in Hc. destruct Hc as (Hin & Hm & Hs & _).
  apply kept_rows_sub in Hin. exists r. tauto.
Qed.

Lemma Forall2_length {A B} (R : A -> B -> Prop) l1 l2 : Forall2 R l1 l2 -> length l1 = length l2.
Proof. induction 1; cbn [length]; congruence. Qed.
Lemma Forall2_in_r {A B} (R : A -> B -> Prop) l1 l2 b : Forall2 R l1 l2 -> In b l2 -> exists a, In a l1 /\ R a b.
Proof.
  induction 1 as [|x y l1 l2 Hxy H IH]; intros Hb; [destruct Hb|].
  destruct Hb as [<-|Hb]; [exists x; split; [left; reflexivity| exact Hxy]|].
  destruct (IH Hb) as [a [Ha Hr]]. exists a. split; [right; exact Ha| exact Hr].
Qed.
Lemma Forall2_in_l {A B} (R : A -> B -> Prop) l1 l2 a : Forall2 R l1 l2 -> In a l1 -> exists b, In b l2 /\ R a b.
Proof.
  induction 1 as [|x y l1 l2 Hxy H IH]; intros Ha; [destruct Ha|].
  destruct Ha as [<-|Ha]; [exists y; split; [left; reflexivity| exact Hxy]|].
  destruct (IH Ha) as [b [Hb Hr]]. exists b. split; [right; exact Hb| exact Hr].
Qed.

(* ---- defaults ---------------------------------------------------------------------------------- *)
Theorem load_defaults tb ss d m recs rc : load tb = Ok (ss, d) -> In (m, recs) d -> In rc recs ->
  (has_tc tb = false -> l_t rc = 1%Qc) /\ (has_er tb = false -> l_err rc = Q2Qc (1 # 1000)).
Proof.
  intros H Hd Hrc. apply load_numbering in H. destruct H as (_ & _ & _ & _ & F).
  rewrite Forall_forall in F. specialize (F _ Hd). cbn [fst snd] in F.
  destruct (Forall2_in_r _ _ _ _ F Hrc) as [s [_ [r (_ & _ & _ & _ & _ & ->)]]].
  unfold rec_of, tc_of, er_of. cbn [l_t l_err]. split; intros ->; reflexivity.
Qed.

(* ---- rejection --------------------------------------------------------------------------------- *)
Lemma load_samples_reject tb l m ss : load_samples tb l m ss = Reject ->
  exists s r, In s ss /\ cell m s l = Some r /\ r_major r < r_minor r.
Proof.
  induction ss as [|s ss IH]; cbn [load_samples]; [discriminate|].
  destruct (cell m s l) as [r|] eqn:Ec; [|discriminate].
  destruct (r_major r <? r_minor r) eqn:Er.
  - intros _. exists s, r. apply Nat.ltb_lt in Er. split; [left; reflexivity| tauto].
  - destruct (load_samples tb l m ss) as [recs| |]; try discriminate.
    intros _. destruct (IH eq_refl) as [s' [r' [Hs' H']]]. exists s', r'. split; [right; exact Hs'| exact H'].
Qed.
Lemma load_muts_reject tb l ss ms : load_muts tb l ss ms = Reject ->
  exists m s r, In m ms /\ In s ss /\ cell m s l = Some r /\ r_major r < r_minor r.
Proof.
  induction ms as [|m ms IH]; cbn [load_muts]; [discriminate|].
  destruct (load_samples tb l m ss) as [recs| |] eqn:Es; try discriminate.
  - destruct (load_muts tb l ss ms) as [d'| |]; try discriminate.
    intros _. destruct (IH eq_refl) as [m' [s [r [Hm' H']]]]. exists m', s, r. split; [right; exact Hm'| exact H'].
  - intros _. destruct (load_samples_reject _ _ _ _ Es) as [s [r H']]. exists m, s, r. split; [left; reflexivity| exact H'].
Qed.

(* an error is raised only for a row of a kept mutation; a successful load has none *)
Theorem load_reject_sound tb : load tb = Reject ->
  exists r, In r (kept_rows tb) /\ r_major r < r_minor r.
Proof.
  unfold load. destruct (load_muts tb (kept_rows tb) (samples tb) (kept tb)) as [d| |] eqn:E; try discriminate.
  intros _. destruct (load_muts_reject _ _ _ _ E) as [m [s [r (_ & _ & Hc & Hlt)]]].
  exists r. apply cell_Some_in in Hc. tauto.
Qed.

Theorem load_reject_complete tb r : In r (kept_rows tb) -> r_major r < r_minor r ->
  forall ss d, load tb <> Ok (ss, d).
Proof.
  intros Hr Hlt ss d H. pose proof H as H0. apply load_numbering in H0. destruct H0 as (Ess & _ & Ek & _ & _).
  unfold load in H. destruct (load_muts tb (kept_rows tb) (samples tb) (kept tb)) as [d'| |] eqn:E; try discriminate.
  inversion H; subst d'. clear H. destruct (load_muts_ok _ _ _ _ _ E) as [_ F].
  assert (Hm : In (r_mid r) (map fst d)).
  { rewrite Ek. unfold kept. apply In_sort_u, in_map. exact Hr. }
  apply in_map_iff in Hm. destruct Hm as [[m recs] [Em Hd]]. cbn [fst] in Em. subst m.
  rewrite Forall_forall in F. specialize (F _ Hd). cbn [fst snd] in F.
  assert (Hs : In (r_sid r) (samples tb)).
  { apply samples_of_cover. apply in_kept_rows in Hr. tauto. }
  destruct (Forall2_in_l _ _ _ _ F Hs) as [rc [_ [r' (Hc & _ & Hle)]]].
  assert (r = r') by (eapply cell_unique; [exact Hc| exact Hr| reflexivity| reflexivity]).
  subst r'. lia.
Qed.

(* ---- under the second exclusion the loader never crashes ------------------------------------------ *)
Lemma filter_filter_mid (p : ident -> bool) m s l :
  p m = true -> filter (is_cell m s) (filter (fun r => p (r_mid r)) l) = filter (is_cell m s) l.
Proof.
  intros Hp. induction l as [|r l IH]; cbn [filter]; [reflexivity|].
  destruct (is_cell m s r) eqn:Ec.
  - apply is_cell_spec in Ec. destruct Ec as [Em Es]. rewrite Em, Hp. cbn [filter].
    replace (is_cell m s r) with true by (symmetry; apply is_cell_spec; tauto). rewrite IH. reflexivity.
  - destruct (p (r_mid r)); cbn [filter]; [rewrite Ec|]; exact IH.
Qed.

Lemma cell_kept_rows tb m s : In m (kept tb) -> cell m s (kept_rows tb) = cell m s (cn_pos (rows tb)).
Proof.
  intros Hm. apply in_kept in Hm. destruct Hm as [_ Hc].
  unfold cell, kept_rows, complete.
  rewrite (filter_filter_mid (fun m' => count_mut m' (cn_pos (rows tb)) =? length (samples_of (cn_pos (rows tb)))) m s).
  - reflexivity.
  - apply Nat.eqb_eq. exact Hc.
Qed.

Lemma load_samples_crash tb l m ss : load_samples tb l m ss = Crash -> exists s, In s ss /\ cell m s l = None.
Proof.
  induction ss as [|s ss IH]; cbn [load_samples]; [discriminate|].
  destruct (cell m s l) as [r|] eqn:Ec; [|intros _; exists s; split; [left; reflexivity| exact Ec]].
  destruct (r_major r <? r_minor r); [discriminate|].
  destruct (load_samples tb l m ss) as [recs| |]; try discriminate.
  intros _. destruct (IH eq_refl) as [s' [Hs' H']]. exists s'. split; [right; exact Hs'| exact H'].
Qed.
Lemma load_muts_crash tb l ss ms : load_muts tb l ss ms = Crash ->
  exists m s, In m ms /\ In s ss /\ cell m s l = None.
Proof.
  induction ms as [|m ms IH]; cbn [load_muts]; [discriminate|].
  destruct (load_samples tb l m ss) as [recs| |] eqn:Es; try discriminate.
  - destruct (load_muts tb l ss ms) as [d'| |]; try discriminate.
    intros _. destruct (IH eq_refl) as [m' [s [Hm' H']]]. exists m', s. split; [right; exact Hm'| exact H'].
  - intros _. destruct (load_samples_crash _ _ _ _ Es) as [s H']. exists m, s. split; [left; reflexivity| exact H'].
Qed.

Theorem load_no_crash tb : no_offsetting_mix tb -> load tb <> Crash.
Proof.
  intros E2 H. unfold load in H.
  destruct (load_muts tb (kept_rows tb) (samples tb) (kept tb)) as [d| |] eqn:E; try discriminate.
  destruct (load_muts_crash _ _ _ _ E) as [m [s (Hm & Hs & Hc)]].
  rewrite cell_kept_rows in Hc by exact Hm.
  apply in_kept in Hm. destruct Hm as [_ Hcount].
  destruct (cell_of_count _ _ _ (E2 m Hcount s Hs)) as [r Hr]. congruence.
Qed.

(* the crash is real when the exclusion fails (count test passes, a sample has no row) *)
Theorem load_crash_iff tb : load tb = Crash <->
  exists m s, In m (kept tb) /\ In s (samples tb) /\ count_cell m s (cn_pos (rows tb)) <> 1 /\
    (* and no rejection happens earlier in the (mutation, sample) scan *) load tb <> Reject.
Proof.
  split.
  - intros H. pose proof H as H0. unfold load in H.
    destruct (load_muts tb (kept_rows tb) (samples tb) (kept tb)) as [d| |] eqn:E; try discriminate.
    destruct (load_muts_crash _ _ _ _ E) as [m [s (Hm & Hs & Hc)]].
    exists m, s. split; [exact Hm|]. split; [exact Hs|]. split; [|rewrite H0; discriminate].
    rewrite cell_kept_rows in Hc by exact Hm. intros H1.
    destruct (cell_of_count _ _ _ H1) as [r Hr]. congruence.
  - intros [m [s (Hm & Hs & Hc & Hnr)]].
    destruct (load tb) as [[ss d]| |] eqn:E; [exfalso| congruence| reflexivity].
    pose proof E as E0. apply load_numbering in E0. destruct E0 as (-> & _ & Ek & _ & _).
    unfold load in E. destruct (load_muts tb (kept_rows tb) (samples tb) (kept tb)) as [d'| |] eqn:E'; try discriminate.
    inversion E; subst d'. destruct (load_muts_ok _ _ _ _ _ E') as [_ F].
    rewrite <- Ek in Hm. apply in_map_iff in Hm. destruct Hm as [[m' recs] [Em Hd]]. cbn [fst] in Em. subst m'.
    rewrite Forall_forall in F. specialize (F _ Hd). cbn [fst snd] in F.
    destruct (Forall2_in_l _ _ _ _ F Hs) as [rc [_ [r (Hcell & _)]]].
    rewrite cell_kept_rows in Hcell by (rewrite <- Ek; apply in_map_iff; exists (m, recs); tauto).
    apply cell_Some_in in Hcell. tauto.
Qed.
