(* Support predicates for finite distributions and basic facts about seqdist / iidn. *)
From PV Require Import Model.Csmc.

Definition supp {X} (d : dist X) : list X := map fst d.
Definition All {X} (Pr : X -> Prop) (d : dist X) : Prop := forall x, In x (supp d) -> Pr x.

Lemma E_ext_All {X} (Pr : X -> Prop) (d : dist X) f g :
  All Pr d -> (forall x, Pr x -> f x = g x) -> E d f = E d g.
Proof. intros HA H. apply E_ext_in. intros a Ha. apply H, HA, Ha. Qed.

Lemma All_ret {X} (Pr : X -> Prop) x : Pr x -> All Pr (ret x).
Proof. intros H y [<-|[]]. exact H. Qed.
Lemma supp_scale {X} c (d : dist X) : supp (scale c d) = supp d.
Proof. unfold supp, scale. rewrite map_map. reflexivity. Qed.
Lemma All_bind {X Y} (Pr : X -> Prop) (Qr : Y -> Prop) (d : dist X) (k : X -> dist Y) :
  All Pr d -> (forall x, Pr x -> All Qr (k x)) -> All Qr (bind d k).
Proof.
  unfold All. induction d as [|[a w] d IH]; cbn [bind supp map]; intros HA Hk y Hy; [contradiction|].
  unfold supp in Hy. rewrite map_app in Hy. apply in_app_or in Hy. destruct Hy as [Hy|Hy].
  - fold (supp (scale w (k a))) in Hy. rewrite supp_scale in Hy.
    apply (Hk a); [apply HA; left; reflexivity| exact Hy].
  - apply IH; [intros x Hx; apply HA; right; exact Hx| exact Hk| exact Hy].
Qed.
Lemma All_dmap {X Y} (Pr : X -> Prop) (Qr : Y -> Prop) (g : X -> Y) (d : dist X) :
  All Pr d -> (forall x, Pr x -> Qr (g x)) -> All Qr (dmap g d).
Proof.
  unfold All, supp, dmap. intros HA Hg y Hy. rewrite map_map in Hy. cbn [fst] in Hy.
  apply in_map_iff in Hy. destruct Hy as [[a w] [<- Ha]]. apply Hg, HA. apply in_map_iff.
  exists (a, w). split; [reflexivity| exact Ha].
Qed.
Lemma All_True {X} (d : dist X) : All (fun _ => True) d.
Proof. intros x _. exact I. Qed.
Lemma All_impl {X} (Pr Qr : X -> Prop) (d : dist X) : (forall x, Pr x -> Qr x) -> All Pr d -> All Qr d.
Proof. intros H HA x Hx. apply H, HA, Hx. Qed.

Section Seq.
Context {X : Type}.
Lemma All_seqdist (Pr : X -> Prop) (ds : list (dist X)) :
  Forall (All Pr) ds -> All (fun l => length l = length ds /\ Forall Pr l) (seqdist ds).
Proof.
  induction ds as [|d ds IH]; intros HF; cbn [seqdist].
  - apply All_ret. split; [reflexivity| constructor].
  - inversion HF as [|? ? Hd HF']; subst.
    apply (All_bind Pr); [exact Hd|]. intros x Hx.
    apply (All_dmap (fun l => length l = length ds /\ Forall Pr l)); [apply IH; exact HF'|].
    intros l [Hl HP]. split; [cbn [length]; congruence| constructor; assumption].
Qed.
Lemma All_iidn (Pr : X -> Prop) k (d : dist X) :
  All Pr d -> All (fun l => length l = k /\ Forall Pr l) (iidn k d).
Proof.
  intros Hd. induction k as [|k IH]; cbn [iidn].
  - apply All_ret. split; [reflexivity| constructor].
  - apply (All_bind Pr); [exact Hd|]. intros x Hx.
    apply (All_dmap (fun l => length l = k /\ Forall Pr l)); [exact IH|].
    intros l [Hl HP]. split; [cbn [length]; congruence| constructor; assumption].
Qed.
Lemma iidn_seqdist k (d : dist X) : iidn k d = seqdist (repeat d k).
Proof. induction k as [|k IH]; cbn [iidn repeat seqdist]; [reflexivity| now rewrite IH]. Qed.

Lemma seqdist_mass (ds : list (dist X)) : Forall (fun d => mass d = 1) ds -> mass (seqdist ds) = 1.
Proof.
  induction ds as [|d ds IH]; intros HF; unfold mass; cbn [seqdist].
  - rewrite E_ret; reflexivity.
  - inversion HF as [|? ? Hd HF']; subst. rewrite E_bind.
    rewrite (E_ext _ _ (fun _ => 1)); [exact Hd|]. intros x. rewrite E_dmap. apply IH. exact HF'.
Qed.
Lemma iidn_mass k (d : dist X) : mass d = 1 -> mass (iidn k d) = 1.
Proof. intros Hd. rewrite iidn_seqdist. apply seqdist_mass. apply Forall_forall. intros x Hx. apply repeat_spec in Hx. subst. exact Hd. Qed.
End Seq.

(* ---- bringing the m-th element to the front ---- *)
Definition swap01 {X} (l : list X) : list X := match l with a :: b :: r => b :: a :: r | _ => l end.
Fixpoint bring {X} (m : nat) (l : list X) : list X :=
  match m with
  | O => l
  | S m' => match l with y :: r => swap01 (y :: bring m' r) | [] => [] end
  end.

Lemma bring_length {X} m : forall (l : list X), length (bring m l) = length l.
Proof.
  induction m as [|m IH]; intros l; [reflexivity|]. destruct l as [|y r]; [reflexivity|].
  cbn [bring]. specialize (IH r). destruct (bring m r) as [|b r'] eqn:Hb; cbn [swap01 length] in *; lia.
Qed.
Lemma bring_map {X Y} (g : X -> Y) m : forall l, bring m (map g l) = map g (bring m l).
Proof.
  induction m as [|m IH]; intros l; [reflexivity|]. destruct l as [|y r]; [reflexivity|].
  cbn [bring map]. rewrite IH. destruct (bring m r) as [|b r']; reflexivity.
Qed.
Lemma bring_repeat {X} (d : X) m : forall k, bring m (repeat d k) = repeat d k.
Proof.
  induction m as [|m IH]; intros k; [reflexivity|]. destruct k as [|k]; [reflexivity|].
  cbn [repeat bring]. rewrite IH. destruct k; reflexivity.
Qed.
Lemma bring_head {X} m : forall (l : list X), (m < length l)%nat -> nth_error (bring m l) 0 = nth_error l m.
Proof.
  induction m as [|m IH]; intros l Hm; [reflexivity|]. destruct l as [|y r]; cbn [length] in Hm; [lia|].
  cbn [bring nth_error]. specialize (IH r ltac:(lia)).
  destruct (bring m r) as [|b r'] eqn:Hb.
  - pose proof (bring_length m r) as Hl. rewrite Hb in Hl. cbn in Hl. lia.
  - cbn [swap01 nth_error] in *. exact IH.
Qed.

(* sums over a list are invariant under bring, and a sum over elements is a sum over "slot 0 after bring m" *)
Lemma sum_bring {X} (g : X -> Qc) m : forall l, sumq (map g (bring m l)) = sumq (map g l).
Proof.
  induction m as [|m IH]; intros l; [reflexivity|]. destruct l as [|y r]; [reflexivity|].
  cbn [bring]. specialize (IH r). destruct (bring m r) as [|b r'] eqn:Hb; cbn [swap01 map sumq] in *; rewrite <- IH; ring.
Qed.

(* independent draws commute with bring *)
Lemma seqdist_bring {X} m : forall (ds : list (dist X)) (h : list X -> Qc),
  E (seqdist ds) (fun l => h (bring m l)) = E (seqdist (bring m ds)) h.
Proof.
  induction m as [|m IH]; intros ds h; [reflexivity|].
  destruct ds as [|d ds]; [reflexivity|].
  cbn [bring seqdist]. rewrite E_bind.
  rewrite (E_ext _ _ (fun y => E (seqdist (bring m ds)) (fun l' => h (swap01 (y :: l'))))).
  2:{ intros y. rewrite E_dmap. cbn [bring]. apply (IH ds (fun l' => h (swap01 (y :: l')))). }
  destruct (bring m ds) as [|e r] eqn:Hb.
  - cbn [swap01 seqdist]. rewrite E_bind. apply E_ext. intros y. rewrite E_dmap, !E_ret. reflexivity.
  - cbn [swap01 seqdist]. rewrite E_bind.
    rewrite (E_ext _ _ (fun y => E e (fun x => E (seqdist r) (fun l'' => h (x :: y :: l''))))).
    2:{ intros y. rewrite E_bind. apply E_ext. intros x. rewrite E_dmap. reflexivity. }
    rewrite fubini. apply E_ext. intros x. rewrite E_dmap, E_bind. apply E_ext. intros y. rewrite E_dmap. reflexivity.
Qed.
Lemma iidn_bring {X} m k (d : dist X) (h : list X -> Qc) :
  E (iidn k d) (fun l => h (bring m l)) = E (iidn k d) h.
Proof. rewrite iidn_seqdist, seqdist_bring, bring_repeat. reflexivity. Qed.
