(* C16 - the consensus tree contains exactly the clades with majority support.  Model: Model/Consensus.v *)
From PV Require Import Model.Consensus.
Open Scope nat_scope.

(* the pinned code merges relabelled nodes whose own-mutation sets coincide: three trees over four points,
   threshold 1/2; {0,1} and {2,3} are retained, both are fully covered by their retained sub-clades, both
   become the node frozenset() and the output tree has the clade {0,1,2,3} instead *)
Definition wT1 : ctree := [[0;1];[0];[2;3];[2]].
Definition wT2 : ctree := [[0;1];[1];[2;3];[3]].
Definition wT3 : ctree := [[0];[1];[2];[3]].
Example C16_empty_nodes_merge_refuted :
  let F := retained_counts (Q2Qc (1#2)) [wT1; wT2; wT3] in
  F = [[0;1]; [2;3]; [0]; [1]; [2]; [3]]
  /\ option_map (map norm) (consensus_clades F) = Some [[0;1;2;3]; [0]; [1]; [2]; [3]].
Proof. split; vm_compute; reflexivity. Qed.
Print Assumptions C16_empty_nodes_merge_refuted.
