(* C16 - the consensus tree contains exactly the clades with majority support.
   Model: Model/Consensus.v (clade = strictly increasing list of data indices; an input tree = the list of
   its clades; Python set iteration order = list order, and every theorem holds for every order).
   wfF F: every clade of F is non-empty and strictly increasing.  laminar F: any two clades of F are nested or
   disjoint.  `Forall laminar trees` is the premise that each input is a tree. *)
From PV Require Import Model.Consensus Proofs.ConsensusBase Proofs.ConsensusProofs Proofs.ConsensusGuard Proofs.ConsensusTrees.
Open Scope nat_scope.

(* two clades whose support strictly exceeds a threshold >= 1/2 lie in a common input tree - unweighted ... *)
Theorem majority_common_tree_counts : forall trees thr a b,
  (half <= thr)%Qc -> (thr < support_counts trees a)%Qc -> (thr < support_counts trees b)%Qc ->
  exists t, In t trees /\ has a t = true /\ has b t = true.
Proof. exact majority_counts. Qed.
Print Assumptions majority_common_tree_counts.
(* ... and for non-negative weights summing to (at most) 1 *)
Theorem majority_common_tree_weighted : forall (wt : list (ctree * Qc)) thr a b,
  (forall p, In p wt -> (0 <= snd p)%Qc) -> (sumq (map snd wt) <= 1)%Qc ->
  (half <= thr)%Qc -> (thr < support_weighted wt a)%Qc -> (thr < support_weighted wt b)%Qc ->
  exists p, In p wt /\ has a (fst p) = true /\ has b (fst p) = true.
Proof. exact majority_weighted. Qed.
Print Assumptions majority_common_tree_weighted.

(* hence the retained family is laminar *)
Theorem majority_laminar : forall thr, (half <= thr)%Qc ->
  (forall trees, Forall laminar trees -> laminar (retained_counts thr trees))
  /\ (forall wt : list (ctree * Qc), (forall p, In p wt -> (0 <= snd p)%Qc) -> (sumq (map snd wt) <= 1)%Qc ->
        Forall laminar (map fst wt) -> laminar (retained_weighted thr wt)).
Proof.
  intros thr Ht. split.
  - intros trees. now apply majority_laminar_counts.
  - intros wt Hw Hs. now apply majority_laminar_weighted.
Qed.
Print Assumptions majority_laminar.

(* find_smallest_superset never reaches `raise Exception("Inconsistent set of clades")` on a laminar family,
   in whatever order the sets are iterated *)
Theorem C16_no_inconsistent_exception : forall F, wfF F -> NoDup F -> laminar F ->
  exists E, consensus F = Some E.
Proof. exact consensus_total. Qed.
Print Assumptions C16_no_inconsistent_exception.
Theorem C16_no_inconsistent_exception_retained : forall thr, (half <= thr)%Qc ->
  (forall trees, Forall wfF trees -> Forall laminar trees -> exists E, consensus (retained_counts thr trees) = Some E)
  /\ (forall wt : list (ctree * Qc), (forall p, In p wt -> (0 <= snd p)%Qc) -> (sumq (map snd wt) <= 1)%Qc ->
        Forall wfF (map fst wt) -> Forall laminar (map fst wt) -> exists E, consensus (retained_weighted thr wt) = Some E).
Proof.
  intros thr Ht. split.
  - intros trees Hw Hl. destruct (retained_counts_wf thr trees Hw) as [H1 H2].
    apply consensus_total; [exact H1| exact H2| now apply majority_laminar_counts].
  - intros wt Hp Hs Hw Hl. destruct (retained_weighted_wf thr wt Hw) as [H1 H2].
    apply consensus_total; [exact H1| exact H2| now apply majority_laminar_weighted].
Qed.
Print Assumptions C16_no_inconsistent_exception_retained.

(* the clades of the output tree are exactly the retained clades - under the guard that no two relabelled
   nodes coincide; the relabelled graph is then a forest (one parent per node) *)
Theorem C16_clades_exact : forall F E, wfF F -> NoDup F -> consensus F = Some E -> own_injective F E ->
  rnodes E = map (own E) F
  /\ Forall2 seteq (out_clades F E) F
  /\ (forall k1 k2 k, In (k1, k) (redges E) -> In (k2, k) (redges E) -> k1 = k2).
Proof.
  intros F E Hw Hnd HE Hinj. destruct (clades_exact F E HE Hw Hinj Hnd) as [H1 H2].
  split; [exact H1|]. split; [exact H2|].
  intros k1 k2 k Ha Hb. exact (relabelled_parent_unique F E HE Hinj k1 k2 k Ha Hb Hnd).
Qed.
Print Assumptions C16_clades_exact.

(* on a laminar family own sets of distinct clades are disjoint, so the guard is exactly
   "at most one retained clade has an empty own-mutation set" *)
Theorem C16_guard_is_at_most_one_empty : forall F E, consensus F = Some E -> wfF F -> laminar F ->
  (at_most_one_empty_own F E <-> own_injective F E).
Proof. exact guard_iff. Qed.
Print Assumptions C16_guard_is_at_most_one_empty.

(* data points: a point of no retained clade gets no node (clone id -1); a covered point gets the node that owns it *)
Theorem C16_uncovered_are_minus_one : forall F E, consensus F = Some E -> wfF F ->
  (forall x, (forall c, In c F -> ~ In x c) -> assign (rnodes E) x = None)
  /\ (forall x c, In c F -> In x c -> exists k, assign (rnodes E) x = Some k /\ In k (rnodes E) /\ In x k).
Proof.
  intros F E HE Hw. split.
  - intros x. exact (uncovered_unassigned F E HE x).
  - intros x c. exact (covered_assigned F E HE Hw x c).
Qed.
Print Assumptions C16_uncovered_are_minus_one.

(* the candidate repair - nodes keyed by the clade itself, own mutations stored as an attribute - gives
   exactly the retained clades with no guard *)
Theorem C16_fixed_clades_exact : forall F E, consensus F = Some E -> wfF F ->
  Forall2 seteq (map (out_clade_fixed (fuel_of F) E) F) F.
Proof. exact fixed_clades_exact. Qed.
Print Assumptions C16_fixed_clades_exact.

(* the premises about the inputs hold for every recorded tree: the clade list of a rose forest with pairwise
   distinct data points and no empty clone is a laminar family of canonical (sorted, non-empty) clades *)
Theorem C16_recorded_trees_are_laminar : forall roots, wf_forest roots ->
  laminar (ctree_of roots) /\ wfF (ctree_of roots).
Proof. exact ctree_of_tree. Qed.
Print Assumptions C16_recorded_trees_are_laminar.

(* end to end, unweighted and weighted: for every list of recorded trees and every threshold >= 1/2 the consensus
   is built without exception; if at most one retained clade has an empty own-mutation set its clades are exactly
   the retained ones; with the candidate repair they always are; uncovered points get no node *)
Theorem C16_end_to_end : forall thr, (half <= thr)%Qc ->
  forall (F : list clade),
  (exists forests, Forall wf_forest forests /\ F = retained_counts thr (map ctree_of forests))
  \/ (exists fw : list (list rtree * Qc), Forall wf_forest (map fst fw) /\ (forall p, In p fw -> (0 <= snd p)%Qc)
        /\ (sumq (map snd fw) <= 1)%Qc /\ F = retained_weighted thr (map (fun p => (ctree_of (fst p), snd p)) fw)) ->
  exists E, consensus F = Some E
    /\ (at_most_one_empty_own F E -> Forall2 seteq (out_clades F E) F)
    /\ Forall2 seteq (map (out_clade_fixed (fuel_of F) E) F) F
    /\ (forall x, (forall c, In c F -> ~ In x c) -> assign (rnodes E) x = None).
Proof.
  intros thr Ht F HF.
  assert (H : wfF F /\ NoDup F /\ laminar F).
  { destruct HF as [(forests & Hwf & ->)|(fw & Hwf & Hpos & Hsum & ->)].
    - assert (Hw : Forall wfF (map ctree_of forests)) by (apply Forall_map; eapply Forall_impl; [|exact Hwf]; intros r Hr; apply (ctree_of_tree r Hr)).
      assert (Hl : Forall laminar (map ctree_of forests)) by (apply Forall_map; eapply Forall_impl; [|exact Hwf]; intros r Hr; apply (ctree_of_tree r Hr)).
      destruct (retained_counts_wf thr _ Hw) as [H1 H2]. split; [exact H1|]. split; [exact H2|]. now apply majority_laminar_counts.
    - set (wt := map (fun p => (ctree_of (fst p), snd p)) fw).
      assert (Hfst : map fst wt = map ctree_of (map fst fw)) by (unfold wt; rewrite !map_map; reflexivity).
      assert (Hsnd : map snd wt = map snd fw) by (unfold wt; rewrite map_map; reflexivity).
      assert (Hw : Forall wfF (map fst wt)) by (rewrite Hfst; apply Forall_map; eapply Forall_impl; [|exact Hwf]; intros r Hr; apply (ctree_of_tree r Hr)).
      assert (Hl : Forall laminar (map fst wt)) by (rewrite Hfst; apply Forall_map; eapply Forall_impl; [|exact Hwf]; intros r Hr; apply (ctree_of_tree r Hr)).
      destruct (retained_weighted_wf thr _ Hw) as [H1 H2]. split; [exact H1|]. split; [exact H2|].
      assert (Hs' : (sumq (map snd wt) <= 1)%Qc) by (rewrite Hsnd; exact Hsum).
      apply majority_laminar_weighted; [|exact Hs'| exact Ht| exact Hl].
      intros p Hp. unfold wt in Hp. apply in_map_iff in Hp as [q [<- Hq]]. cbn [snd]. now apply Hpos. }
  destruct H as (Hw & Hnd & Hl). destruct (consensus_total F Hw Hnd Hl) as [E HE]. exists E.
  split; [exact HE|]. split; [|split].
  - intros Hg. apply (clades_exact F E HE Hw); [|exact Hnd]. now apply (guard_iff F E HE Hw Hl).
  - exact (fixed_clades_exact F E HE Hw).
  - intros x. exact (uncovered_unassigned F E HE x).
Qed.
Print Assumptions C16_end_to_end.

(* ---- witnesses on the faithful model of the pinned code ---- *)
(* three trees over four points, threshold 1/2: {0,1} and {2,3} are retained, both are fully covered by their
   retained sub-clades, both become the node frozenset() and the output tree has the clade {0,1,2,3} instead *)
Definition wT1 : ctree := [[0;1];[0];[2;3];[2]].
Definition wT2 : ctree := [[0;1];[1];[2;3];[3]].
Definition wT3 : ctree := [[0];[1];[2];[3]].
Example C16_empty_nodes_merge_refuted :
  let F := retained_counts half [wT1; wT2; wT3] in
  F = [[0;1]; [2;3]; [0]; [1]; [2]; [3]]
  /\ option_map (map norm) (consensus_clades F) = Some [[0;1;2;3]; [0]; [1]; [2]; [3]]
  /\ option_map (fun E => map norm (map (out_clade_fixed (fuel_of F) E) F)) (consensus F) = Some F.
Proof. repeat split; vm_compute; reflexivity. Qed.
Print Assumptions C16_empty_nodes_merge_refuted.
(* worse: when one fully covered clade lies above another the merged node is its own descendant - the
   relabelled graph has a cycle, no node is without predecessor, and no valid tree results *)
Definition cT1 : ctree := [[0];[1];[1;2];[1;2;3]].
Definition cT2 : ctree := [[2];[1;2];[1;2;3];[0;1;2;3]].
Definition cT3 : ctree := [[0];[1];[2];[0;1;2;3]].
Example C16_empty_nodes_cycle_refuted :
  let F := retained_counts half [cT1; cT2; cT3] in
  match consensus F with
  | Some E => existsb (pair_eqb ([], [3])) (redges E) && existsb (pair_eqb ([3], [])) (redges E)
              && Nat.eqb (length (rnodes E)) 5 && Nat.eqb (length F) 6 = true
  | None => False
  end.
Proof. vm_compute. reflexivity. Qed.
Print Assumptions C16_empty_nodes_cycle_refuted.

(* non-vacuity: a weighted instance where every premise holds (distinct own sets, one of them empty) *)
Definition nT1 : ctree := [[0;1;2];[0];[1;2]].
Definition nT2 : ctree := [[0;1;2];[1];[0;2]].
Definition nT3 : ctree := [[0];[1];[2]].
Example C16_nontrivial :
  let wt := [(nT1, Q2Qc (3#8)); (nT2, Q2Qc (1#4)); (nT3, Q2Qc (3#8))] in
  let F := retained_weighted half wt in
  F = [[0;1;2]; [0]; [1]]
  /\ match consensus F with
     | Some E => map (own E) F = [[2]; [0]; [1]] /\ map norm (out_clades F E) = F
                 /\ assign (rnodes E) 2 = Some [2] /\ assign (rnodes E) 3 = None
     | None => False
     end.
Proof. split; vm_compute; repeat split; reflexivity. Qed.
Print Assumptions C16_nontrivial.
