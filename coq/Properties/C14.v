(* C14 - memoised recursion and proposal results equal unmemoised computation.

   Proved for EVERY call history, capacity, eviction pattern and clear schedule: a memo table whose key is sound
   (equal keys imply equal function values, across environments) returns exactly what the function returns at that
   moment (C14_memo_refines).  Key soundness of the individual PhyClone caches is derived from stated premises:
     - compute_log_S (sorted multiset of per-child digests): digest injective on the arrays seen [an assumption about
       xxh3-64, not provable] and the cached function invariant under permutation of its argument list [proved for
       the exact-arithmetic recursion by C02; in floating point it holds only inside C02's underflow window];
     - _convolve_two_children (unordered pair of digests): digest injective and the function commutative;
     - the proposal caches (data point, kernel, parent particle, outlier probability, alpha): the key is the whole
       argument tuple plus alpha, so it is sound for any constructor reading nothing else, and a changed alpha misses.
   Validated, not proved: that the real caches are instances of this table (hit/miss behaviour, keys), that the real
   functions satisfy the premises on the explored runs (the harness shadows every cached entry point and recomputes). *)
From PV Require Import Model.Memo Model.CaseUtil Proofs.MemoProofs Model.Marginal Proofs.MarginalProofs.
Open Scope nat_scope.

Theorem C14_memo_refines :
  forall (Env A K V : Type) (f : Env -> A -> V) (key : Env -> A -> K) (keqb : K -> K -> bool),
  (forall a b, keqb a b = true <-> a = b) ->
  key_sound Env A K V f key ->
  forall cap h, run Env A K V f key keqb cap h [] = spec Env A V f h.
Proof. exact memo_refines. Qed.
Print Assumptions C14_memo_refines.

Theorem C14_logS_key_sound :
  forall (Arr : Type) (digest : Arr -> nat), (forall x y, digest x = digest y -> x = y) ->
  forall (V : Type) (g : list Arr -> V), (forall l l', Permutation l l' -> g l = g l') ->
  forall l l', logS_key Arr digest l = logS_key Arr digest l' -> g l = g l'.
Proof. exact logS_key_sound. Qed.
Print Assumptions C14_logS_key_sound.

Theorem C14_conv_key_sound :
  forall (Arr : Type) (digest : Arr -> nat), (forall x y, digest x = digest y -> x = y) ->
  forall (V : Type) (c : Arr * Arr -> V), (forall a b, c (a, b) = c (b, a)) ->
  forall p q, conv_key Arr digest p = conv_key Arr digest q -> c p = c q.
Proof. exact conv_key_sound. Qed.
Print Assumptions C14_conv_key_sound.

Theorem C14_proposal_key_sound : forall (D Kn P W : Type) (prop : Qc -> pargs D Kn P -> W),
  key_sound Qc (pargs D Kn P) (pargs D Kn P * Qc) W prop proposal_key.
Proof. exact @proposal_key_sound. Qed.
Print Assumptions C14_proposal_key_sound.

Theorem C14_changed_alpha_misses :
  forall (D Kn P W : Type) (keqb : pargs D Kn P * Qc -> pargs D Kn P * Qc -> bool),
  (forall a b, keqb a b = true <-> a = b) ->
  forall (t : table (pargs D Kn P * Qc) W) alpha a,
  (forall k v, In (k, v) t -> snd k <> alpha) -> lookup _ _ keqb (proposal_key alpha a) t = None.
Proof. exact @alpha_change_misses. Qed.
Print Assumptions C14_changed_alpha_misses.

(* the memoised children recursion equals the unmemoised one along every history (the two previous theorems combined) *)
Theorem C14_logS_cache_refines :
  forall (Arr : Type) (digest : Arr -> nat), (forall x y, digest x = digest y -> x = y) ->
  forall (V : Type) (g : list Arr -> V), (forall l l', Permutation l l' -> g l = g l') ->
  forall (keqb : list nat -> list nat -> bool), (forall a b, keqb a b = true <-> a = b) ->
  forall cap h,
  run unit (list Arr) (list nat) V (fun _ => g) (fun _ => logS_key Arr digest) keqb cap h []
  = spec unit (list Arr) V (fun _ => g) h.
Proof.
  intros Arr digest Hd V g Hg keqb Hk cap h. apply memo_refines; [exact Hk|].
  intros e a e' b H. apply (logS_key_sound Arr digest Hd V g Hg). exact H.
Qed.
Print Assumptions C14_logS_cache_refines.

(* ... and for the EXACT-arithmetic children recursion of C02 (compute_log_S = any function F of the folded
   convolution D of the children's vectors) the permutation-invariance premise is C02_D_perm_invariant, so only the
   digest's injectivity remains as a premise *)
Theorem C14_logS_cache_refines_exact_recursion :
  forall (digest : Marginal.vec -> nat), (forall x y, digest x = digest y -> x = y) ->
  forall (G : nat) (V : Type) (F : Marginal.vec -> V)
         (keqb : list nat -> list nat -> bool), (forall a b, keqb a b = true <-> a = b) ->
  forall cap h,
  run unit (list Marginal.vec) (list nat) V (fun _ cs => F (Marginal.D G cs)) (fun _ => logS_key Marginal.vec digest) keqb cap h []
  = spec unit (list Marginal.vec) V (fun _ cs => F (Marginal.D G cs)) h.
Proof.
  intros digest Hd G V F keqb Hk cap h.
  apply (C14_logS_cache_refines Marginal.vec digest Hd V (fun cs => F (Marginal.D G cs))); [|exact Hk].
  intros l l' HP. f_equal. apply D_perm. exact HP.
Qed.
Print Assumptions C14_logS_cache_refines_exact_recursion.

(* ---- refuted: an unsound key ------------------------------------------------------------------------ *)
(* a key that forgets part of the argument: the second call hits and returns the first call's value *)
Example C14_memo_unsound_key_refuted :
  let f := fun (_ : unit) (a : nat) => a * a in
  let key := fun (_ : unit) (a : nat) => a mod 2 in
  run unit nat nat nat f key Nat.eqb 8 [Call tt 1; Call tt 3] [] = [1; 1]
  /\ spec unit nat nat f [Call tt 1; Call tt 3] = [1; 9].
Proof. split; vm_compute; reflexivity. Qed.
Print Assumptions C14_memo_unsound_key_refuted.

(* a key that forgets the environment (alpha): stale after the environment changes *)
Example C14_key_without_environment_refuted :
  let f := fun (alpha : nat) (a : nat) => alpha + a in
  run nat nat nat nat f (fun _ a => a) Nat.eqb 8 [Call 1 5; Call 2 5] [] = [6; 6]
  /\ run nat nat (nat * nat) nat f (fun al a => (al, a)) (fun x y => (fst x =? fst y) && (snd x =? snd y)) 8 [Call 1 5; Call 2 5] [] = [6; 7].
Proof. split; vm_compute; reflexivity. Qed.
Print Assumptions C14_key_without_environment_refuted.

(* an order-insensitive key around an order-SENSITIVE function (what the 1e-100 floor does to 3+ children outside the
   underflow window): the hit returns the value of the other order *)
Example C14_order_sensitive_function_refuted :
  let g := fun (_ : unit) (l : list nat) => match l with x :: _ => x | [] => 0 end in
  run unit (list nat) (list nat) nat g (fun _ l => logS_key nat (fun x => x) l) lnat_eqb 8
      [Call tt [1; 2]; Call tt [2; 1]] [] = [1; 1].
Proof. vm_compute; reflexivity. Qed.
Print Assumptions C14_order_sensitive_function_refuted.

(* ---- non-vacuity: a sound key, capacity 2, hits, evictions and a clear -------------------------------- *)
Example C14_nontrivial :
  let f := fun (_ : unit) (a : nat) => (a mod 3) * 10 in
  let key := fun (_ : unit) (a : nat) => a mod 3 in
  let h := [Call tt 1; Call tt 4; Call tt 2; Call tt 3; Call tt 7; Drop 0; Call tt 3; Clear; Call tt 3] in
  run unit nat nat nat f key Nat.eqb 2 h [] = spec unit nat nat f h
  /\ hits unit nat nat nat f key Nat.eqb 2 h [] = 2
  /\ logS_key nat (fun x => x) [3; 1; 2] = logS_key nat (fun x => x) [2; 3; 1]
  /\ conv_key nat (fun x => x) (4, 2) = conv_key nat (fun x => x) (2, 4).
Proof. repeat split; vm_compute; reflexivity. Qed.
Print Assumptions C14_nontrivial.
