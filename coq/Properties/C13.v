(* C13 - the concentration update is an exact Gibbs step for the CRP concentration.

   FULL STATEMENT (not formalised - no measure theory library is installed):
     for all a, b > 0, 1 <= K <= n, the Markov kernel  alpha -> alpha'  that draws eta ~ Beta(alpha + 1, n) and then
     alpha' from the two-component Gamma mixture leaves the posterior
         p(alpha | K, n)  proportional to  Gamma(a, b)(alpha) * alpha^K Gamma(alpha) / Gamma(alpha + n)
     invariant, i.e.  integral p(alpha | K, n) k(alpha, d alpha') d alpha = p(alpha' | K, n) d alpha'.
   PROVED here (hence `_partial`): the algebraic content of that statement -
     (i)   the density of the code's mixture draw is C * x^(a+K-2) (x+n) exp(-x r), C independent of x;
     (ii)  the augmented joint  prior(alpha) alpha^(K-1) (alpha+n) eta^alpha (1-eta)^(n-1)  factorises as
           g(alpha) * Beta(alpha+1, n)(eta)  and as  h(eta) * mixture(alpha; r = b - ln eta): the two draws are its two
           full conditionals (each ratio is independent of the variable being drawn);
     (iii) g(alpha) = Gamma(n) * prior(alpha) * alpha^K Gamma(alpha)/Gamma(alpha+n): the alpha-marginal of the joint is the
           posterior (given that the Beta density integrates to one);
     (iv)  the run loop's (K, n) are (#clones, #data points in clones), whatever the outliers;
     (v)   the executable parameter model over Qc (tied to the code by the correspondence) denotes exactly the real-valued
           weight / shape / scale / Beta parameters used in (i)-(ii).
   ADDED (session 3): the integration half, relative to an abstract integration operator.  C13_two_block_gibbs_invariant:
   for ANY two functionals Ia, Ie : (R -> R) -> R that only look at the function on the domain, are linear in constants and
   commute (Fubini), a sweep "second variable from its full conditional, then first variable from its full conditional"
   leaves the first marginal of any joint density invariant.  C13_concentration_update_invariant: instantiated with the
   augmented joint, the code's two draws (Beta(alpha + 1, n), then the NORMALISED two-component mixture with rate
   b - ln eta) and the posterior of the statement - given in addition that the Beta density has mass one and the mixture
   non-zero mass under Ie / Ia.  These premises are what Lebesgue integration of non-negative functions on (0,oo) and (0,1)
   satisfies (Tonelli); they are visible hypotheses, not axioms, and are NOT discharged here (no measure theory installed).
   NOT proved: that such functionals exist with these properties (i.e. Tonelli and the Beta / Gamma normalisations), and
   that scipy's rvs sample from the densities.
   The Gamma function is a variable [Gam] with the visible premises Gam (s+1) = s * Gam s and Gam s > 0 for s > 0. *)
From PV Require Import Model.Concentration Proofs.ConcentrationProofs Proofs.ConcentrationBridge Proofs.ConcentrationGibbs.
From Coq Require Import Lra.
Local Open Scope R_scope.

Theorem C13_mixture_is_target : forall Gam, Gamma_like Gam ->
  forall (a : R) (K n : nat) (r : R), 0 < a -> (1 <= K)%nat -> (K <= n)%nat -> 0 < r ->
  exists C, 0 < C /\ forall x, 0 < x -> mixture Gam a K n r x = C * target a K n r x.
Proof. exact C13_mixture_lemma. Qed.
Print Assumptions C13_mixture_is_target.

Theorem C13_joint_conditionals : forall Gam, Gamma_like Gam ->
  forall (a b : R) (K n : nat), 0 < a -> 0 < b -> (1 <= K)%nat -> (K <= n)%nat ->
  (* eta | alpha  is Beta(alpha + 1, n) *)
  (forall alpha, 0 < alpha -> exists g, forall eta, 0 < eta < 1 ->
     joint Gam a b K n alpha eta = g * beta_dens Gam (alpha + 1) (INR n) eta)
  /\
  (* alpha | eta  is the code's mixture with rate b - ln eta *)
  (forall eta, 0 < eta < 1 -> exists h, forall alpha, 0 < alpha ->
     joint Gam a b K n alpha eta = h * mixture Gam a K n (b - ln eta) alpha).
Proof. exact C13_conditionals_lemma. Qed.
Print Assumptions C13_joint_conditionals.

(* the explicit factors: the eta-marginal factor is Gamma(n) * prior * CRP likelihood (the posterior), the alpha-conditional
   is a positive multiple of the statement's target with r = b - ln eta *)
Theorem C13_exact_gibbs_step_partial : forall Gam, Gamma_like Gam ->
  forall (a b : R) (K n : nat) (alpha eta : R), 0 < a -> 0 < b -> (1 <= K)%nat -> (K <= n)%nat -> 0 < alpha -> 0 < eta < 1 ->
  joint Gam a b K n alpha eta = posterior_unnorm Gam a b K n alpha * beta_dens Gam (alpha + 1) (INR n) eta
  /\ joint Gam a b K n alpha eta
     = alpha_const Gam a b K n eta * (mix_const Gam a K n (b - ln eta) * target a K n (b - ln eta) alpha)
  /\ 0 < mix_const Gam a K n (b - ln eta).
Proof. exact C13_gibbs_lemma. Qed.
Print Assumptions C13_exact_gibbs_step_partial.

(* two-block Gibbs on a product space, for any integration operators satisfying Fubini (all premises visible) *)
Theorem C13_two_block_gibbs_invariant :
  forall (Pa Pe : R -> Prop) (Ia Ie : (R -> R) -> R),
  (forall f g, (forall x, Pa x -> f x = g x) -> Ia f = Ia g) -> (forall f g, (forall y, Pe y -> f y = g y) -> Ie f = Ie g) ->
  (forall c f, Ia (fun x => c * f x) = c * Ia f) -> (forall c f, Ie (fun y => c * f y) = c * Ie f) ->
  (forall f : R -> R -> R, Ia (fun x => Ie (fun y => f x y)) = Ie (fun y => Ia (fun x => f x y))) ->
  forall J : R -> R -> R,
  (forall x, Pa x -> margA Ie J x <> 0) -> (forall y, Pe y -> margE Ia J y <> 0) ->
  forall x', Ia (fun x => margA Ie J x * sweep Ia Ie J x x') = margA Ie J x'.
Proof. exact two_block_gibbs_invariant. Qed.
Print Assumptions C13_two_block_gibbs_invariant.

(* THE STATEMENT, relative to the integration operators: posterior(alpha) x density of the code's update, integrated over
   alpha, is posterior(alpha') - the update (auxiliary Beta draw, then the normalised Gamma mixture) leaves the conditional
   posterior of the concentration given K and n invariant *)
Theorem C13_concentration_update_invariant :
  forall Gam, Gamma_like Gam ->
  forall (a b : R) (K n : nat), 0 < a -> 0 < b -> (1 <= K)%nat -> (K <= n)%nat ->
  forall (Ia Ie : (R -> R) -> R),
  (forall f g, (forall x, 0 < x -> f x = g x) -> Ia f = Ia g) -> (forall f g, (forall y, 0 < y < 1 -> f y = g y) -> Ie f = Ie g) ->
  (forall c f, Ia (fun x => c * f x) = c * Ia f) -> (forall c f, Ie (fun y => c * f y) = c * Ie f) ->
  (forall f : R -> R -> R, Ia (fun x => Ie (fun y => f x y)) = Ie (fun y => Ia (fun x => f x y))) ->
  (forall alpha, 0 < alpha -> Ie (beta_dens Gam (alpha + 1) (INR n)) = 1) ->
  (forall eta, 0 < eta < 1 -> Ia (mixture Gam a K n (b - ln eta)) <> 0) ->
  forall alpha', 0 < alpha' ->
  Ia (fun alpha => posterior_unnorm Gam a b K n alpha * update_dens Gam a b K n Ia Ie alpha alpha') = posterior_unnorm Gam a b K n alpha'.
Proof.
  intros Gam HG a b K n Ha Hb HK HKn Ia Ie H1 H2 H3 H4 H5 H6 H7 alpha' Hal.
  exact (concentration_update_invariant Gam HG a b K n Ha Hb HK HKn Ia Ie H1 H2 H3 H4 H5 H6 H7 alpha' Hal).
Qed.
Print Assumptions C13_concentration_update_invariant.

(* non-vacuity of the generic theorem's premises: point evaluations are such functionals (a one-point space) *)
Example C13_two_block_premises_satisfiable :
  let Ia := fun f : R -> R => f 1 in let Ie := fun f : R -> R => f (/ 2) in
  let J := fun x y : R => x + y in
  (forall f g, (forall x, 0 < x -> f x = g x) -> Ia f = Ia g) /\ (forall f g, (forall y, 0 < y < 1 -> f y = g y) -> Ie f = Ie g)
  /\ (forall c f, Ia (fun x => c * f x) = c * Ia f) /\ (forall c f, Ie (fun y => c * f y) = c * Ie f)
  /\ (forall f : R -> R -> R, Ia (fun x => Ie (fun y => f x y)) = Ie (fun y => Ia (fun x => f x y)))
  /\ (forall x, 0 < x -> margA Ie J x <> 0) /\ (forall y, 0 < y < 1 -> margE Ia J y <> 0).
Proof.
  cbv zeta. unfold margA, margE. split; [|split; [|split; [|split; [|split; [|split]]]]].
  - intros f g H. cbv beta. apply (H 1). lra.
  - intros f g H. cbv beta. apply (H (/ 2)). lra.
  - intros c f. reflexivity.
  - intros c f. reflexivity.
  - intros f. reflexivity.
  - intros x Hx. lra.
  - intros y Hy. lra.
Qed.
Print Assumptions C13_two_block_premises_satisfiable.

Theorem C13_K_n_excludes_outliers : forall F : forest,
  K_n_of_tree F = (fclones F, list_sum (map size (roots F)))
  /\ forall o', K_n_of_tree F = K_n_of_tree (mkF (roots F) o').
Proof.
  intros F. split; [apply K_n_spec|]. intros o'. destruct F as [r o]. apply K_n_ignores_outliers.
Qed.
Print Assumptions C13_K_n_excludes_outliers.

(* the code's mixture weight is shape / (shape + n * rate) *)
Theorem C13_weight_closed_form : forall (a b : Qc) (K n : nat) (L : Qc),
  (0 < a)%Qc -> (0 < b)%Qc -> (0 < L)%Qc -> (1 <= K)%nat -> (1 <= n)%nat ->
  pi_mix a b K n L = (shape0 a K / (shape0 a K + qn n * rate b L))%Qc.
Proof. exact pi_mix_closed_pos. Qed.
Print Assumptions C13_weight_closed_form.

(* the executable parameter model (Qc; what the correspondence compares with the recorded rvs arguments) denotes the
   real-valued weight, shape, scale and Beta parameters of the theorems above, with r = b + L, L = -log eta *)
Theorem C13_params_denote : forall (a b : Qc) (K n : nat) (L : Qc) (z : bool),
  (0 < a)%Qc -> (0 < b)%Qc -> (0 < L)%Qc -> (1 <= K)%nat -> (1 <= n)%nat ->
  qr (pi_mix a b K n L) = pi_R (qr a) K n (qr b + qr L)
  /\ qr (shape1 a K z) = qr a + INR K - 1 + (if z then 1 else 0)
  /\ qr (scale b L) = / (qr b + qr L)
  /\ qr (beta_a a) = qr a + 1 /\ qr (beta_b n) = INR n.
Proof. exact params_denote. Qed.
Print Assumptions C13_params_denote.

(* non-vacuity of the premises on the Gamma function: some function satisfies both (Euler's Gamma is not in the stdlib) *)
Example C13_Gamma_like_satisfiable : exists Gam : R -> R, Gamma_like Gam.
Proof. exists Gw. exact Gamma_like_satisfiable. Qed.
Print Assumptions C13_Gamma_like_satisfiable.

(* ---- non-vacuity (parameter model, executable) ---- *)
Local Open Scope Qc_scope.
Example C13_params_example :
  map call_q (sample_calls (Q2Qc (1#2)) (Q2Qc 2) (Q2Qc 3) 2 5 (Q2Qc 1) true) = [[4; 5]; [1#11]; [5#2; 1#3]]%Q
  /\ map call_q (sample_calls (Q2Qc (1#2)) (Q2Qc 2) (Q2Qc 3) 0 5 (Q2Qc 1) true) = [[1#2; 1#2]]%Q
  /\ this (sample_value 2 (Q2Qc (1 # 100000000000))) = (1 # 10000000000)%Q
  /\ this (sample_value 0 (Q2Qc (37 # 100))) = (37 # 100)%Q.
Proof. repeat split; vm_compute; reflexivity. Qed.
Print Assumptions C13_params_example.

Example C13_K_n_example :
  K_n_of_tree (mkF [Node [4%nat] [Node [0; 1]%nat []; Node [2%nat] [Node [3%nat] []]]; Node [5%nat] []] [6; 7]%nat) = (5, 6)%nat.
Proof. vm_compute; reflexivity. Qed.
Print Assumptions C13_K_n_example.
