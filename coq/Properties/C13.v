(* C13 - the concentration update is an exact Gibbs step for the CRP concentration.

   FULL STATEMENT (not formalised - no measure theory library is installed):
     for all a, b > 0, 1 <= K <= n, the Markov kernel  alpha -> alpha'  that draws eta ~ Beta(alpha + 1, n) and then
     alpha' from the two-component Gamma mixture leaves the posterior
         p(alpha | K, n)  proportional to  Gamma(a, b)(alpha) * alpha^K Gamma(alpha) / Gamma(alpha + n)
     invariant, i.e.  integral p(alpha | K, n) k(alpha, d alpha') d alpha = p(alpha' | K, n) d alpha'.
   PROVED here (hence `_partial`): the algebraic content of that statement -
     (i)   the density of the code's mixture draw is C * x^(a+K-2) (x+n) exp(-x r), C independent of x;
     (ii)  the augmented joint  prior(alpha) alpha^(K-1) (alpha+n) eta^alpha (1-eta)^(n-1)  factorises as
           g(alpha) * Beta(alpha+1, n)(eta)  and as  h(eta) * mixture(alpha; r = b - ln eta): the two draws are its two
           full conditionals (each ratio is independent of the variable being drawn);
     (iii) g(alpha) = Gamma(n) * prior(alpha) * alpha^K Gamma(alpha)/Gamma(alpha+n): the alpha-marginal of the joint is the
           posterior (given that the Beta density integrates to one);
     (iv)  the run loop's (K, n) are (#clones, #data points in clones), whatever the outliers;
     (v)   the executable parameter model over Qc (tied to the code by the correspondence) denotes exactly the real-valued
           weight / shape / scale / Beta parameters used in (i)-(ii).
   NOT proved: that a two-block Gibbs sweep on a continuous space leaves the joint invariant (integration), that the
   Beta / Gamma densities integrate to one, and that scipy's rvs sample from them.
   The Gamma function is a variable [Gam] with the visible premises Gam (s+1) = s * Gam s and Gam s > 0 for s > 0. *)
From PV Require Import Model.Concentration Proofs.ConcentrationProofs Proofs.ConcentrationBridge.
Local Open Scope R_scope.

Theorem C13_mixture_is_target : forall Gam, Gamma_like Gam ->
  forall (a : R) (K n : nat) (r : R), 0 < a -> (1 <= K)%nat -> (K <= n)%nat -> 0 < r ->
  exists C, 0 < C /\ forall x, 0 < x -> mixture Gam a K n r x = C * target a K n r x.
Proof. exact C13_mixture_lemma. Qed.
Print Assumptions C13_mixture_is_target.

Theorem C13_joint_conditionals : forall Gam, Gamma_like Gam ->
  forall (a b : R) (K n : nat), 0 < a -> 0 < b -> (1 <= K)%nat -> (K <= n)%nat ->
  (* eta | alpha  is Beta(alpha + 1, n) *)
  (forall alpha, 0 < alpha -> exists g, forall eta, 0 < eta < 1 ->
     joint Gam a b K n alpha eta = g * beta_dens Gam (alpha + 1) (INR n) eta)
  /\
  (* alpha | eta  is the code's mixture with rate b - ln eta *)
  (forall eta, 0 < eta < 1 -> exists h, forall alpha, 0 < alpha ->
     joint Gam a b K n alpha eta = h * mixture Gam a K n (b - ln eta) alpha).
Proof. exact C13_conditionals_lemma. Qed.
Print Assumptions C13_joint_conditionals.

(* the explicit factors: the eta-marginal factor is Gamma(n) * prior * CRP likelihood (the posterior), the alpha-conditional
   is a positive multiple of the statement's target with r = b - ln eta *)
Theorem C13_exact_gibbs_step_partial : forall Gam, Gamma_like Gam ->
  forall (a b : R) (K n : nat) (alpha eta : R), 0 < a -> 0 < b -> (1 <= K)%nat -> (K <= n)%nat -> 0 < alpha -> 0 < eta < 1 ->
  joint Gam a b K n alpha eta = posterior_unnorm Gam a b K n alpha * beta_dens Gam (alpha + 1) (INR n) eta
  /\ joint Gam a b K n alpha eta
     = alpha_const Gam a b K n eta * (mix_const Gam a K n (b - ln eta) * target a K n (b - ln eta) alpha)
  /\ 0 < mix_const Gam a K n (b - ln eta).
Proof. exact C13_gibbs_lemma. Qed.
Print Assumptions C13_exact_gibbs_step_partial.

Theorem C13_K_n_excludes_outliers : forall F : forest,
  K_n_of_tree F = (fclones F, list_sum (map size (roots F)))
  /\ forall o', K_n_of_tree F = K_n_of_tree (mkF (roots F) o').
Proof.
  intros F. split; [apply K_n_spec|]. intros o'. destruct F as [r o]. apply K_n_ignores_outliers.
Qed.
Print Assumptions C13_K_n_excludes_outliers.

(* the code's mixture weight is shape / (shape + n * rate) *)
Theorem C13_weight_closed_form : forall (a b : Qc) (K n : nat) (L : Qc),
  (0 < a)%Qc -> (0 < b)%Qc -> (0 < L)%Qc -> (1 <= K)%nat -> (1 <= n)%nat ->
  pi_mix a b K n L = (shape0 a K / (shape0 a K + qn n * rate b L))%Qc.
Proof. exact pi_mix_closed_pos. Qed.
Print Assumptions C13_weight_closed_form.

(* the executable parameter model (Qc; what the correspondence compares with the recorded rvs arguments) denotes the
   real-valued weight, shape, scale and Beta parameters of the theorems above, with r = b + L, L = -log eta *)
Theorem C13_params_denote : forall (a b : Qc) (K n : nat) (L : Qc) (z : bool),
  (0 < a)%Qc -> (0 < b)%Qc -> (0 < L)%Qc -> (1 <= K)%nat -> (1 <= n)%nat ->
  qr (pi_mix a b K n L) = pi_R (qr a) K n (qr b + qr L)
  /\ qr (shape1 a K z) = qr a + INR K - 1 + (if z then 1 else 0)
  /\ qr (scale b L) = / (qr b + qr L)
  /\ qr (beta_a a) = qr a + 1 /\ qr (beta_b n) = INR n.
Proof. exact params_denote. Qed.
Print Assumptions C13_params_denote.

(* non-vacuity of the premises on the Gamma function: some function satisfies both (Euler's Gamma is not in the stdlib) *)
Example C13_Gamma_like_satisfiable : exists Gam : R -> R, Gamma_like Gam.
Proof. exists Gw. exact Gamma_like_satisfiable. Qed.
Print Assumptions C13_Gamma_like_satisfiable.

(* ---- non-vacuity (parameter model, executable) ---- *)
Local Open Scope Qc_scope.
Example C13_params_example :
  map call_q (sample_calls (Q2Qc (1#2)) (Q2Qc 2) (Q2Qc 3) 2 5 (Q2Qc 1) true) = [[4; 5]; [1#11]; [5#2; 1#3]]%Q
  /\ map call_q (sample_calls (Q2Qc (1#2)) (Q2Qc 2) (Q2Qc 3) 0 5 (Q2Qc 1) true) = [[1#2; 1#2]]%Q
  /\ this (sample_value 2 (Q2Qc (1 # 100000000000))) = (1 # 10000000000)%Q
  /\ this (sample_value 0 (Q2Qc (37 # 100))) = (37 # 100)%Q.
Proof. repeat split; vm_compute; reflexivity. Qed.
Print Assumptions C13_params_example.

Example C13_K_n_example :
  K_n_of_tree (mkF [Node [4%nat] [Node [0; 1]%nat []; Node [2%nat] [Node [3%nat] []]]; Node [5%nat] []] [6; 7]%nat) = (5, 6)%nat.
Proof. vm_compute; reflexivity. Qed.
Print Assumptions C13_K_n_example.
