(* C19 - a run on valid input completes and records only finite, complete trees.

   Full statement (over the real kernels): for every valid data set and every option combination the command line
   accepts, run_phyclone_chain returns a trace whose every entry is a well-formed tree over all data points with a
   finite log_p_one.  What is proved here is the driver half: GIVEN that each kernel is total and keeps trees good
   (Section hypotheses H_burn_total, H_pg_total, H_subtree_total, H_dp_total, H_prg_total, H_relabel_good - the
   subject of C01/C04/C07/C08, visible below as premises), the chain driver is total for every
   (burnin, num_iters, thin >= 1, sweep counts, update flag, wall-clock behaviour, generator state) and records
   exactly the iterations 0, then i = 0 (mod thin).  The two places where the kernels of the pinned commit (30a152a)
   were NOT total on valid input are modelled at index level, parameterised by the flag `fixed` (false = pinned code,
   true = after the fix commits fb970cc / c51a714 of /repo), and the pinned variants are refuted.  Which variant the
   working tree implements is observed by the harness (correspondence), not assumed.  A third defect found by the
   search (Gamma(0.01) draw underflowing to alpha = 0.0 on a tree without clones, fixed in 322b9c9) is a floating-point
   event outside this model. *)
From PV Require Import Model.Grammar Model.Proposals Model.Csmc Proofs.GrammarTable Proofs.PgAssembly Proofs.GrammarPG.
From PV Require Import Model.RunDriver Proofs.RunDriverProofs.
Open Scope nat_scope.

Theorem C19_driver_total :
  forall (T R : Type) (burn pg subtree dp prg : kernel T R) (relabel : T -> T) (coin : R -> bool * R)
         (conc : R -> T -> Qc -> Qc * R) (good : T -> Prop),
  total T R good burn -> total T R good pg -> total T R good subtree -> total T R good dp -> total T R good prg ->
  (forall t, good t -> good (relabel t)) ->
  forall burnin iters thin nd np upd stopb stopm r t0 alpha0,
  1 <= thin -> good t0 ->
  exists tr, run_chain T R burn pg subtree dp prg relabel coin conc burnin iters thin nd np upd stopb stopm r t0 alpha0
             = Some tr /\ Forall (fun e => good (e_tree e)) tr.
Proof. exact driver_total. Qed.
Print Assumptions C19_driver_total.

(* the whole-tree particle-Gibbs kernel satisfies the totality premise above: over the real placement grammar, from every
   clone forest the update returns a tree with probability one (no mass is lost on any path: the model has no step at
   which the sampler can fail), for every proposal that is positive with unit mass over all_places and every positive target *)
Theorem C19_pg_update_total_over_grammar :
  forall (n : nat) (on : bool) (gam : list (list bool) -> Qc) (qp : list nat -> list place -> place -> Qc)
         (g : list nat -> list place -> Qc) (rs : @swarm place -> bool) (N : nat) (ops : list op),
    S (count_upd ops) = n ->
    (forall sg p a, (0 < qp sg p a)%Qc) -> (forall sg p, (0 < g sg p)%Qc) ->
    (forall sg p, sumq (map (qp sg p) (gsup on sg p)) = 1%Qc) ->
    forall t, In t (forests n on) ->
      mass (pg_update (gorders n) (gcden n) (gsup on) qp g (gdec n) (genc n on) rs N ops t) = 1%Qc.
Proof. exact pg_update_mass_grammar. Qed.
Print Assumptions C19_pg_update_total_over_grammar.

Theorem C19_trace_iterations :
  forall (T R : Type) (burn pg subtree dp prg : kernel T R) relabel coin conc
         burnin iters thin nd np upd stopb stopm r t0 alpha0 tr,
  run_chain T R burn pg subtree dp prg relabel coin conc burnin iters thin nd np upd stopb stopm r t0 alpha0 = Some tr ->
  map e_iter tr = trace_iters iters thin stopm.
Proof. exact driver_iters. Qed.
Print Assumptions C19_trace_iterations.

(* conditional SMC: the pinned `constrained_path[self.iteration + 1]` is in range for every resampling pattern
   iff it is not the case that there is one data point and the initial resample triggers (threshold = 1) *)
Theorem C19_resample_index_in_range_iff : forall T init trig, 1 <= T ->
  reads_ok T (sample_reads false T init trig) = true <-> ~ (T = 1 /\ init = true).
Proof. exact pinned_reads_ok_iff. Qed.
Print Assumptions C19_resample_index_in_range_iff.

Theorem C19_initial_resample_iff_threshold_one : forall thr : Qc, (thr <= 1)%Qc -> init_trigger thr = true <-> thr = 1%Qc.
Proof. exact init_trigger_iff. Qed.
Print Assumptions C19_initial_resample_iff_threshold_one.

(* candidate fix (retained particle read from the swarm): never out of range *)
Theorem C19_resample_index_fixed : forall T init trig, 1 <= T -> reads_ok T (sample_reads true T init trig) = true.
Proof. exact fixed_reads_ok. Qed.
Print Assumptions C19_resample_index_fixed.

(* subtree update: rng.choice over the non-outlier labels loses all mass exactly on all-outlier trees *)
Theorem C19_subtree_pick_total_iff : forall labels,
  (mass (subtree_pick false labels) = 1%Qc <-> exists p, In p labels /\ snd p <> None) /\
  ((forall p, In p labels -> snd p = None) -> subtree_pick false labels = []).
Proof. exact pinned_pick_mass. Qed.
Print Assumptions C19_subtree_pick_total_iff.

Theorem C19_subtree_pick_fixed : forall labels, mass (subtree_pick true labels) = 1%Qc.
Proof. exact fixed_pick_mass. Qed.
Print Assumptions C19_subtree_pick_fixed.

(* ---- refuted: the pinned code on valid input ---------------------------------------------------- *)
(* one data point, resample_threshold = 1: path = [None; p1], the initial resample reads index 2 *)
Example C19_threshold_one_single_point_refuted :
  init_trigger 1%Qc = true /\ sample_reads false 1 (init_trigger 1%Qc) (fun _ => false) = [1; 2]
  /\ path_len 1 = 2 /\ reads_ok 1 (sample_reads false 1 (init_trigger 1%Qc) (fun _ => false)) = false.
Proof. repeat split; vm_compute; reflexivity. Qed.
Print Assumptions C19_threshold_one_single_point_refuted.

(* a tree whose two data points are both outliers: rng.choice([]) *)
Example C19_subtree_all_outliers_refuted :
  subtree_pick false [(0, None); (1, None)] = [] /\ mass (subtree_pick false [(0, None); (1, None)]) = 0%Qc.
Proof. split; [vm_compute; reflexivity| apply Qc_is_canon; vm_compute; reflexivity]. Qed.
Print Assumptions C19_subtree_all_outliers_refuted.

(* ---- non-vacuity ---------------------------------------------------------------------------------- *)
(* a concrete instance of the driver: trees = nat (number of clones), generator = nat counter; every kernel total *)
Example C19_nontrivial_driver :
  option_map (map (fun e => (e_iter e, e_tree e)))
    (run_chain nat nat k_inc k_inc k_id k_id k_id (fun t => t) (fun r => (Nat.even r, S r)) (fun r t a => (a, S r))
               2 7 3 1 1 true (fun _ => false) (fun i => 5 <=? i) 0 1 1%Qc)
  = Some [(0, 2); (0, 2); (3, 2)] /\ trace_iters 7 3 (fun i => 5 <=? i) = [0; 0; 3].
Proof. split; vm_compute; reflexivity. Qed.
Print Assumptions C19_nontrivial_driver.

(* three data points, every resample triggering: reads stay within the path of length 4 *)
Example C19_nontrivial_reads :
  sample_reads false 3 true (fun _ => true) = [1; 2; 2; 2; 3] /\ reads_ok 3 (sample_reads false 3 true (fun _ => true)) = true
  /\ mass (subtree_pick false [(0, Some 0); (1, None); (2, Some 1)]) = 1%Qc.
Proof. repeat split; try (vm_compute; reflexivity). apply Qc_is_canon; vm_compute; reflexivity. Qed.
Print Assumptions C19_nontrivial_reads.
