(* C09 - data orders are drawn uniformly from those compatible with the tree; the reported density is
   1 / (number of such orders).  Statements only; proofs live in Proofs/Perm*.v. *)
From PV Require Import Model.Perm Proofs.PermProofs Proofs.PermSound Proofs.PermComplete Proofs.PermNoDup Proofs.PermDensity.
From Coq Require Import Permutation.
From PV Require Import Model.Grammar Proofs.GrammarTable Proofs.GrammarPG Proofs.GrammarForests Proofs.GrammarPerm.

(* the sampler's law is the uniform law on the enumerated list of orders, for every tree / forest *)
Theorem C09_sampler_uniform_on_orders : forall (F : forest) (f : list nat -> Qc),
  E (fsample F) f = sumq (map f (forders F)) / qn (length (forders F)).
Proof. intros F f. rewrite <- fcount_is_number_of_orders. exact (fsample_uniform F f). Qed.
Print Assumptions C09_sampler_uniform_on_orders.

Theorem C09_sampler_total_mass : forall F, mass (fsample F) = 1.
Proof. exact fsample_mass. Qed.
Print Assumptions C09_sampler_total_mass.

(* every enumerated order is a permutation of all data points placing each clone's points after all
   points of its descendants (outliers unconstrained) *)
Theorem C09_orders_sound : forall F o, In o (forders F) -> Permutation (fpoints F) o /\ frespects o F.
Proof. exact forders_sound. Qed.
Print Assumptions C09_orders_sound.

(* ... and every such permutation is enumerated: the sampler can produce every compatible order *)
Theorem C09_orders_complete : forall F o,
  NoDup (fpoints F) -> Permutation (fpoints F) o -> frespects o F -> In o (forders F).
Proof. exact forders_complete. Qed.
Print Assumptions C09_orders_complete.

(* ... and none is enumerated twice when the data points are distinct *)
Theorem C09_orders_NoDup : forall F, NoDup (fpoints F) -> NoDup (forders F).
Proof. exact forders_NoDup. Qed.
Print Assumptions C09_orders_NoDup.

(* THE PROPERTY in point-mass form: with distinct data points, every order that is a permutation of all data
   points placing each clone's points after its descendants' is drawn with probability exactly 1 / count,
   every other list with probability 0; the reported density is 1 / count *)
Theorem C09_each_compatible_order_equally_likely : forall F o,
  NoDup (fpoints F) -> Permutation (fpoints F) o -> frespects o F -> E (fsample F) (ind o) = / fcount F.
Proof. exact fsample_point_mass. Qed.
Print Assumptions C09_each_compatible_order_equally_likely.

Theorem C09_incompatible_order_never_drawn : forall F o,
  ~ (Permutation (fpoints F) o /\ frespects o F) -> E (fsample F) (ind o) = 0.
Proof. exact fsample_point_mass_incompatible. Qed.
Print Assumptions C09_incompatible_order_never_drawn.

(* the conditional density of the order given the tree (1 / count on compatible orders, 0 elsewhere) sums to one over
   all permutations of the data points: this is premise (iii) of C01_pg_update_invariant *)
Theorem C09_order_density_sums_to_one : forall F,
  NoDup (fpoints F) -> sumq (map (order_density F) (perms (fpoints F))) = 1.
Proof. exact order_density_sums_to_one. Qed.
Print Assumptions C09_order_density_sums_to_one.

(* the density (fixed code): count = number of enumerated orders *)
Theorem C09_density_is_inverse_count : forall F, fcount F = qn (length (forders F)).
Proof. exact fcount_is_number_of_orders. Qed.
Print Assumptions C09_density_is_inverse_count.

(* the same density on the label-free forests of the assembled particle-Gibbs theorem (Proofs/GrammarPG.v): gcden sg t is
   1 / #(orders compatible with the relation table t) when sg is compatible and 0 otherwise; it sums to one over all n!
   orders for EVERY forest over n points (every forest has a compatible order), which is premise (iii) in the form the
   assembled theorem uses.  [gcden] is compared with exp(log_pdf) of the implementation by the check. *)
Theorem C09_assembly_order_density_sums_to_one : forall (n : nat) (on : bool) (t : list (list bool)),
  In t (forests n on) -> sumq (map (fun sg => gcden n sg t) (gorders n)) = 1.
Proof. exact g_cden_sum. Qed.
Print Assumptions C09_assembly_order_density_sums_to_one.

(* the two models of compatibility agree: the orders enumerated above for a rose-tree forest F are exactly the
   permutations of its points that are compatible, in the grammar's sense, with the relation [frel F] the forest induces
   on the data points ... *)
Theorem C09_enumerated_orders_are_the_compatible_ones : forall (F : forest) (o : list nat),
  NoDup (fpoints F) -> (In o (forders F) <-> Permutation (fpoints F) o /\ compat (rev o) (frel F)).
Proof. exact forders_iff_compat. Qed.
Print Assumptions C09_enumerated_orders_are_the_compatible_ones.

(* ... hence the order density of the assembled particle-Gibbs theorem IS the density 1 / fcount F proved above *)
Theorem C09_assembly_density_is_order_density : forall (n : nat) (F : forest),
  Permutation (seq 0 n) (fpoints F) -> forall sg : list nat,
  In sg (gorders n) -> gcden n sg (tab n (frel F)) = order_density F sg.
Proof. exact gcden_is_order_density. Qed.
Print Assumptions C09_assembly_density_is_order_density.

Theorem C09_assembly_count_is_count : forall (n : nat) (F : forest),
  Permutation (seq 0 n) (fpoints F) -> qn (gcount n (tab n (frel F))) = fcount F.
Proof. exact gcount_is_fcount. Qed.
Print Assumptions C09_assembly_count_is_count.

(* the pinned commit's count is right exactly when there are at most one outlier *)
Theorem C09_pinned_count_ok_iff : forall F,
  fcount_pinned F = qn (length (forders F)) <-> (length (outl F) <= 1)%nat.
Proof. exact fcount_pinned_ok_iff. Qed.
Print Assumptions C09_pinned_count_ok_iff.

Open Scope nat_scope.
Example C09_pinned_count_refuted :
  let F := mkF [Node [0] []] [1; 2] in fcount_pinned F = qn 3 /\ length (forders F) = 6.
Proof. split; vm_compute; reflexivity. Qed.
Print Assumptions C09_pinned_count_refuted.

(* non-vacuity of the link: clone {2} above {0} and {1}, outlier 3: 2 x 4 = 8 orders in both models *)
Example C09_assembly_link_example :
  let F := mkF [Node [2] [Node [0] []; Node [1] []]] [3] in
  gcount 4 (tab 4 (frel F)) = 8 /\ length (forders F) = 8 /\ frel F 2 0 = true /\ frel F 0 2 = false /\ frel F 3 3 = false.
Proof. repeat split; vm_compute; reflexivity. Qed.
Print Assumptions C09_assembly_link_example.

(* non-vacuity: a three-level tree with outliers has a non-trivial order set *)
Example C09_nontrivial :
  let F := mkF [Node [4] [Node [0; 1] []; Node [2] [Node [3] []]]; Node [5] []] [6] in
  length (forders F) = 504 /\ fcount F = qn 504.
Proof. split; vm_compute; reflexivity. Qed.
Print Assumptions C09_nontrivial.
