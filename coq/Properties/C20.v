(* C20 - an interrupted or truncated trace file is never read as a valid result.

   Full statement (about CPython's gzip.GzipFile + pickle.load on real bytes): for every prefix length of the written
   file every summary command fails or sees exactly the written chains and entries.
   Proved (for every opcode stream, every cut position - also inside an opcode's argument -, every header/body/trailer
   split): in the stack-machine model of the unpickler a value is produced only by STOP, so no strict prefix of a
   well-formed stream decodes (C20_prefix_free); with the decompressor assumed to map a prefix of the deflate body to a
   prefix of the payload or an error (Section hypothesis inflate_prefix, visible as a premise), every prefix of the
   file is an error or reads back exactly the written value (C20_truncated_is_error_or_complete_partial).
   Partial: that CPython's unpickler, GzipFile and zlib behave as Model/Framing.v says is validated by the harness on
   every byte prefix of real trace files, not proved. *)
From PV Require Import Model.Framing Proofs.FramingProofs.
Open Scope nat_scope.

Theorem C20_prefix_free : forall ops n v,
  has_stop ops = false -> n < length (encode (ops ++ [stop_tok])) ->
  unpickle (firstn n (encode (ops ++ [stop_tok]))) <> Ok v.
Proof. exact prefix_free. Qed.
Print Assumptions C20_prefix_free.

Theorem C20_strict_prefix_is_unexpected_end : forall ops n v,
  has_stop ops = false -> unpickle (encode (ops ++ [stop_tok])) = Ok v ->
  n < length (encode (ops ++ [stop_tok])) ->
  unpickle (firstn n (encode (ops ++ [stop_tok]))) = Eof.
Proof. exact prefix_is_eof. Qed.
Print Assumptions C20_strict_prefix_is_unexpected_end.

(* for ANY stream (no well-formedness needed): a prefix runs out of input or gets the verdict of the whole stream *)
Theorem C20_prefix_eof_or_same : forall l n, unpickle (firstn n l) = Eof \/ unpickle (firstn n l) = unpickle l.
Proof. exact prefix_eof_or_same. Qed.
Print Assumptions C20_prefix_eof_or_same.

Theorem C20_truncated_is_error_or_complete_partial :
  forall (byte : Type) (inflate : list byte -> option (list sym)),
  (forall b out n, inflate b = Some out -> inflate (firstn n b) = None \/ exists k, inflate (firstn n b) = Some (firstn k out)) ->
  forall (f : gzfile byte) v n,
  read_file byte inflate f = Value v ->
  read_prefix byte inflate f n = Error \/ read_prefix byte inflate f n = Value v.
Proof. exact truncated_is_error_or_complete. Qed.
Print Assumptions C20_truncated_is_error_or_complete_partial.

Theorem C20_short_payload_is_error_partial :
  forall (byte : Type) (inflate : list byte -> option (list sym)) (f : gzfile byte) ops n k,
  has_stop ops = false ->
  inflate (body f) = Some (encode (ops ++ [stop_tok])) ->
  inflate (firstn (n - length (hdr f)) (body f)) = Some (firstn k (encode (ops ++ [stop_tok]))) ->
  k < length (encode (ops ++ [stop_tok])) ->
  read_prefix byte inflate f n = Error.
Proof. exact truncated_payload_is_error. Qed.
Print Assumptions C20_short_payload_is_error_partial.

(* ---- non-vacuity: a small stream shaped like a trace {0: {"trace": [..]}} ----------------------------- *)
Example C20_nontrivial :
  has_stop demo_ops = false /\ length (encode (demo_ops ++ [stop_tok])) = 50
  /\ is_ok (unpickle (encode (demo_ops ++ [stop_tok]))) = true
  /\ forallb (fun n => is_eof (unpickle (firstn n (encode (demo_ops ++ [stop_tok]))))) (seq 0 50) = true.
Proof. repeat split; vm_compute; reflexivity. Qed.
Print Assumptions C20_nontrivial.

(* the gzip layer with a concrete decompressor (identity on a symbol body): every cut is an error or the value;
   cuts inside the 8-byte trailer read back the complete value - as CPython does *)
Example C20_nontrivial_gzip :
  let rd := read_prefix sym (fun b => Some b) demo_file in
  forallb (fun n => match rd n with Error => true | Value _ => false end) (seq 0 60) = true
  /\ forallb (fun n => match rd n with Value _ => true | Error => false end) (seq 60 9) = true.
Proof. split; vm_compute; reflexivity. Qed.
Print Assumptions C20_nontrivial_gzip.

(* a format that could return before the end marker would violate the property: a decoder that accepts the value on
   top of the stack at end of input (no STOP needed) reads a truncated stream as a (partial) value *)
Example C20_no_end_marker_refuted :
  is_ok (lenient (firstn 14 demo_ops) []) = true /\ is_ok (unpickle (encode (firstn 14 demo_ops))) = false.
Proof. split; vm_compute; reflexivity. Qed.
Print Assumptions C20_no_end_marker_refuted.
