(* C01 - the particle-Gibbs update leaves the posterior invariant.
   Part 1 (proved for every particle count): when no resampling happens (threshold 0) the conditional SMC
   update is iterated sampling-importance-resampling over whole paths and leaves gamma = w * Q invariant.
   Statements only; proofs in Proofs/IsirProofs.v. *)
From PV Require Import Model.Isir Proofs.IsirProofs.

Theorem C01_isir_invariant :
  forall (A : Type) (Q : dist A) (w : A -> Qc),
    (forall a, 0 < w a) -> mass Q = 1 ->
    forall (n : nat) (f : A -> Qc),
      E Q (fun x => w x * E (isir Q w n x) f) = E Q (fun x => w x * f x).
Proof. exact (@isir_invariant). Qed.
Print Assumptions C01_isir_invariant.

Theorem C01_isir_total_mass :
  forall (A : Type) (Q : dist A) (w : A -> Qc),
    (forall a, 0 < w a) -> mass Q = 1 -> forall n x, mass (isir Q w n x) = 1.
Proof. exact (@isir_mass). Qed.
Print Assumptions C01_isir_total_mass.

(* non-vacuity: a two-path proposal with unequal weights, three particles *)
Example C01_isir_example :
  let Q := [(0%nat, Q2Qc (1#3)); (1%nat, Q2Qc (2#3))] in
  let w := fun a : nat => if Nat.eqb a 0 then Q2Qc (3#1) else Q2Qc (1#2) in
  Qc_eq_bool (mass Q) 1 = true /\ Qc_eq_bool (E Q (fun x => w x * E (isir Q w 2 x) (fun a => if Nat.eqb a 0 then 1 else 0))) 1 = true.
Proof. split; vm_compute; reflexivity. Qed.
Print Assumptions C01_isir_example.
