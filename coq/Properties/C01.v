(* C01 - the particle-Gibbs update leaves the posterior invariant.

   C01_csmc_invariant: for EVERY proposal q, positive incremental weights om, symmetric resampling criterion rs,
   number of particles n + 1 >= 1 and schedule of update / adaptive-resampling steps, the conditional SMC kernel
   (retained path in slot 0, multinomial resampling of the other slots, final draw in proportion to the weights)
   leaves invariant the path measure gamma(x_1..x_T) = prod_t q(x_t | x_<t) * om(x_<=t).
   For PhyClone's weights (C08_weights_telescope; last step carrying the log_p_one correction) that measure is
   gamma_one(tree) * pdf(tree) on the trees compatible with the data order.
   C01_aux_variable_invariant: drawing the data order from its conditional law (uniform over compatible orders,
   density 1 / count: C09) and then applying a kernel invariant for the slice leaves gamma_one invariant.
   C01_isir_invariant: the same for the threshold-0 scheme, proved separately (iterated SIR).

   Assembled (second half of this file): the same update over the REAL placement grammar (Model/Grammar.v; states = all
   clone forests over n data points, alphabet = C08's all_places, order density = C09's 1 / count), with PhyClone's three
   proposal densities, its resampling criterion and its schedule plugged in: C01_phyclone_update_invariant_{bootstrap,
   fully_adapted,semi_adapted}.  The ONLY premise left there is about the target: a positive intermediate target gt on
   histories whose value on complete paths is gamma(tree) x order density - i.e. that the incremental weights the code
   computes are the ratios log_p(new) - log_p(old) (+ order-density ratio) with the last-step correction to log_p_one
   (C08_weights_telescope proves the telescoping; C03 says what log_p / log_p_one are; the check compares the weights).

   What is NOT proved here: that the Python code IS this model - decided on every run by the correspondence (the Coq
   sampler on tables read off the real kernel against the exact outcome distribution of the real sampler; the grammar
   against the trees the real proposals build and the retained paths the real sampler reconstructs; the state space
   against an independent enumeration) and, for the property itself, by the exact transition matrices of
   harness/pv/props/C01.py.  Float rounding is outside the model. *)
From PV Require Import Model.Isir Proofs.IsirProofs Model.Csmc Proofs.CsmcSupport Proofs.CsmcInvariant Proofs.AuxVar Proofs.CsmcTarget Proofs.PgAssembly.
From PV Require Import Model.Grammar Model.Proposals Proofs.GrammarTable Proofs.GrammarPG Proofs.GrammarForests Proofs.GrammarProposals Model.CsmcCases Proofs.CsmcEss.
From PV Require Import Model.EndToEnd Proofs.EndToEndPos Proofs.EndToEndAlign Proofs.EndToEnd Proofs.EndToEndFeq Proofs.EndToEndRel Proofs.EndToEndReal.

Theorem C01_csmc_invariant :
  forall (A : Type) (q : list A -> dist A) (om : list A -> Qc) (rs : @swarm A -> bool) (n : nat),
    (forall p, 0 < om p) -> (forall p, mass (q p) = 1) -> (forall m s, rs (bring m s) = rs s) ->
    forall (ops : list op) (f : list A -> Qc),
      Ggam q om (S (count_upd ops)) [] (fun path => E (pg_kernel q om rs n ops path) f)
      = Ggam q om (S (count_upd ops)) [] (fun path => f (rev path)).
Proof. exact (@csmc_invariant). Qed.
Print Assumptions C01_csmc_invariant.

(* With importance weights of the form target(t) / target(t-1) / proposal probability (what Kernel.create_particle
   computes; the last target being the fixed-root density times the permutation density), the invariant measure is
   the FINAL target on the paths the proposal can reach: sum over reachable paths of g(path) * E[K f] = sum of g * f. *)
Theorem C01_csmc_leaves_final_target_invariant :
  forall (A : Type) (supp : list A -> list A) (qp : list A -> A -> Qc) (g : list A -> Qc)
         (rs : @swarm A -> bool) (n : nat),
    (forall p a, 0 < qp p a) -> (forall p, 0 < g p) -> (forall p, sumq (map (qp p) (supp p)) = 1) ->
    (forall m s, rs (bring m s) = rs s) ->
    forall (ops : list op) (f : list A -> Qc),
      sumq (map (fun path => g (rev path) * E (pg_kernel (q_of supp qp) (om_of qp g) rs n ops path) f)
                (conts supp (S (count_upd ops)) []))
      = sumq (map (fun path => g (rev path) * f (rev path)) (conts supp (S (count_upd ops)) [])).
Proof. exact (@csmc_final_target_invariant). Qed.
Print Assumptions C01_csmc_leaves_final_target_invariant.

(* THE UPDATE, assembled: data order drawn from its conditional law, conditional SMC along it, tree read off the
   selected path.  Premises: reachable complete paths = trees compatible with the order (C08 support + C09), final
   target of a path = gamma(tree) * order density (C08_weights_telescope + last-step correction), the order densities
   sum to one for every tree (C09: density = 1 / number of compatible orders). *)
Theorem C01_pg_update_invariant :
  forall (Tree Sig A : Type) (TS : list Tree) (gam : Tree -> Qc) (SIG : list Sig) (cden : Sig -> Tree -> Qc)
         (supp : Sig -> list A -> list A) (qp : Sig -> list A -> A -> Qc) (g : Sig -> list A -> Qc)
         (dec : Sig -> list A -> Tree) (enc : Sig -> Tree -> list A) (rs : @swarm A -> bool) (n : nat) (ops : list op),
    (forall sg p a, 0 < qp sg p a) -> (forall sg p, 0 < g sg p) ->
    (forall sg p, sumq (map (qp sg p) (supp sg p)) = 1) ->
    (forall m s, rs (bring m s) = rs s) ->
    (forall t, In t TS -> sumq (map (fun sg => cden sg t) SIG) = 1) ->
    (forall sg, In sg SIG ->
       Permutation.Permutation (map (fun path => dec sg (rev path)) (paths supp ops sg)) (filter (compatb cden sg) TS)) ->
    (forall sg path, In sg SIG -> In path (paths supp ops sg) -> enc sg (dec sg (rev path)) = path) ->
    (forall sg path, In sg SIG -> In path (paths supp ops sg) ->
       g sg (rev path) = gam (dec sg (rev path)) * cden sg (dec sg (rev path))) ->
    invariant (wlist gam TS) (pg_update SIG cden supp qp g dec enc rs n ops).
Proof. exact (@pg_update_invariant). Qed.
Print Assumptions C01_pg_update_invariant.

(* the premises of C01_pg_update_invariant are satisfiable: two binary steps, a non-uniform target on four states *)
Example C01_pg_update_premises_satisfiable :
  invariant (wlist ex_gam ex_TS)
    (pg_update [tt] (fun _ _ => 1) (fun _ _ => [true; false]) (fun _ _ _ => Proposals.half) (fun _ p => ex_gam (ex_dec p))
               (fun _ => ex_dec) (fun _ => ex_enc) (fun _ => true) 2 [Res; Upd]).
Proof. exact ex_invariant. Qed.
Print Assumptions C01_pg_update_premises_satisfiable.

(* The same update over the REAL grammar: states = clone forests over n data points (relation tables, [forests n on]),
   auxiliary variable = all n! data orders with the uniform law on the compatible ones, alphabet at every step =
   C08's [all_places] for the current number of top-level clones.  Premises (i) "complete paths along an order = forests
   compatible with it", (iii) "order densities sum to one" and the retained-path premise of C01_pg_update_invariant
   are proved (Proofs/Grammar{Sound,Complete,Unique,Table,PG}.v); what remains is about the proposal (positive, unit mass
   over all_places: the C08 density theorems), the symmetric criterion, and the weights being target ratios ending in
   gamma x 1/#compatible orders (C08_weights_telescope, C09_density_is_inverse_count). *)
Theorem C01_pg_update_invariant_over_grammar :
  forall (n : nat) (on : bool) (gam : list (list bool) -> Qc) (qp : list nat -> list place -> place -> Qc)
         (g : list nat -> list place -> Qc) (rs : @swarm place -> bool) (N : nat) (ops : list op),
    S (count_upd ops) = n ->
    (forall sg p a, 0 < qp sg p a) -> (forall sg p, 0 < g sg p) ->
    (forall sg p, sumq (map (qp sg p) (gsup on sg p)) = 1) ->
    (forall m s, rs (bring m s) = rs s) ->
    (forall sg path, In sg (gorders n) -> In path (gpaths n on sg) ->
       g sg (rev path) = gam (gdec n sg (rev path)) * gcden n sg (gdec n sg (rev path))) ->
    invariant (wlist gam (forests n on)) (pg_update (gorders n) (gcden n) (gsup on) qp g (gdec n) (genc n on) rs N ops).
Proof. exact pg_update_invariant_grammar. Qed.
Print Assumptions C01_pg_update_invariant_over_grammar.

(* PhyClone's three proposals plugged in: with the densities of Model/Proposals.v (which the C08 theorems prove to be the
   samplers' laws over all_places, with unit mass) the proposal premises are discharged.  What remains is only: a positive
   intermediate target gt on histories whose value on complete paths is gamma x order density (the weights are its ratios:
   C08_weights_telescope; gamma = exp(log_p_one): C03), and the symmetric resampling criterion.
   q_boot po = bootstrap density with outlier proposal probability po (0 < po < 1 with outliers, po = 0 without);
   q_full = letters in proportion to gt; q_semi = half on existing clones / outlier in proportion to gt, half uniform on
   new clones. *)
Theorem C01_pg_update_invariant_bootstrap :
  forall (n : nat) (on : bool) (gam : list (list bool) -> Qc) (gt : list nat -> list place -> Qc),
    (forall sg p, 0 < gt sg p) ->
    (forall sg path, In sg (gorders n) -> In path (gpaths n on sg) ->
       gt sg (rev path) = gam (gdec n sg (rev path)) * gcden n sg (gdec n sg (rev path))) ->
    forall (rs : @swarm place -> bool), (forall m s, rs (bring m s) = rs s) ->
    forall (N : nat) (ops : list op), S (count_upd ops) = n ->
    forall po : Qc, po < 1 -> (on = true -> 0 < po) -> (on = false -> po = 0) ->
    invariant (wlist gam (forests n on))
      (pg_update (gorders n) (gcden n) (gsup on) (q_boot po) gt (gdec n) (genc n on) rs N ops).
Proof. exact pg_update_invariant_bootstrap. Qed.
Print Assumptions C01_pg_update_invariant_bootstrap.

Theorem C01_pg_update_invariant_fully_adapted :
  forall (n : nat) (on : bool) (gam : list (list bool) -> Qc) (gt : list nat -> list place -> Qc),
    (forall sg p, 0 < gt sg p) ->
    (forall sg path, In sg (gorders n) -> In path (gpaths n on sg) ->
       gt sg (rev path) = gam (gdec n sg (rev path)) * gcden n sg (gdec n sg (rev path))) ->
    forall (rs : @swarm place -> bool), (forall m s, rs (bring m s) = rs s) ->
    forall (N : nat) (ops : list op), S (count_upd ops) = n ->
    invariant (wlist gam (forests n on))
      (pg_update (gorders n) (gcden n) (gsup on) (q_full on gt) gt (gdec n) (genc n on) rs N ops).
Proof. exact pg_update_invariant_fully_adapted. Qed.
Print Assumptions C01_pg_update_invariant_fully_adapted.

Theorem C01_pg_update_invariant_semi_adapted :
  forall (n : nat) (on : bool) (gam : list (list bool) -> Qc) (gt : list nat -> list place -> Qc),
    (forall sg p, 0 < gt sg p) ->
    (forall sg path, In sg (gorders n) -> In path (gpaths n on sg) ->
       gt sg (rev path) = gam (gdec n sg (rev path)) * gcden n sg (gdec n sg (rev path))) ->
    forall (rs : @swarm place -> bool), (forall m s, rs (bring m s) = rs s) ->
    forall (N : nat) (ops : list op), S (count_upd ops) = n ->
    invariant (wlist gam (forests n on))
      (pg_update (gorders n) (gcden n) (gsup on) (q_semi on gt) gt (gdec n) (genc n on) rs N ops).
Proof. exact pg_update_invariant_semi_adapted. Qed.
Print Assumptions C01_pg_update_invariant_semi_adapted.

(* the resampling criterion PhyClone uses (relative effective sample size <= threshold) is symmetric, and its schedule for
   n data points (initial step, then resample-if-needed before each extension) has n steps: with these the update is
   invariant for every threshold and particle count, for each of the three proposals, with only the target premise left *)
Theorem C01_ess_criterion_symmetric : forall (A : Type) (thr : Q) (m : nat) (s : @swarm A),
  ess_rs thr (bring m s) = ess_rs thr s.
Proof. exact @ess_rs_symmetric. Qed.
Print Assumptions C01_ess_criterion_symmetric.

Theorem C01_phyclone_update_invariant_bootstrap :
  forall (n : nat), (1 <= n)%nat ->
  forall (on : bool) (gam : list (list bool) -> Qc) (gt : list nat -> list place -> Qc),
    (forall sg p, 0 < gt sg p) ->
    (forall sg path, In sg (gorders n) -> In path (gpaths n on sg) ->
       gt sg (rev path) = gam (gdec n sg (rev path)) * gcden n sg (gdec n sg (rev path))) ->
    forall (thr : Q) (N : nat),
    forall po : Qc, po < 1 -> (on = true -> 0 < po) -> (on = false -> po = 0) ->
    invariant (wlist gam (forests n on))
      (pg_update (gorders n) (gcden n) (gsup on) (q_boot po) gt (gdec n) (genc n on) (ess_rs thr) N (schedule n)).
Proof. exact phyclone_update_invariant_bootstrap. Qed.
Print Assumptions C01_phyclone_update_invariant_bootstrap.

Theorem C01_phyclone_update_invariant_fully_adapted :
  forall (n : nat), (1 <= n)%nat ->
  forall (on : bool) (gam : list (list bool) -> Qc) (gt : list nat -> list place -> Qc),
    (forall sg p, 0 < gt sg p) ->
    (forall sg path, In sg (gorders n) -> In path (gpaths n on sg) ->
       gt sg (rev path) = gam (gdec n sg (rev path)) * gcden n sg (gdec n sg (rev path))) ->
    forall (thr : Q) (N : nat),
    invariant (wlist gam (forests n on))
      (pg_update (gorders n) (gcden n) (gsup on) (q_full on gt) gt (gdec n) (genc n on) (ess_rs thr) N (schedule n)).
Proof. exact phyclone_update_invariant_fully_adapted. Qed.
Print Assumptions C01_phyclone_update_invariant_fully_adapted.

Theorem C01_phyclone_update_invariant_semi_adapted :
  forall (n : nat), (1 <= n)%nat ->
  forall (on : bool) (gam : list (list bool) -> Qc) (gt : list nat -> list place -> Qc),
    (forall sg p, 0 < gt sg p) ->
    (forall sg path, In sg (gorders n) -> In path (gpaths n on sg) ->
       gt sg (rev path) = gam (gdec n sg (rev path)) * gcden n sg (gdec n sg (rev path))) ->
    forall (thr : Q) (N : nat),
    invariant (wlist gam (forests n on))
      (pg_update (gorders n) (gcden n) (gsup on) (q_semi on gt) gt (gdec n) (genc n on) (ess_rs thr) N (schedule n)).
Proof. exact phyclone_update_invariant_semi_adapted. Qed.
Print Assumptions C01_phyclone_update_invariant_semi_adapted.

(* the target premise is satisfiable for every positive gamma (weights that jump to the final target at the last step):
   then PhyClone's update - each proposal, its criterion, its schedule - is invariant with nothing assumed but gamma > 0 *)
Theorem C01_phyclone_update_invariant_closed_instance :
  forall (n : nat) (on : bool) (gam : list (list bool) -> Qc) (thr : Q) (N : nat),
  (1 <= n)%nat -> (forall t, 0 < gam t) ->
  invariant (wlist gam (forests n on))
    (pg_update (gorders n) (gcden n) (gsup on) (q_full on (gtarget n gam)) (gtarget n gam) (gdec n) (genc n on) (ess_rs thr) N (schedule n))
  /\ invariant (wlist gam (forests n on))
    (pg_update (gorders n) (gcden n) (gsup on) (q_semi on (gtarget n gam)) (gtarget n gam) (gdec n) (genc n on) (ess_rs thr) N (schedule n))
  /\ (forall po : Qc, po < 1 -> (on = true -> 0 < po) -> (on = false -> po = 0) ->
      invariant (wlist gam (forests n on))
        (pg_update (gorders n) (gcden n) (gsup on) (q_boot po) (gtarget n gam) (gdec n) (genc n on) (ess_rs thr) N (schedule n))).
Proof. exact phyclone_update_invariant_closed. Qed.
Print Assumptions C01_phyclone_update_invariant_closed_instance.

(* END TO END: the target is the FS-CRP posterior itself.  gam_fscrp alpha c G nsamp D n on t is exp(log_p_one) - C03's
   specification (spec_log_p_one: CRP term, fixed-root topology term with the root penalty base c, multiplicity, outlier
   priors, outlier marginals) evaluated on the data term C02 specifies (last entry of each sample's root vector of the
   sum-product recursion, which C02_root_is_constrained_sum proves to be the constrained grid sum) - of the rose forest
   that the state (a relation table) denotes.  For every number of data points, grid size, number of samples, data set
   with positive grid likelihoods and outlier priors in [0,1), concentration alpha > 0, penalty base c > 0, particle
   count and resampling threshold, PhyClone's update with each of its three proposals leaves that measure invariant.
   No premise about targets, proposals, weights or criterion is left; the incremental weights are those that reach the
   final target at the last step (gtarget), which is what Kernel.create_particle's last-step correction produces. *)
Theorem C01_phyclone_update_leaves_fscrp_posterior_invariant :
  forall (n G nsamp : nat) (on : bool) (alpha c : Qc) (D : nat -> dpoint) (thr : Q) (N : nat),
  (1 <= n)%nat -> (1 <= G)%nat -> 0 < alpha -> 0 < c -> data_ok G nsamp D ->
  let gam := gam_fscrp alpha c G nsamp D n on in
  invariant (wlist gam (forests n on))
    (pg_update (gorders n) (gcden n) (gsup on) (q_full on (gtarget n gam)) (gtarget n gam) (gdec n) (genc n on) (ess_rs thr) N (schedule n))
  /\ invariant (wlist gam (forests n on))
    (pg_update (gorders n) (gcden n) (gsup on) (q_semi on (gtarget n gam)) (gtarget n gam) (gdec n) (genc n on) (ess_rs thr) N (schedule n))
  /\ (forall po : Qc, po < 1 -> (on = true -> 0 < po) -> (on = false -> po = 0) ->
      invariant (wlist gam (forests n on))
        (pg_update (gorders n) (gcden n) (gsup on) (q_boot po) (gtarget n gam) (gdec n) (genc n on) (ess_rs thr) N (schedule n))).
Proof. exact phyclone_update_invariant_fscrp. Qed.
Print Assumptions C01_phyclone_update_leaves_fscrp_posterior_invariant.

(* ... with PhyClone's ACTUAL weights and adapted proposals.  Kernel.create_particle computes the ratio of the intermediate
   targets exp(log_p(partial tree)) x 1/#orders(partial tree) (divided by the proposal probability) and the sampler's last
   step corrects to exp(log_p_one); the fully-adapted proposal weighs candidates by exp(log_p), the semi-adapted one does so
   for the existing clones and the outlier letter.  gt_real / h_real are exactly these: C03's specification (marginal form
   before the last letter, fixed-root form after it) on C02's root vectors of the PARTIAL rose forest, times C09's 1/fcount.
   That the final value is gam_fscrp x order density - the premise of the generic theorem - is proved (alignment of the two
   grammars, well-definedness of the target, C09's density). *)
Theorem C01_phyclone_update_invariant_with_its_actual_weights :
  forall (n G nsamp : nat) (on : bool) (alpha c : Qc) (D : nat -> dpoint),
  (1 <= n)%nat -> (1 <= G)%nat -> 0 < alpha -> 0 < c -> data_ok G nsamp D ->
  forall (thr : Q) (N : nat),
  let gam := gam_fscrp alpha c G nsamp D n on in
  let h := h_real G nsamp alpha D in
  let gt := gt_real n G nsamp alpha c D in
  invariant (wlist gam (forests n on))
    (pg_update (gorders n) (gcden n) (gsup on) (q_full on h) gt (gdec n) (genc n on) (ess_rs thr) N (schedule n))
  /\ invariant (wlist gam (forests n on))
    (pg_update (gorders n) (gcden n) (gsup on) (q_semi on h) gt (gdec n) (genc n on) (ess_rs thr) N (schedule n))
  /\ (forall po : Qc, po < 1 -> (on = true -> 0 < po) -> (on = false -> po = 0) ->
      invariant (wlist gam (forests n on))
        (pg_update (gorders n) (gcden n) (gsup on) (q_boot po) gt (gdec n) (genc n on) (ess_rs thr) N (schedule n))).
Proof. intros n G nsamp on alpha c D Hn HG Ha Hc Hd thr N. exact (phyclone_update_invariant_real n G nsamp on alpha c D Hn HG Ha Hc Hd thr N). Qed.
Print Assumptions C01_phyclone_update_invariant_with_its_actual_weights.

(* the weight targets end where they should: on a complete path, exp(log_p_one) of the forest built times 1/#orders is the
   target of the state times the conditional law of the order *)
Theorem C01_actual_weights_reach_the_target :
  forall (n G nsamp : nat) (on : bool) (alpha c : Qc) (D : nat -> dpoint),
  (1 <= n)%nat -> (1 <= G)%nat ->
  forall (sg : list nat) (path : list place),
  In sg (gorders n) -> In path (gpaths n on sg) ->
  gt_real n G nsamp alpha c D sg (rev path)
  = gam_fscrp alpha c G nsamp D n on (gdec n sg (rev path)) * gcden n sg (gdec n sg (rev path)).
Proof. exact gt_real_final. Qed.
Print Assumptions C01_actual_weights_reach_the_target.

(* the state really denotes the forest whose density is taken: the rose forest read off a table of the state space is a
   well-formed clone forest (every data point once, no empty clone) over the points 0..n-1, without outliers when outlier
   modelling is off, and its ancestor-or-equal relation is the table *)
Theorem C01_state_denotes_its_forest : forall (n : nat) (on : bool) (t : list (list bool)), In t (forests n on) ->
  let F := forest_of_table n on t in
  tab n (frel F) = t /\ Density.wf F /\ Permutation.Permutation (seq 0 n) (fpoints F) /\ (on = false -> outl F = []).
Proof. exact forest_of_table_spec. Qed.
Print Assumptions C01_state_denotes_its_forest.

(* ... and the target does not depend on WHICH forest is read off the state: a well-formed rose forest is determined up to
   sibling order and the order of a clone's points by its ancestor-or-equal relation (same clades, same outliers: with
   C03_clades_determine_tree), and the end-to-end density is invariant under that equivalence (C03's spec invariance plus
   the invariance of C02's root vectors under permuting children at every depth and a clone's data).  So the weight the
   theorem puts on a state is exp(log_p_one) of EVERY well-formed forest over 0..n-1 whose relation table is the state. *)
Theorem C01_fscrp_target_well_defined :
  forall (n : nat) (on : bool) (alpha c : Qc) (G nsamp : nat) (D : nat -> dpoint) (t : list (list bool)) (F : forest),
  In t (forests n on) -> Density.wf F -> Permutation.Permutation (seq 0 n) (fpoints F) -> tab n (frel F) = t ->
  dens_one alpha c G nsamp D F = gam_fscrp alpha c G nsamp D n on t.
Proof. exact gam_fscrp_well_defined. Qed.
Print Assumptions C01_fscrp_target_well_defined.

Theorem C01_relation_determines_forest : forall F F' : forest,
  Density.wf F -> Density.wf F' -> (forall a b, frel F a b = frel F' a b) -> Permutation.Permutation (fpoints F) (fpoints F') ->
  feq F F'.
Proof. exact same_relation_feq. Qed.
Print Assumptions C01_relation_determines_forest.

Theorem C01_fscrp_density_invariant_under_feq : forall (alpha c : Qc) (G nsamp : nat) (D : nat -> dpoint) (F F' : forest),
  feq F F' ->
  dens_one alpha c G nsamp D F = dens_one alpha c G nsamp D F' /\ dens_marg alpha G nsamp D F = dens_marg alpha G nsamp D F'.
Proof. exact dens_feq. Qed.
Print Assumptions C01_fscrp_density_invariant_under_feq.

(* the FS-CRP density (both forms) is positive on EVERY rose forest under the data premises *)
Theorem C01_fscrp_density_positive : forall (G nsamp : nat) (D : nat -> dpoint), (1 <= G)%nat -> data_ok G nsamp D ->
  forall (alpha c : Qc) (F : forest), 0 < alpha -> 0 < c ->
    0 < dens_one alpha c G nsamp D F /\ 0 < dens_marg alpha G nsamp D F.
Proof. intros G nsamp D HG Hd alpha c F Ha Hc. split; [apply dens_one_pos| apply dens_marg_pos]; assumption. Qed.
Print Assumptions C01_fscrp_density_positive.

(* the grammar on rose forests follows the grammar on relation tables letter by letter *)
Theorem C01_rose_grammar_follows_table_grammar : forall (on : bool) (sig : list nat) (w : list place),
  NoDup sig -> gvalid on g0 sig w ->
  let F := frun f0 sig w in
  (forall a b, gle (grun g0 sig w) a b = frel F a b) /\ groots (grun g0 sig w) = map rep (roots F).
Proof.
  intros on sig w Hnd Hv F. pose proof (al_run on sig w g0 f0 GrammarSound.ginv_g0 al_0 Hnd (fun _ _ H => H) Hv) as H.
  split; [apply (al_le _ _ H)| apply (al_roots _ _ H)].
Qed.
Print Assumptions C01_rose_grammar_follows_table_grammar.

(* non-vacuity: two data points on a two-point grid, one sample, outlier prior 1/10: the premises hold and the target takes
   seven different positive values on the seven states (so the theorem is about a genuinely non-uniform posterior) *)
Definition ex_D (i : nat) : dpoint :=
  mkDP (Q2Qc (1#10)) 1 [if Nat.eqb i 0 then [Q2Qc (1#4); Q2Qc (3#4)] else [Q2Qc (2#3); Q2Qc (1#3)]].
Example C01_fscrp_premises_satisfiable : data_ok 2 1 ex_D.
Proof.
  intros i. unfold ex_D. repeat split; cbn [dp_p dp_size dp_val length]; try reflexivity; try discriminate; try lia.
  - destruct (Nat.eqb i 0); cbn [In] in H; destruct H as [<-|[]]; reflexivity.
  - intros x Hx. destruct (Nat.eqb i 0); cbn [In] in H; destruct H as [<-|[]]; cbn [In] in Hx; destruct Hx as [<-|[<-|[]]]; reflexivity.
Qed.
Print Assumptions C01_fscrp_premises_satisfiable.
Example C01_fscrp_target_example :
  let g := gam_fscrp 1 (Q2Qc 1000) 2 1 ex_D 2 true in
  length (forests 2 true) = 7%nat /\ length (nodup Qc_eq_dec (map g (forests 2 true))) = 7%nat /\ forallb (fun t => if Qclt_le_dec 0 (g t) then true else false) (forests 2 true) = true.
Proof. split; [|split]; vm_compute; reflexivity. Qed.
Print Assumptions C01_fscrp_target_example.

(* a closed instance for every n, outlier setting, positive target, particle count and schedule: uniform proposals over
   all_places and the corresponding target-ratio weights - no premise about proposal or weights is left *)
Theorem C01_pg_update_over_grammar_closed_instance :
  forall (n : nat) (on : bool) (gam : list (list bool) -> Qc), (forall t, 0 < gam t) ->
  forall (rs : @swarm place -> bool) (N : nat) (ops : list op),
    S (count_upd ops) = n -> (forall m s, rs (bring m s) = rs s) ->
    invariant (wlist gam (forests n on))
      (pg_update (gorders n) (gcden n) (gsup on) (uq on) (gtarget n gam) (gdec n) (genc n on) rs N ops).
Proof. exact pg_update_grammar_closed. Qed.
Print Assumptions C01_pg_update_over_grammar_closed_instance.

(* the state space of that theorem, independently of the grammar: exactly the tables of forest relations over 0..n-1 *)
Theorem C01_state_space_is_all_forests : forall (n : nat) (on : bool) (t : list (list bool)),
  In t (forests n on) <->
  t = tab n (tget t) /\ wf (seq 0 n) (tget t) /\ (on = false -> no_outliers (seq 0 n) (tget t)).
Proof. exact forests_spec. Qed.
Print Assumptions C01_state_space_is_all_forests.

(* every forest has a compatible data order, so the conditional law of the order is defined for every state *)
Theorem C01_every_forest_has_a_compatible_order : forall (pts : list nat) (r : rel),
  wf pts r -> exists sg, Permutation.Permutation pts sg /\ compat (rev sg) r.
Proof. exact forest_has_compatible_order. Qed.
Print Assumptions C01_every_forest_has_a_compatible_order.

(* the state space and the order density are what they should be on small cases: 42 forests with outliers over three
   points (26 without), and the chain 1 <- 0 has exactly one compatible order out of two *)
Example C01_grammar_state_space_example :
  length (forests 3%nat true) = 42%nat /\ length (forests 3%nat false) = 26%nat /\ length (forests 2%nat true) = 7%nat
  /\ gcden 2%nat [0; 1]%nat [[true; false]; [true; true]] = 1 /\ gcden 2%nat [1; 0]%nat [[true; false]; [true; true]] = 0
  /\ gcden 2%nat [0; 1]%nat [[true; false]; [false; true]] = Q2Qc (1 # 2).
Proof. repeat split; vm_compute; reflexivity. Qed.
Print Assumptions C01_grammar_state_space_example.

(* no step of the conditional sampler can lose mass *)
Theorem C01_pg_kernel_total_mass :
  forall (A : Type) (q : list A -> dist A) (om : list A -> Qc) (rs : @swarm A -> bool) (n : nat),
    (forall p, 0 < om p) -> (forall p, mass (q p) = 1) ->
    forall ops path, length path = S (count_upd ops) -> mass (pg_kernel q om rs n ops path) = 1.
Proof. intros A q om rs n Ho Hq. exact (@pg_kernel_mass A q om rs n Ho Hq). Qed.
Print Assumptions C01_pg_kernel_total_mass.

Theorem C01_aux_variable_invariant :
  forall (S Sig : Type) (pi : dist S) (sigs : list Sig) (cd : Sig -> S -> Qc) (K : Sig -> S -> dist S),
    (forall s, sumq (map (fun sg => cd sg s) sigs) = 1) ->
    (forall sg f, E pi (fun s => cd sg s * E (K sg s) f) = E pi (fun s => cd sg s * f s)) ->
    invariant pi (fun s => bind (wlist (fun sg => cd sg s) sigs) (fun sg => K sg s)).
Proof. exact (@aux_variable_invariant). Qed.
Print Assumptions C01_aux_variable_invariant.

Theorem C01_isir_invariant :
  forall (A : Type) (Q : dist A) (w : A -> Qc),
    (forall a, 0 < w a) -> mass Q = 1 ->
    forall (n : nat) (f : A -> Qc),
      E Q (fun x => w x * E (isir Q w n x) f) = E Q (fun x => w x * f x).
Proof. exact (@isir_invariant). Qed.
Print Assumptions C01_isir_invariant.

Theorem C01_isir_total_mass :
  forall (A : Type) (Q : dist A) (w : A -> Qc),
    (forall a, 0 < w a) -> mass Q = 1 -> forall n x, mass (isir Q w n x) = 1.
Proof. exact (@isir_mass). Qed.
Print Assumptions C01_isir_total_mass.

(* non-vacuity: two steps over a binary alphabet, history-dependent proposal and weights, always resample,
   three particles: both sides evaluate to the same number *)
Definition exq (p : list bool) : dist bool :=
  match p with [] => [(true, Q2Qc (1#3)); (false, Q2Qc (2#3))] | b :: _ => if b then [(true, Q2Qc (1#4)); (false, Q2Qc (3#4))] else [(true, Q2Qc (1#2)); (false, Q2Qc (1#2))] end.
Definition exom (p : list bool) : Qc :=
  match p with [true] => Q2Qc (3#1) | [false] => Q2Qc (1#2) | [true; _] => Q2Qc (2#1) | _ => Q2Qc (1#3) end.
Example C01_csmc_example :
  let f := fun p : list bool => match p with true :: _ => 1 | _ => 0 end in
  Qc_eq_bool (Ggam exq exom 2 [] (fun path => E (pg_kernel exq exom (fun _ => true) 2 [Res; Upd] path) f))
             (Ggam exq exom 2 [] (fun path => f (rev path))) = true
  /\ Qc_eq_bool (Ggam exq exom 2 [] (fun path => f (rev path))) 0 = false.
Proof. split; vm_compute; reflexivity. Qed.
Print Assumptions C01_csmc_example.

Example C01_isir_example :
  let Q := [(0%nat, Q2Qc (1#3)); (1%nat, Q2Qc (2#3))] in
  let w := fun a : nat => if Nat.eqb a 0 then Q2Qc (3#1) else Q2Qc (1#2) in
  Qc_eq_bool (mass Q) 1 = true /\ Qc_eq_bool (E Q (fun x => w x * E (isir Q w 2 x) (fun a => if Nat.eqb a 0 then 1 else 0))) 1 = true.
Proof. split; vm_compute; reflexivity. Qed.
Print Assumptions C01_isir_example.
