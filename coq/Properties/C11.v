(* C11 - trace summaries pick the true maximum and count topologies exactly.
   Model: Model/TraceSummary.v (items = the visiting order of the double loop over results.items() and
   enumerate(trace); map_scan; count_topology / topologies; rank = report order; freq_mode; archive).
   Every theorem is for ANY number of chains and entries, any chain keys and any scores. *)
From PV Require Import Model.TraceSummary Proofs.TraceSummaryProofs.
From Coq Require Import Permutation Sorted.
Local Open Scope Z_scope.

(* a visited item is exactly an entry of the trace, found through its (chain, index) pointer *)
Theorem C11_items_are_entries : forall tr x,
  In x (items tr) <-> exists ch, In (ichain x, ch) tr /\ nth_error ch (iidx x) = Some (iscore x, itree x).
Proof. exact items_spec. Qed.
Print Assumptions C11_items_are_entries.

(* MAP (joint-likelihood): the returned entry is an entry of the trace whose score is >= every entry's *)
Theorem map_scan_is_max : forall tr b, map_scan tr = Some b ->
  In b (items tr) /\ forall x, In x (items tr) -> iscore x <= iscore b.
Proof. exact map_scan_is_max. Qed.
Print Assumptions map_scan_is_max.

(* ... and it is the first such entry in visiting order; the scan fails only on a trace without entries *)
Theorem map_scan_first_max : forall tr b, map_scan tr = Some b ->
  exists l1 l2, items tr = l1 ++ b :: l2 /\ (forall x, In x l1 -> iscore x < iscore b)
                /\ (forall x, In x l2 -> iscore x <= iscore b).
Proof. exact map_scan_first_max. Qed.
Print Assumptions map_scan_first_max.
Theorem map_scan_total : forall tr, map_scan tr = None <-> items tr = [].
Proof. exact map_scan_none. Qed.
Print Assumptions map_scan_total.

(* topology report: one row per distinct tree; count = multiplicity (>= 1); score = class maximum;
   the (chain, index) pointer is an entry of that tree attaining it; counts sum to the number of entries *)
Theorem topo_rows_are_classes : forall tr,
  let L := items tr in let R := topologies tr in
  NoDup (map rtree R)
  /\ (forall x, In x L -> exists r, In r R /\ rtree r = itree x)
  /\ (forall r, In r R ->
        rcount r = class_count (rtree r) L /\ (1 <= rcount r)%nat
        /\ (forall x, In x L -> itree x = rtree r -> iscore x <= rmax r)
        /\ exists x, In x L /\ itree x = rtree r /\ iscore x = rmax r
                     /\ ichain x = rchain r /\ iidx x = riter r)
  /\ sum_counts R = length L.
Proof. exact topo_rows_are_classes. Qed.
Print Assumptions topo_rows_are_classes.

(* the report is the same rows, ranked by score (descending) *)
Theorem rank_sorted : forall rows,
  Permutation (rank rows) rows /\ StronglySorted (fun a b => rmax b <= rmax a) (rank rows).
Proof. exact rank_sorted. Qed.
Print Assumptions rank_sorted.

(* the archive is the first min(k, #rows) rows of the ranked report: every archived row scores >= every
   row left out *)
Theorem archive_is_prefix : forall k tr,
  exists rest, report tr = archive k tr ++ rest
    /\ length (archive k tr) = Nat.min k (length (topologies tr))
    /\ (forall a, In a (archive k tr) -> In a (topologies tr))
    /\ forall a b, In a (archive k tr) -> In b rest -> rmax b <= rmax a.
Proof. exact archive_is_prefix. Qed.
Print Assumptions archive_is_prefix.

(* the archive's row lookup (`assert len(row) == 1`) cannot fail: with distinct chain keys the pointer
   (chain_num, iter) alone identifies the row *)
Theorem archive_lookup_unique : forall tr r1 r2, NoDup (map fst tr) ->
  In r1 (topologies tr) -> In r2 (topologies tr) ->
  rchain r1 = rchain r2 -> riter r1 = riter r2 -> r1 = r2.
Proof. exact pointer_identifies_row. Qed.
Print Assumptions archive_lookup_unique.

(* MAP (frequency): a row of maximal count *)
Theorem freq_mode_is_max_count : forall tr r, freq_mode tr = Some r ->
  In r (topologies tr) /\ forall r', In r' (topologies tr) -> (rcount r' <= rcount r)%nat.
Proof. exact freq_mode_is_max_count. Qed.
Print Assumptions freq_mode_is_max_count.

(* schedules: for every permutation of the chain list (= every completion order of the chains) the rows
   (tree, count, max score) are the same set, there are equally many, and the MAP score is the same.
   (By topo_rows_are_classes both pointers attain the same class maximum: they may differ only between
   entries of equal score.) *)
Theorem chain_order_independent : forall tr tr', Permutation tr tr' ->
  (forall k, In k (map row_key (topologies tr)) <-> In k (map row_key (topologies tr')))
  /\ length (topologies tr) = length (topologies tr')
  /\ option_map iscore (map_scan tr) = option_map iscore (map_scan tr').
Proof. exact chain_order_independent. Qed.
Print Assumptions chain_order_independent.

(* ---- non-vacuity: two chains, repeated trees, score ties within and across chains ---- *)
Definition ex_tr : trace := [(1%nat, [(-5, 7%nat); (-2, 3%nat); (-2, 7%nat)]); (0%nat, [(-2, 3%nat); (-9, 4%nat); (-2, 7%nat); (-3, 3%nat)])].
Definition ex_tr' : trace := [(0%nat, [(-2, 3%nat); (-9, 4%nat); (-2, 7%nat); (-3, 3%nat)]); (1%nat, [(-5, 7%nat); (-2, 3%nat); (-2, 7%nat)])].
Example C11_nontrivial :
  map row_key (report ex_tr) = [(7%nat, 3%nat, -2); (3%nat, 3%nat, -2); (4%nat, 1%nat, -9)]
  /\ option_map (fun b => (ichain b, iidx b, iscore b)) (map_scan ex_tr) = Some (1%nat, 1%nat, -2)
  /\ option_map (fun b => (ichain b, iidx b, iscore b)) (map_scan ex_tr') = Some (0%nat, 0%nat, -2)
  /\ map row_key (archive 2 ex_tr) = [(7%nat, 3%nat, -2); (3%nat, 3%nat, -2)]
  /\ length (archive 5 ex_tr) = 3%nat
  /\ Permutation ex_tr ex_tr'.
Proof. repeat split; try (vm_compute; reflexivity). apply perm_swap. Qed.
Print Assumptions C11_nontrivial.
(* the pointer does depend on the chain order (between entries of equal score only) *)
Example C11_pointer_depends_on_order :
  map (fun r => (rtree r, rchain r, riter r)) (topologies ex_tr) = [(7%nat, 1%nat, 2%nat); (3%nat, 1%nat, 1%nat); (4%nat, 0%nat, 1%nat)]
  /\ map (fun r => (rtree r, rchain r, riter r)) (topologies ex_tr') = [(3%nat, 0%nat, 0%nat); (4%nat, 0%nat, 1%nat); (7%nat, 0%nat, 2%nat)].
Proof. split; vm_compute; reflexivity. Qed.
Print Assumptions C11_pointer_depends_on_order.
