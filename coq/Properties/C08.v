(* C08 - SMC proposals are normalised, faithfully sampled, complete and correctly weighted.
   "X_is_density": the sampler's law, as an expectation functional, equals the density-weighted sum over the list of
   ALL placements (into each top-level clone, a new clone above every subset of top-level clones, the outlier set):
   this is faithfulness (sampled probability = reported density), normalisation (take f = 1) and support in one
   statement, for every number of top-level clones R and every test function f. *)
From PV Require Import Model.Proposals Proofs.GibbsProofs Proofs.ProposalsProofs Proofs.ProposalsPoint.
From PV Require Import Model.Grammar Model.GrammarCases Proofs.GrammarSound Proofs.GrammarComplete Proofs.GrammarUnique.

Theorem C08_bootstrap_is_density : forall (op : Qc) (first : bool) (R : nat) (f : place -> Qc),
  (first = true -> R = 0%nat) ->
  E (boot_sample op first R) f = sumq (map (fun p => boot_dens op first R p * f p) (all_places R true)).
Proof. exact boot_sample_is_density. Qed.
Print Assumptions C08_bootstrap_is_density.

Theorem C08_bootstrap_mass_one : forall (op : Qc) (first : bool) (R : nat),
  (first = true -> R = 0%nat) -> mass (boot_sample op first R) = 1.
Proof. exact boot_sample_mass. Qed.
Print Assumptions C08_bootstrap_mass_one.

Theorem C08_fully_adapted_is_density : forall (gam : place -> Qc) (R : nat) (on : bool) (f : place -> Qc),
  total gam (all_places R on) <> 0 ->
  E (full_sample gam R on) f = sumq (map (fun p => full_dens gam R on p * f p) (all_places R on)).
Proof. exact full_sample_is_density. Qed.
Print Assumptions C08_fully_adapted_is_density.

Theorem C08_fully_adapted_mass_one : forall (gam : place -> Qc) (R : nat) (on : bool),
  total gam (all_places R on) <> 0 -> mass (full_sample gam R on) = 1.
Proof. exact full_sample_mass. Qed.
Print Assumptions C08_fully_adapted_mass_one.

Theorem C08_semi_adapted_is_density : forall (gam : place -> Qc) (R : nat) (on : bool) (f : place -> Qc),
  (R = 0%nat -> total gam ((if on then [Outlier] else []) ++ [NewOver []]) <> 0) ->
  (R <> 0%nat -> total gam (semi_exist R on) <> 0) ->
  E (semi_sample gam R on) f = sumq (map (fun p => semi_dens gam R on p * f p) (all_places R on)).
Proof. exact semi_sample_is_density. Qed.
Print Assumptions C08_semi_adapted_is_density.

Theorem C08_semi_adapted_mass_one : forall (gam : place -> Qc) (R : nat) (on : bool),
  (R = 0%nat -> total gam ((if on then [Outlier] else []) ++ [NewOver []]) <> 0) ->
  (R <> 0%nat -> total gam (semi_exist R on) <> 0) ->
  mass (semi_sample gam R on) = 1.
Proof. exact semi_sample_mass. Qed.
Print Assumptions C08_semi_adapted_mass_one.

(* point-mass form: the list of all placements has no duplicates, and every placement is drawn with exactly its
   reported probability *)
Theorem C08_all_places_NoDup : forall R on, NoDup (all_places R on).
Proof. exact all_places_NoDup. Qed.
Print Assumptions C08_all_places_NoDup.

Theorem C08_bootstrap_each_placement_exact : forall op first R p,
  (first = true -> R = 0%nat) -> In p (all_places R true) -> E (boot_sample op first R) (pind p) = boot_dens op first R p.
Proof. exact boot_point_mass. Qed.
Print Assumptions C08_bootstrap_each_placement_exact.

Theorem C08_fully_adapted_each_placement_exact : forall gam R on p,
  total gam (all_places R on) <> 0 -> In p (all_places R on) -> E (full_sample gam R on) (pind p) = full_dens gam R on p.
Proof. exact full_point_mass. Qed.
Print Assumptions C08_fully_adapted_each_placement_exact.

Theorem C08_semi_adapted_each_placement_exact : forall gam R (on : bool) p,
  (R = 0%nat -> total gam ((if on then [Outlier] else []) ++ [NewOver []]) <> 0) ->
  (R <> 0%nat -> total gam (semi_exist R on) <> 0) ->
  In p (all_places R on) -> E (semi_sample gam R on) (pind p) = semi_dens gam R on p.
Proof. exact semi_point_mass. Qed.
Print Assumptions C08_semi_adapted_each_placement_exact.

(* the number of k-subsets is the binomial coefficient the densities divide by *)
Theorem C08_subsets_count : forall (A : Type) (l : list A) (k : nat), length (subsets_k k l) = C (length l) k.
Proof. intros A l k. apply length_subsets_k. Qed.
Print Assumptions C08_subsets_count.

(* along every path the incremental weights times the proposal probabilities multiply to target(T) / target(0) *)
Theorem C08_weights_telescope : forall gs qs g0,
  length gs = length qs -> g0 <> 0 -> Forall (fun g => g <> 0) gs -> Forall (fun q => q <> 0) qs ->
  prodq (path_weights g0 gs qs) * prodq qs = lastq g0 gs / g0.
Proof. exact weights_telescope. Qed.
Print Assumptions C08_weights_telescope.

(* ---- "so every tree compatible with the data order is reachable": the grammar of Model/Grammar.v -------------------
   A forest over data points is the relation le x y = "clone(x) is an ancestor of or equal to clone(y)" (outliers
   related to nothing); [wf] is the label-free specification of a forest of non-empty clones, [compat] says every
   clone's points come after all points of its descendants in the order.  The letters available in a state are
   exactly [all_places] for its number of top-level clones - the alphabet of the density theorems above. *)
(* every word of placements builds a forest over exactly the placed points, compatible with the order *)
Theorem C08_reached_trees_are_compatible_forests : forall (on : bool) (sig : list nat) (w : list place),
  NoDup sig -> gvalid on g0 sig w ->
  wf sig (gle (grun g0 sig w)) /\ compat (rev sig) (gle (grun g0 sig w)).
Proof. exact grammar_sound. Qed.
Print Assumptions C08_reached_trees_are_compatible_forests.

(* every forest compatible with the order is built by some word (without outliers when outlier modelling is off) *)
Theorem C08_every_compatible_tree_reachable : forall (on : bool) (sig : list nat) (r : rel),
  NoDup sig -> wf sig r -> (on = false -> no_outliers sig r) -> compat (rev sig) r ->
  exists w, gvalid on g0 sig w /\ forall a b, gle (grun g0 sig w) a b = r a b.
Proof. exact grammar_complete. Qed.
Print Assumptions C08_every_compatible_tree_reachable.

(* ... and by only one: the path weights of a tree are therefore counted exactly once *)
Theorem C08_reaching_word_unique : forall (on : bool) (sig : list nat) (w1 w2 : list place),
  NoDup sig -> gvalid on g0 sig w1 -> gvalid on g0 sig w2 ->
  (forall p q, gle (grun g0 sig w1) p q = gle (grun g0 sig w2) p q) -> w1 = w2.
Proof. exact grammar_unique. Qed.
Print Assumptions C08_reaching_word_unique.

(* one placement preserves: forest, compatibility, and "the top-level list holds one representative per top-level clone" *)
Theorem C08_placement_preserves_invariant : forall on s x a,
  ginv s -> ~ In x (gpl s) -> In a (gsupp on s) -> ginv (gstep s x a).
Proof. exact gstep_inv. Qed.
Print Assumptions C08_placement_preserves_invariant.

(* non-vacuity: the chain 2 <- 1 <- 0 with outlier 3 is built along 0,1,2,3 and the executable comparison used by the
   correspondence accepts the model's own placements and rejects a list with one of them missing *)
Example C08_grammar_example :
  let w := [NewOver []; NewOver [0]; NewOver [0]; Outlier]%nat in
  let s := grun g0 [0; 1; 2; 3]%nat w in
  (gle s 2%nat 0%nat = true /\ gle s 0%nat 2%nat = false /\ gle s 3%nat 3%nat = false /\ groots s = [2]%nat)
  /\ chk_grammar 2%nat true [0]%nat [0]%nat [[true; false]; [false; false]] 1%nat
       [([[true; true]; [true; true]], [0]%nat); ([[true; false]; [false; true]], [1; 0]%nat);
        ([[true; false]; [true; true]], [1]%nat); ([[true; false]; [false; false]], [0]%nat)] = true
  /\ chk_grammar 2%nat true [0]%nat [0]%nat [[true; false]; [false; false]] 1%nat
       [([[true; true]; [true; true]], [0]%nat); ([[true; false]; [false; true]], [1; 0]%nat);
        ([[true; false]; [false; false]], [0]%nat)] = false.
Proof. repeat split; vm_compute; reflexivity. Qed.
Print Assumptions C08_grammar_example.

(* pinned commit: on an outliers-only parent the reported densities sum to (1 + op) / 2, not 1 *)
Example C08_bootstrap_outliers_only_refuted :
  let op := Q2Qc (1 # 10) in
  Qc_eq_bool (sumq (map (boot_dens_pinned op false 0) (all_places 0 true))) (Q2Qc (11 # 20)) = true
  /\ Qc_eq_bool (sumq (map (boot_dens op false 0) (all_places 0 true))) 1 = true.
Proof. split; vm_compute; reflexivity. Qed.
Print Assumptions C08_bootstrap_outliers_only_refuted.

(* non-vacuity: three top-level clones, 3 + 8 + 1 placements, unequal targets *)
Example C08_nontrivial :
  let gam := fun p => match p with Existing i => qn (S i) | NewOver s => qn (S (length s)) | Outlier => half end in
  length (all_places 3 true) = 12%nat
  /\ Qc_eq_bool (mass (semi_sample gam 3 true)) 1 = true
  /\ Qc_eq_bool (mass (boot_sample (Q2Qc (1#10)) false 3)) 1 = true
  /\ Qc_eq_bool (sumq (map (semi_dens gam 3 true) (all_places 3 true))) 1 = true.
Proof. repeat split; vm_compute; reflexivity. Qed.
Print Assumptions C08_nontrivial.
