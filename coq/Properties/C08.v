(* C08 - placeholder until the proposal model lands: re-exports the distribution algebra used by it. *)
From PV Require Import Base.Dist.
Theorem C08_mass_of_uniform : forall (X : Type) (l : list X), l <> [] -> mass (uniform l) = 1.
Proof. exact (@mass_uniform). Qed.
Print Assumptions C08_mass_of_uniform.
