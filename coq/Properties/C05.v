(* C05 - emission likelihood grids implement the PyClone mutation model.
   Statements only; proofs live in Proofs/EmissionProofs.v and Proofs/EmissionGrid.v.
   Linear domain: the code's log grid entry is log of the model's rational. *)
From PV Require Import Model.Emission Proofs.EmissionProofs Proofs.EmissionGrid.

(* the binomial pmf sums to one over the alternate counts 0..n, for every depth n (0 included) and every p *)
Theorem binom_sum_one : forall n p, sumn (fun x => binom_pmf n x p) (S n) = 1.
Proof. exact EmissionProofs.binom_sum_one. Qed.
Print Assumptions binom_sum_one.

(* Chu-Vandermonde for rising factorials, all n, a, b *)
Theorem chu_vandermonde : forall n a b,
  sumn (fun x => qn (choose n x) * rising a x * rising b (n - x)) (S n) = rising (a + b) n.
Proof. exact EmissionProofs.chu_vandermonde. Qed.
Print Assumptions chu_vandermonde.

(* hence the beta-binomial pmf sums to one whenever its normaliser is non-zero (in particular a + b > 0) *)
Theorem betabinom_sum_one : forall n a b,
  rising (a + b) n <> 0 -> sumn (fun x => betabinom_pmf n x a b) (S n) = 1.
Proof. exact EmissionProofs.betabinom_sum_one. Qed.
Print Assumptions betabinom_sum_one.

(* expected VAF of every enumerated genotype: the code's division is defined (norm_const > 0) under the
   explicit guard normal >= 1, and  min(err, 1/total) <= evaf <= 1 - err,  so 0 < evaf < 1 and both pmfs
   are well defined.  (DESIGN stated err <= evaf; that needs err <= 1/total, see the two items below.) *)
Theorem evaf_in_unit : forall major minor normal err t f g,
  (1 <= major)%nat -> (1 <= normal)%nat -> 0 < t /\ t <= 1 -> 0 < err /\ err < Q2Qc (1 # 2) -> 0 <= f <= 1 ->
  In g (genotypes major minor normal err) ->
  0 < norm_const g t f /\
  qcmin err (/ qn (major + minor)) <= evaf g t f <= 1 - err /\
  0 < evaf g t f /\ evaf g t f < 1.
Proof.
  intros major minor normal err t f g Hm Hn Ht He Hf Hg. apply genotypes_shape in Hg.
  split; [apply (weights_ok major minor normal err t f Hm Hn Ht Hf g Hg)|].
  split; [apply (evaf_bounds major minor normal err t f Hm Hn Ht He Hf g Hg)|].
  apply (evaf_open_unit major minor normal err t f Hm Hn Ht He Hf g Hg).
Qed.
Print Assumptions evaf_in_unit.

Theorem evaf_ge_err : forall major minor normal err t f g,
  (1 <= major)%nat -> (1 <= normal)%nat -> 0 < t /\ t <= 1 -> 0 < err /\ err < Q2Qc (1 # 2) -> 0 <= f <= 1 ->
  err * qn (major + minor) <= 1 ->
  In g (genotypes major minor normal err) -> err <= evaf g t f <= 1 - err.
Proof.
  intros major minor normal err t f g Hm Hn Ht He Hf Hs Hg. apply genotypes_shape in Hg. split.
  - apply (EmissionGrid.evaf_ge_err major minor normal err t f Hm Hn Ht He Hf g Hs Hg).
  - apply (evaf_bounds major minor normal err t f Hm Hn Ht He Hf g Hg).
Qed.
Print Assumptions evaf_ge_err.

(* the interval [err, 1 - err] of the design text is NOT valid in general: total copy number 6 and
   err = 0.2 give an expected VAF of 1/6 < err (pure tumour, clonal) *)
Example evaf_in_err_interval_refuted :
  let err := Q2Qc (1 # 5) in
  exists g, In g (genotypes 3 3 2 err) /\ evaf g 1 1 < err.
Proof. eexists. split; [left; reflexivity| vm_compute; reflexivity]. Qed.
Print Assumptions evaf_in_err_interval_refuted.

(* number and shape of the genotypes: major of them, plus "mutation after the copy-number change"
   exactly when normal <> major + minor *)
Theorem C05_genotype_count : forall major minor normal err, (1 <= major)%nat ->
  length (genotypes major minor normal err) = if Nat.eqb normal (major + minor) then major else S major.
Proof. exact genotypes_length. Qed.
Print Assumptions C05_genotype_count.

(* summed over all alternate counts at fixed depth n the grid entry is one, at every CCF f, for every
   copy-number state with major >= 1, every tumour content and error rate, both densities, any precision > 0 *)
Theorem C05_mixture_sum_one : forall d major minor normal err t f n,
  density_ok d -> (1 <= major)%nat ->
  sumn (fun x => sample_pmf d (mkS (n - x) x (genotypes major minor normal err) t) f) (S n) = 1.
Proof.
  intros d major minor normal err t f n Hd Hm.
  apply sample_pmf_sum_one; [exact Hd| apply genotypes_nonempty; exact Hm].
Qed.
Print Assumptions C05_mixture_sum_one.

(* ... and every term is a probability (non-negative) under the property's guards *)
Theorem C05_mixture_nonneg : forall d major minor normal err t f ref alt,
  density_ok d -> (1 <= major)%nat -> (1 <= normal)%nat -> 0 < t /\ t <= 1 -> 0 < err /\ err < Q2Qc (1 # 2) ->
  0 <= f <= 1 ->
  0 <= sample_pmf d (mkS ref alt (genotypes major minor normal err) t) f.
Proof.
  intros d major minor normal err t f ref alt Hd Hm Hn Ht He Hf. unfold sample_pmf.
  apply mixture_nonneg; [exact Hd|]. cbn [s_gs s_t]. intros g Hg. apply genotypes_shape in Hg.
  apply (evaf_open_unit major minor normal err t f Hm Hn Ht He Hf g Hg).
Qed.
Print Assumptions C05_mixture_nonneg.

(* with normal >= 1 the code never divides by zero on the grid 0, 1/(G-1), ..., 1 *)
Theorem C05_grid_defined : forall d G major minor normal err ref alt (t : Qc),
  (1 <= major)%nat -> (1 <= normal)%nat -> 0 < t /\ t <= 1 ->
  let sd := mkS ref alt (genotypes major minor normal err) t in
  sample_grid_opt d G sd = Some (sample_grid d G sd).
Proof.
  intros d G major minor normal err ref alt t Hm Hn Ht sd. unfold sample_grid_opt, sd.
  rewrite grid_defined_ok by assumption. reflexivity.
Qed.
Print Assumptions C05_grid_defined.

(* outside the quantifier: normal copy number 0 in a pure tumour sample -> ZeroDivisionError at f = 0 *)
Example C05_normal0_division_by_zero :
  sample_grid_opt Binomial 3 (mkS 5 3 (genotypes 2 1 0 (Q2Qc (1 # 1000))) 1) = None.
Proof. vm_compute. reflexivity. Qed.
Print Assumptions C05_normal0_division_by_zero.

(* a pre-clustered data point: entry-wise product (= sum of log grids) of its members' grids *)
Theorem C05_cluster_is_product : forall members s i, members <> [] ->
  entry (cluster_grid members) s i = prodq (map (fun m => entry m s i) members).
Proof. exact cluster_is_product. Qed.
Print Assumptions C05_cluster_is_product.

(* outlier prior terms: p^size and (1-p)^size, i.e. the per-mutation terms to the power size;
   p = 0 ("outliers off") stores (0, log 1), i.e. (1, 1) in the linear domain *)
Theorem C05_outlier_terms : forall p size,
  (p <> 0 -> outlier_terms p size = (qpow p size, qpow (1 - p) size)) /\
  outlier_terms 0 size = (1, 1) /\
  outlier_terms p size = (qpow (fst (outlier_terms p 1)) size, qpow (snd (outlier_terms p 1)) size).
Proof.
  intros p size. split; [apply outlier_terms_nonzero|]. split; [reflexivity| apply outlier_terms_power].
Qed.
Print Assumptions C05_outlier_terms.

(* non-vacuity: a concrete two-sample cluster; grid entry, normalisation over alt counts at depth 6 *)
Example C05_nontrivial :
  let gs := genotypes 2 1 2 (Q2Qc (1 # 1000)) in
  length gs = 3%nat /\
  this (sumn (fun x => sample_pmf (BetaBinomial (Q2Qc 10)) (mkS (6 - x) x gs (Q2Qc (3 # 10))) (grid_f 5 2)) 7) = 1%Q /\
  this (sample_pmf Binomial (mkS 5 3 (genotypes 1 1 2 (Q2Qc (1 # 1000))) 1) (grid_f 3 2)) = (7 # 32)%Q /\
  let m1 := point_grid Binomial 3 [mkS 1 1 gs 1] in
  let m2 := point_grid Binomial 3 [mkS 0 2 gs 1] in
  this (entry (cluster_grid [m1; m2]) 0 1) = this (entry m1 0 1 * entry m2 0 1) /\ 0 < entry m1 0 1.
Proof. repeat split; vm_compute; reflexivity. Qed.
Print Assumptions C05_nontrivial.
