(* C15 - trees survive serialisation; trace entries are self-consistent.
   Models: Model/DictForm.v (index-level dictionary form, from_dict as the code does it),
           Model/TraceLoop.v (the trace loop of run.py).  Proofs: Proofs/DictFormProofs.v, TraceLoopProofs.v.

   gwf g  : the index-level state is consistent (root at index 0, name<->index maps inverse on clones, a data
            list for every mapped clone, edges only between mapped indices; indices may have HOLES);
   abs g  : the labelled tree it denotes (None if the graph below the root is not a tree of mapped clones);
   fresh  : every payload rebuilt from the data lists, r bottom-up (Model/LTree.v). *)
From PV Require Import Model.LTree Model.LTreeConv Model.DictForm Model.TraceLoop.
From PV Require Import Proofs.LTreeBase Proofs.LTreeCons Proofs.LTreeCache Proofs.DictFormProofs Proofs.DictFormEdits Proofs.TraceLoopProofs.
Open Scope nat_scope.

(* for every well-formed index-level state - with or without holes, with or without clones - and every
   recursion S: from_dict (to_dict g) succeeds and is the freshly rebuilt version of the tree g denotes:
   same names, same parent/child structure, same data lists, same outliers, same `last` *)
Theorem C15_roundtrip : forall (Sf : list vec -> vec) (prior vone : vec) (g : gstate) (t : ltree),
  gwf g -> abs g = Some t -> from_dict Sf prior vone (to_dict g) = Some (fresh Sf prior t).
Proof. exact dict_roundtrip. Qed.
Print Assumptions C15_roundtrip.

(* with sound caches (C06) the cached vectors and what the densities read survive as well *)
Theorem C15_roundtrip_preserves : forall Sf prior vone g t,
  gwf g -> abs g = Some t -> cache_ok Sf prior t ->
  exists t', from_dict Sf prior vone (to_dict g) = Some t'
             /\ troots t' = troots t /\ outl t' = outl t /\ LTree.last t' = LTree.last t /\ root_lik t' = root_lik t.
Proof.
  intros Sf prior vone g t H1 H2 H3. exists (fresh Sf prior t). split; [apply dict_roundtrip; assumption|].
  split; [apply cache_ok_fresh_roots; exact H3|]. split; [reflexivity|]. split; [reflexivity|]. apply cache_ok_fresh_lik. exact H3.
Qed.
Print Assumptions C15_roundtrip_preserves.

(* ... and for a tree with at least one clone the restored tree IS the original, so every further edit
   (Model/LTree.v step) behaves identically; an outlier-only tree comes back with the virtual root's unused
   vector set to the prior instead of the constructor's zeros *)
Theorem C15_roundtrip_identity : forall Sf prior vone g t,
  gwf g -> abs g = Some t -> cache_ok Sf prior t -> troots t <> [] ->
  from_dict Sf prior vone (to_dict g) = Some t.
Proof.
  intros Sf prior vone g t H1 H2 H3 H4. rewrite (dict_roundtrip Sf prior vone g t H1 H2). f_equal.
  pose proof (cache_ok_fresh_roots Sf prior t H3) as E. destruct H3 as [_ H3]. specialize (H3 H4).
  destruct t as [rs rv o l]. unfold fresh, set_root in *. cbn [troots rootr outl last] in *. rewrite E, <- H3. reflexivity.
Qed.
Print Assumptions C15_roundtrip_identity.
Theorem C15_roundtrip_outlier_only : forall Sf prior vone g t,
  gwf g -> abs g = Some t -> troots t = [] ->
  from_dict Sf prior vone (to_dict g) = Some (mkT [] prior (outl t) (LTree.last t)).
Proof.
  intros Sf prior vone g t H1 H2 H3. rewrite (dict_roundtrip Sf prior vone g t H1 H2). f_equal.
  unfold fresh, set_root. rewrite H3. reflexivity.
Qed.
Print Assumptions C15_roundtrip_outlier_only.

(* in every case the restored tree can be edited further exactly like the original: it equals the original up
   to the virtual root's vector of a clone-less tree (eqv), and every history of grammar edits raises on both
   or on neither and leads to results that are again equal in that sense *)
Theorem C15_restored_edits_like_original : forall Sf prior vone g t (es : list edit),
  gwf g -> abs g = Some t -> cache_ok Sf prior t ->
  exists t', from_dict Sf prior vone (to_dict g) = Some t' /\ eqv t' t
             /\ eqv_opt (run Sf prior vone es t') (run Sf prior vone es t).
Proof. exact restored_edits_like_original. Qed.
Print Assumptions C15_restored_edits_like_original.

(* the trace: entry 0 is the post-burn-in state recorded with iter 0; then exactly the iterations i < m with
   i mod thin = 0, increasing, where m <= num_iters is the number of iterations run (no stop before the last
   one, a stop at it if m < num_iters); the entry of iteration i holds the state after sweep i; every entry's
   log_p_one is the density of its own tree under its own recorded alpha.
   NOTE: iteration 0 is itself a multiple of thin, so a trace has TWO entries with iter = 0 (the post-burn-in
   state, and the state after the first sweep). *)
Theorem C15_trace_shape :
  forall (St Tree : Type) (sweep : nat -> St -> St) (stop : nat -> St -> bool) (alpha_of : St -> Qc)
         (tree_of : St -> Tree) (lp1 : Qc -> Tree -> Qc) (thin n : nat) (s0 : St),
  let tr := trace St Tree sweep stop alpha_of tree_of lp1 thin n s0 in
  let m := executed St sweep stop n 0 s0 in
  let st := state_after St sweep s0 in
  map (e_iter Tree) tr = 0 :: filter (fun i => i mod thin =? 0) (seq 0 m)
  /\ m <= n
  /\ (forall j, S j < m -> stop j (st (S j)) = false)
  /\ (m < n -> 0 < m /\ stop (m - 1) (st m) = true)
  /\ hd_error tr = Some (record St Tree alpha_of tree_of lp1 0 s0)
  /\ (forall e, In e (tl tr) -> e = record St Tree alpha_of tree_of lp1 (e_iter Tree e) (st (S (e_iter Tree e))))
  /\ (forall e, In e tr -> e_lp1 Tree e = lp1 (e_alpha Tree e) (e_tree Tree e)).
Proof. intros. apply trace_shape. Qed.
Print Assumptions C15_trace_shape.

(* ---- examples ------------------------------------------------------------------------------------------ *)
Definition ex_d (i : nat) (a b c : Z) : dp := mkDP i [Q2Qc (a # 16); Q2Qc (b # 16); Q2Qc (c # 16)].
Definition ex_pl (nm : name) : payload := mkPl nm [] (cprior 1 3) (cone 1 3).
(* graph indices 0 (root), 2, 3, 4, 5 - index 1 is a hole left by a prune; clone names 1,2,3,0 as after a
   prune-regraft of the real Tree (probe: edges (3,2) (0,3) (0,4) (4,5)) *)
Definition ex_g : gstate :=
  mkG (fun i => match i with 0 => Some (Some (ex_pl NRoot)) | 2 => Some (Some (ex_pl (NClone 1)))
                | 3 => Some (Some (ex_pl (NClone 2))) | 4 => Some (Some (ex_pl (NClone 3)))
                | 5 => Some (Some (ex_pl (NClone 0))) | _ => None end)
      [(3, 2); (0, 3); (0, 4); (4, 5)]
      [(NRoot, 0); (NClone 1, 2); (NClone 2, 3); (NClone 3, 4); (NClone 0, 5)]
      [(0, NRoot); (2, NClone 1); (3, NClone 2); (4, NClone 3); (5, NClone 0)]
      [(NClone 1, [ex_d 2 7 7 1]); (NClone 2, [ex_d 0 3 8 16]); (NClone 3, [ex_d 3 4 4 4]); (NOut, [ex_d 4 6 1 12]);
       (NRoot, []); (NClone 0, [ex_d 1 5 9 2])]
      WNone.
Definition ex_g_outliers : gstate :=
  mkG (fun i => match i with 0 => Some (Some (ex_pl NRoot)) | _ => None end) [] [(NRoot, 0)] [(0, NRoot)]
      [(NOut, [ex_d 0 3 8 16; ex_d 1 5 9 2])] WOut.

Example C15_nonvacuous_holes : gwf ex_g /\ exists t, abs ex_g = Some t /\ labels t = [2; 1; 3; 0].
Proof. split; [apply gwfb_sound; vm_compute; reflexivity|]. eexists. split; [vm_compute; reflexivity| reflexivity]. Qed.
Print Assumptions C15_nonvacuous_holes.
Example C15_roundtrip_holes_computed :
  match from_dict (Sconv 1 3) (cprior 1 3) (cone 1 3) (to_dict ex_g) with
  | Some t => cache_okb (Sconv 1 3) (cprior 1 3) t && lnat_eqb (labels t) [2; 1; 3; 0] && lnat_eqb (idxs (points t)) [0; 2; 3; 1; 4]
  | None => false end = true.
Proof. vm_compute. reflexivity. Qed.
Print Assumptions C15_roundtrip_holes_computed.
Example C15_nonvacuous_outlier_only : gwf ex_g_outliers /\ exists t, abs ex_g_outliers = Some t /\ troots t = [] /\ length (outl t) = 2.
Proof. split; [apply gwfb_sound; vm_compute; reflexivity|]. eexists. split; [vm_compute; reflexivity|]. split; reflexivity. Qed.
Print Assumptions C15_nonvacuous_outlier_only.

(* why the root has to sit at index 0 (gwf's first clause): from_dict puts the new root payload at index 0 but
   copies the name->index map; a dictionary whose map sends "root" elsewhere does not restore *)
Example C15_root_not_at_zero_refuted :
  let g := mkG (g_nodes ex_g_outliers) [] [(NRoot, 1)] [(1, NRoot)] (g_data ex_g_outliers) WOut in
  from_dict (Sconv 1 3) (cprior 1 3) (cone 1 3) (to_dict g) = None.
Proof. vm_compute. reflexivity. Qed.
Print Assumptions C15_root_not_at_zero_refuted.

(* the loop on a toy chain: 7 iterations, thin 3, stop after iteration 4: iters 0 | 0 3 *)
Example C15_trace_example :
  map (e_iter nat) (trace nat nat (fun i s => s + i) (fun i _ => 4 <=? i) (fun _ => 1%Qc) (fun s => s) (fun _ _ => 0%Qc) 3 7 100)
  = [0; 0; 3]
  /\ executed nat (fun i s => s + i) (fun i _ => 4 <=? i) 7 0 100 = 5.
Proof. split; vm_compute; reflexivity. Qed.
Print Assumptions C15_trace_example.
