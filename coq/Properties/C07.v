(* C07 - every tree is a well-formed forest and no move loses or duplicates data.
   Model: Model/LTree.v.  A rose tree has "one parent each, reachable from the root" by construction; that part
   of the property lives on the implementation side (pv.trees.abs_impl checks the four redundant views of the
   real Tree after every edit and every sampler call).  What is proved here, for every edit of the grammar the
   samplers compose, every state and every history:
     wf t  :=  clone names are pairwise distinct  /\  every data index is held exactly once (clones + outliers)
   is preserved, and the multiset of data points changes exactly by [delta e] (the points the edit is specified
   to add; empty for moves, prune-regraft, the subtree move, relabel, copy, to/from dict, update).
   [pre e t] collects the two side conditions the code does not check itself (Model/LTree.v):
     NewClone: names are 0..n-1 (create_root_node names the clone num_nodes-1 without looking) and the data is new;
     SubtreeResample: the SMC result is a wf tree over exactly the extracted data.
   step = None where the Python raises; nothing is claimed then. *)
From PV Require Import Model.LTree Model.LTreeConv Proofs.LTreeBase Proofs.LTreeCons Proofs.LTreeWf.
Open Scope nat_scope.

Theorem C07_wf_step : forall (Sf : list vec -> vec) (prior vone : vec) (e : edit) (t t' : ltree),
  wf t -> pre Sf prior vone e t -> step Sf prior vone e t = Some t' -> wf t'.
Proof. intros Sf prior vone e t t' H1 H2 H3. exact (proj1 (wf_step Sf prior vone e t t' H1 H2 H3)). Qed.
Print Assumptions C07_wf_step.

Theorem C07_data_conserved : forall (Sf : list vec -> vec) (prior vone : vec) (e : edit) (t t' : ltree),
  wf t -> pre Sf prior vone e t -> step Sf prior vone e t = Some t' ->
  Permutation (points t') (delta e ++ points t).
Proof. intros Sf prior vone e t t' H1 H2 H3. exact (proj2 (wf_step Sf prior vone e t t' H1 H2 H3)). Qed.
Print Assumptions C07_data_conserved.

Theorem C07_all_histories : forall (Sf : list vec -> vec) (prior vone : vec) (es : list edit) (t0 t : ltree),
  wf t0 -> pres Sf prior vone es t0 -> run Sf prior vone es t0 = Some t ->
  wf t /\ Permutation (points t) (deltas es ++ points t0).
Proof. exact wf_run. Qed.
Print Assumptions C07_all_histories.

(* whole sampler passes, as compositions of grammar edits: a composition of moves (data-point moves,
   prune-regraft, the subtree move, relabel, copy, to/from dict, update) returns exactly the data it was given;
   a pass that builds a tree from the empty one (unconditional SMC / retained path: NewClone or AddPoint of the
   k-th point at step k) holds exactly the points its steps added *)
Theorem C07_moves_conserve : forall Sf prior vone es t t',
  wf t -> pres Sf prior vone es t -> Forall (fun e => delta e = []) es -> run Sf prior vone es t = Some t' ->
  wf t' /\ Permutation (points t') (points t).
Proof. exact moves_conserve. Qed.
Print Assumptions C07_moves_conserve.
Theorem C07_build_conserves : forall Sf prior vone es t',
  pres Sf prior vone es (empty_tree vone) -> run Sf prior vone es (empty_tree vone) = Some t' ->
  wf t' /\ Permutation (points t') (deltas es).
Proof. exact build_conserves. Qed.
Print Assumptions C07_build_conserves.

(* the graft renames clashing names above the maximum of both trees: names stay unique whatever the two
   name sets are (no side condition), and the grafted data arrives exactly once *)
Theorem C07_graft_with_clashing_labels : forall Sf prior sub par t t',
  wf t -> wf sub -> add_subtree Sf prior sub par t = Some t' ->
  NoDup (labels t') /\ Permutation (points t') (points_f (troots sub) ++ points t).
Proof.
  intros Sf prior sub par t t' H1 H2 H3. destruct (add_subtree_wf Sf prior sub par t t' H1 H2 H3) as [A [B _]]. split; assumption.
Qed.
Print Assumptions C07_graft_with_clashing_labels.

(* cutting a subtree out: what is cut plus what stays is the tree, including the `subtree == self` shortcut of
   remove_subtree (Tree.__eq__ compares clade sets; with unique data points it fires only on the whole tree) *)
Theorem C07_prune_partitions : forall Sf prior vone x t sub t',
  wf t -> get_subtree Sf prior vone x t = Some sub -> remove_subtree Sf prior vone sub t = Some t' ->
  wf sub /\ wf t' /\ Permutation (points t) (points sub ++ points t').
Proof.
  intros Sf prior vone x t sub t' H1 H2 H3. destruct (prune_wf Sf prior vone x t sub t' H1 H2 H3) as [A [_ [B C]]]. auto.
Qed.
Print Assumptions C07_prune_partitions.

(* ---- examples ------------------------------------------------------------------------------------------ *)
Definition ex_d (i : nat) (a b c : Z) : dp := mkDP i [Q2Qc (a # 16); Q2Qc (b # 16); Q2Qc (c # 16)].
Definition ex_t0 : option ltree :=
  build 1 3 [SNode [ex_d 0 3 8 16] [SNode [ex_d 1 5 9 2] []; SNode [ex_d 2 7 7 1] []]] [ex_d 3 4 4 4].
Definition ex_hist : list hedit :=
  [HAddPoint (ex_d 4 6 1 12) (Some 1); HMovePoint 1 (Some 2); HNewCloneAdd [0] (ex_d 5 2 11 3);
   HPruneRegraft 2 None; HRelabel; HMovePoint 3 (Some 4);
   HSubtreeResample (Some 5) [SNode [ex_d 0 3 8 16; ex_d 4 6 1 12] [SNode [ex_d 5 2 11 3] []]] [ex_d 3 4 4 4];
   HToFromDict; HUpdate].
(* non-vacuity: the history runs; names stay distinct and the six data points are each held once *)
Example C07_nonvacuous :
  match ex_t0 with
  | Some t0 => match hrun 1 3 ex_hist t0 with
               | Some t => nodupb (labels t) && nodupb (idxs (points t)) && (length (points t) =? 6) && (num_nodes t =? 3)
               | None => false end
  | None => false end = true.
Proof. vm_compute. reflexivity. Qed.
Print Assumptions C07_nonvacuous.

(* a graft where every name clashes: {0,1} grafted under clone 1 of a tree named {0,1,2} becomes {3,4} *)
Example C07_clash_example :
  match build 1 3 [SNode [ex_d 0 3 8 16] []; SNode [ex_d 1 5 9 2] []; SNode [ex_d 2 7 7 1] []] [],
        build 1 3 [SNode [ex_d 3 4 4 4] [SNode [ex_d 4 6 1 12] []]] [] with
  | Some t, Some sub =>
      match add_subtree (Sconv 1 3) (cprior 1 3) sub (Some 1) t with
      | Some t' => Some (labels t') | None => None end
  | _, _ => None end = Some [0; 1; 3; 4; 2].
Proof. vm_compute. reflexivity. Qed.
Print Assumptions C07_clash_example.

(* the side condition of NewClone is needed (this is NOT reachable through the samplers: they only call
   create_root_node on trees named 0..n-1): after pruning clone 0 of {0,1,2}, num_nodes - 1 = 2 is still in use *)
Example C07_create_after_prune_refuted :
  match build 1 3 [SNode [ex_d 0 3 8 16] []; SNode [ex_d 1 5 9 2] []; SNode [ex_d 2 7 7 1] []] [] with
  | Some t =>
      match get_subtree (Sconv 1 3) (cprior 1 3) (cone 1 3) 0 t with
      | Some sub => match remove_subtree (Sconv 1 3) (cprior 1 3) (cone 1 3) sub t with
                    | Some t1 => match create_root_node (Sconv 1 3) (cprior 1 3) [] [ex_d 3 4 4 4] t1 with
                                 | Some t2 => Some (labels t2, nodupb (labels t2)) | None => None end
                    | None => None end
      | None => None end
  | None => None end = Some ([1; 2; 2], false).
Proof. vm_compute. reflexivity. Qed.
Print Assumptions C07_create_after_prune_refuted.
