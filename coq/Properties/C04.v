(* C04 - the auxiliary moves (data-point Gibbs, prune-regraft Gibbs, subtree particle Gibbs) preserve the posterior.
   Proved here for every finite state space, target and candidate structure:
     - a Gibbs redraw on fibers whose candidate list is the same from every member leaves the target invariant;
     - mixing over an auxiliary choice drawn independently of the state, and composing moves, preserves invariance;
     - the data-point move's candidate list IS closed (assignment model);
   and refuted by witness for the two deviations the pinned commit had (extra (n+1) factor in prune-regraft; the
   "holder keeps a point" rule applied to the outlier set).  The subtree move reduces to C01 when the chosen
   clone is top-level; its state-dependent subtree choice in general is NOT covered by a theorem (known finding). *)
From PV Require Import Model.Gibbs Model.DpMove Proofs.GibbsProofs Proofs.DpMoveProofs Proofs.DpMoveInvariant Model.PrgMove Proofs.PrgMoveProofs.

Theorem C04_gibbs_partition_invariant :
  forall (A : Type) (gamma : A -> Qc) (blocks : list (list A)) (cand : A -> list A) (f : A -> Qc),
    (forall b, In b blocks -> total gamma b <> 0) ->
    (forall b x, In b blocks -> In x b -> cand x = b) ->
    E (pi_fiber gamma (concat blocks)) (fun x => E (gibbs gamma (cand x)) f) = E (pi_fiber gamma (concat blocks)) f.
Proof. exact (@gibbs_partition_invariant). Qed.
Print Assumptions C04_gibbs_partition_invariant.

Theorem C04_aux_mixture_invariant :
  forall (A I : Type) (pi : dist A) (aux : dist I) (K : I -> A -> dist A),
    mass aux = 1 -> (forall i, invariant pi (K i)) -> invariant pi (fun x => bind aux (fun i => K i x)).
Proof. intros A I. exact (@aux_mixture_invariant A I). Qed.
Print Assumptions C04_aux_mixture_invariant.

Theorem C04_sweep_composition_invariant :
  forall (A : Type) (pi : dist A) (K1 K2 : A -> dist A),
    invariant pi K1 -> invariant pi K2 -> invariant pi (fun x => bind (K1 x) K2).
Proof. exact (@invariant_compose). Qed.
Print Assumptions C04_sweep_composition_invariant.

Theorem C04_dp_candidates_closed :
  forall clones on x s s', In s' (cand clones on x s) -> cand clones on x s' = cand clones on x s.
Proof. exact dp_candidates_closed. Qed.
Print Assumptions C04_dp_candidates_closed.

(* the data-point move with the repaired guard leaves the target invariant on every union of fibers
   (fiber = all placements of x over an assignment of the other points in which every clone keeps another point)
   and of states in which x cannot move *)
Theorem C04_dp_move_invariant :
  forall (clones : list nat) (outliers_on : bool) (gamma : state -> Qc) (x : nat) (reps fixed : list state) (f : state -> Qc),
    (forall r, In r reps -> others clones x r) ->
    (forall r, In r reps -> total gamma (cand clones outliers_on x r) <> 0) ->
    (forall s, In s fixed -> movable false x s = false) ->
    let S := concat (map (cand clones outliers_on x) reps) ++ fixed in
    E (wlist gamma S) (fun s => E (dp_step clones outliers_on gamma false x s) f) = E (wlist gamma S) f.
Proof. exact dp_move_invariant. Qed.
Print Assumptions C04_dp_move_invariant.

(* prune-regraft on the parent-function model: regrafting the pruned node v leaves the set of attachment points
   unchanged, so the candidate list is the same from every candidate, and for a fixed v the move is a Gibbs step on
   fibers; the pruned node is drawn uniformly from a node list that is the same on the whole fiber
   (C04_aux_mixture_invariant then gives the mixture) *)
Theorem C04_prg_candidates_closed : forall v s s', In s' (prg_cand v s) -> prg_cand v s' = prg_cand v s.
Proof. exact prg_candidates_closed. Qed.
Print Assumptions C04_prg_candidates_closed.

Theorem C04_prg_fixed_node_invariant :
  forall (gamma : state -> Qc) (v : nat) (reps : list state) (f : state -> Qc),
    (forall r, In r reps -> total gamma (prg_cand v r) <> 0) ->
    let S := concat (map (prg_cand v) reps) in
    E (wlist gamma S) (fun s => E (gibbs gamma (prg_cand v s)) f) = E (wlist gamma S) f.
Proof. exact prg_fixed_node_invariant. Qed.
Print Assumptions C04_prg_fixed_node_invariant.

Theorem C04_prg_node_list_constant_on_fiber : forall v s s', In s' (prg_cand v s) -> map fst s' = map fst s.
Proof. exact prg_cand_keys. Qed.
Print Assumptions C04_prg_node_list_constant_on_fiber.

(* witnesses *)
Open Scope nat_scope.
Definition flat (_ : state) : Qc := 1%Qc.
(* two points, one clone, outliers on.  s_both: both in the clone; s_out0: point 0 is the only outlier. *)
Definition s_both : state := [(0, Some 0); (1, Some 0)].
Definition s_out0 : state := [(0, None); (1, Some 0)].
(* pinned rule: the sole outlier cannot move back although the reverse move exists: the fiber is not closed *)
Example C04_dp_sole_outlier_refuted :
  movable true 0 s_both = true /\ In s_out0 (cand [0] true 0 s_both)
  /\ movable true 0 s_out0 = false /\ movable false 0 s_out0 = true.
Proof. repeat split; vm_compute; auto. Qed.
Print Assumptions C04_dp_sole_outlier_refuted.

(* non-vacuity of C04_dp_move_invariant: three points, two clones, outliers on; point 2 may go anywhere *)
Example C04_dp_move_premises_satisfiable :
  let rep : state := [(0, Some 0); (1, Some 1); (2, None)] in
  others [0; 1] 2 rep /\ length (cand [0; 1] true 2 rep) = 3 /\ movable false 0 rep = false.
Proof.
  split; [|split; reflexivity].
  split; [cbn; auto|]. split; [repeat constructor; cbn; intuition discriminate|].
  intros c [<-|[<-|[]]]; [exists 0| exists 1]; (split; [discriminate| cbn; auto]).
Qed.
Print Assumptions C04_dp_move_premises_satisfiable.

(* non-vacuity: the chain 0 <- 1 <- 2 (2 deepest); pruning node 1 (with its child 2) leaves the top level and node 0 *)
Example C04_prg_example :
  let s : state := [(0, None); (1, Some 0); (2, Some 1)] in
  attach_points s 1 = [None; Some 0] /\ length (prg_cand 1 s) = 2 /\ attach_points s 2 = [None; Some 0; Some 1].
Proof. repeat split; vm_compute; reflexivity. Qed.
Print Assumptions C04_prg_example.

(* prune-regraft with the pinned extra factor: a two-candidate fiber with equal target but extra factors 1 and 2 *)
Example C04_prg_extra_refuted :
  let cs := [0; 1] in let g := fun _ : nat => 1%Qc in let extra := fun a : nat => qn (S a) in
  let f := fun a : nat => if Nat.eqb a 1 then 1%Qc else 0%Qc in
  Qc_eq_bool (E (pi_fiber g cs) (fun x => E (gibbs_extra g extra cs) f)) (Q2Qc (4 # 3)) = true
  /\ Qc_eq_bool (E (pi_fiber g cs) f) 1%Qc = true
  /\ Qc_eq_bool (E (pi_fiber g cs) (fun x => E (gibbs g cs) f)) 1%Qc = true.
Proof. repeat split; vm_compute; reflexivity. Qed.
Print Assumptions C04_prg_extra_refuted.
