(* C02 - the tree likelihood vector of the virtual root equals, entry k, the sum over all assignments of grid
   indices to clones (each clone >= the sum of its children, top-level clones summing to at most k) of the
   product of every clone's uniform-prior-weighted data likelihood, the virtual root contributing 1/G.
   Exact-arithmetic statements over the model of Model/Marginal.v (per sample; rows are independent);
   the floating-point window (1e-100 floor, FFT round-off) is validated by the harness, not proved.
   Statements only; proofs live in Proofs/Marginal*.v. *)
From PV Require Import Model.Marginal Proofs.MarginalSums Proofs.MarginalProofs Proofs.MarginalFloor.
From Coq Require Import Permutation.

(* every forest (any shape, any child counts), every grid size, every data assignment, every entry *)
Theorem C02_root_is_constrained_sum : forall (G : nat) (f : list dtree) (k : nat), (k < G)%nat ->
  vget (root_R G f) k
  = sumq (map (fun w => if ffeas f k w then / qn G * fweight G f w else 0) (all_vecs G (sizes f))).
Proof. exact root_is_constrained_sum. Qed.
Print Assumptions C02_root_is_constrained_sum.

(* the sum ranges over exactly the index vectors with one grid index per clone *)
Theorem C02_assignments_exact : forall G n v,
  In v (all_vecs G n) <-> (length v = n /\ Forall (fun x => (x < G)%nat) v).
Proof. exact all_vecs_spec. Qed.
Print Assumptions C02_assignments_exact.

(* the same at every clone: its cached vector, entry x, is the constrained sum over its subtree with the
   clone itself fixed at index x *)
Theorem C02_subtree_is_constrained_sum : forall (G : nat) (t : dtree) (x : nat), (x < G)%nat ->
  vget (R G t) x
  = sumq (map (fun w => if feas t (x :: w) then weight G t (x :: w) else 0) (all_vecs G (sizes (kids t)))).
Proof. exact R_eq_B. Qed.
Print Assumptions C02_subtree_is_constrained_sum.

(* several samples: row s is the single-sample statement on the s-th rows of the data *)
Theorem C02_multisample : forall (G n : nat) (f : list mtree) (s k : nat), (s < n)%nat -> (k < G)%nat ->
  vget (nth s (root_R_multi G n f) []) k = brute_root G (map (proj s) f) k.
Proof. intros G n f s k Hs Hk. rewrite root_R_multi_nth by exact Hs. apply root_is_constrained_sum. exact Hk. Qed.
Print Assumptions C02_multisample.

(* strictly positive entries (finite logs) whenever all data likelihood values on the grid are positive *)
Theorem C02_positive : forall (G : nat) (f : list dtree), (forall t, In t f -> pos_data G t) ->
  forall k, (k < G)%nat -> 0 < vget (root_R G f) k.
Proof. exact root_positive. Qed.
Print Assumptions C02_positive.

(* the convolution of the children does not depend on their order (code order: conv(c0,c1), conv(c_j, acc)) *)
Theorem C02_D_perm_invariant : forall G cs cs', Permutation cs cs' -> D G cs = D G cs'.
Proof. exact D_perm. Qed.
Print Assumptions C02_D_perm_invariant.

Theorem C02_R_perm_children : forall G ds ks ks', Permutation ks ks' -> R G (Node ds ks) = R G (Node ds ks').
Proof. exact R_perm_children. Qed.
Print Assumptions C02_R_perm_children.

(* the root vector is the same for any two forests that differ only in the order of siblings, at any depth *)
Theorem C02_sibling_order_irrelevant : forall G (f f' f'' : list dtree),
  Forall2 tperm f f' -> Permutation f' f'' -> root_R G f = root_R G f''.
Proof. intros G f f' f'' H1 H2. exact (root_R_tperm G f f' H1 f'' H2). Qed.
Print Assumptions C02_sibling_order_irrelevant.

(* order-theoretic half of the floor claim: any convolution operator that returns entries at least as large
   as the exact truncated convolution (as flooring non-positive float results at 1e-100 does) can only raise
   every entry of every clone's vector, up to the root *)
Theorem C02_floor_monotone : forall (cv : vec -> vec -> vec) (G : nat),
  (forall a b, length (cv a b) = G) ->
  (forall a b k, (k < G)%nat -> (forall i, 0 <= vget a i) -> (forall i, 0 <= vget b i) ->
                 vget (conv G a b) k <= vget (cv a b) k) ->
  forall t, pos_data G t -> forall x, (x < G)%nat -> vget (R G t) x <= vget (Rg cv G t) x.
Proof. exact floor_monotone. Qed.
Print Assumptions C02_floor_monotone.

(* ---- non-vacuity: a three-level forest with a three-child clone, G = 4, non-constant data ---- *)
Definition q (a b : Z) : Qc := Q2Qc (Qmake a (Z.to_pos b)).
Definition ex_forest : list dtree :=
  [ Node [[q 1 2; q 3 4; q 1 4; q 1 1]]
      [ Node [[q 1 4; q 1 2; q 3 4; q 1 8]; [q 1 1; q 1 2; q 1 2; q 1 4]] [];
        Node [[q 5 8; q 1 8; q 1 2; q 3 8]] [ Node [[q 1 2; q 1 2; q 7 8; q 1 4]] [] ];
        Node [[q 3 4; q 1 4; q 1 8; q 1 2]] [] ];
    Node [[q 1 8; q 7 8; q 1 2; q 3 4]] [] ].
Example C02_nontrivial :
  map (fun k => this (brute_root 4 ex_forest k)) (seq 0 4) = map (fun x => this x) (root_R 4 ex_forest)
  /\ length (filter (ffeas ex_forest 3) (all_vecs 4 (sizes ex_forest))) = 84%nat
  /\ vget (root_R 4 ex_forest) 0 <> vget (root_R 4 ex_forest) 3.
Proof. split; [|split]; [vm_compute; reflexivity | vm_compute; reflexivity | vm_compute; discriminate]. Qed.
Print Assumptions C02_nontrivial.
