(* C17 - input loading is order-independent and filters exactly as documented.
   Statements only; proofs live in Proofs/LoaderOrder.v and Proofs/LoaderProofs.v. *)
From PV Require Import Model.Loader Proofs.LoaderOrder Proofs.LoaderProofs Proofs.LoaderClusters.
From Coq Require Import Permutation.
Open Scope nat_scope.

(* any permutation of the rows gives the same result: same samples, same data points in the same order with
   the same per-sample records - or the same error *)
Theorem C17_perm_invariant : forall rows1 rows2 tc er,
  Permutation rows1 rows2 -> load (mkTable rows1 tc er) = load (mkTable rows2 tc er).
Proof. intros. apply load_perm_invariant; [assumption| reflexivity| reflexivity]. Qed.
Print Assumptions C17_perm_invariant.

(* the statement's two exclusions, as hypotheses:
   every_sample_usable : no sample loses all its rows to the zero-major-copy-number filter;
   no_offsetting_mix   : no mutation whose extra rows in one sample exactly offset missing rows in another
                         (rows-per-mutation = number of samples without one row per sample).
   Under them a mutation is kept iff it occurs in the table and every sample of the table has exactly one
   row for it with a positive major copy number. *)
Theorem C17_kept_iff : forall tb m, every_sample_usable tb -> no_offsetting_mix tb ->
  (In m (kept tb) <->
   In m (map r_mid (rows tb)) /\
   forall s, In s (map r_sid (rows tb)) -> count_cell m s (cn_pos (rows tb)) = 1).
Proof. exact kept_iff. Qed.
Print Assumptions C17_kept_iff.

(* without the exclusions the code's criterion is only the COUNT test *)
Theorem C17_kept_is_count_test : forall tb m,
  In m (kept tb) <-> (exists r, In r (cn_pos (rows tb)) /\ r_mid r = m) /\
                     count_mut m (cn_pos (rows tb)) = length (samples tb).
Proof. exact in_kept. Qed.
Print Assumptions C17_kept_is_count_test.

(* a successful load: samples strictly sorted; data points are exactly the kept mutations, strictly sorted
   (list position = idx 0..n-1); one record per sample, in sample order, each taken from a row of the table
   for that mutation and sample with positive major copy number and minor <= major *)
Theorem C17_numbering : forall tb ss d, load tb = Ok (ss, d) ->
  ss = samples tb /\ ssorted ss /\
  map fst d = kept tb /\ ssorted (map fst d) /\
  Forall (fun p => Forall2 (from_table tb (fst p)) ss (snd p)) d.
Proof. exact load_numbering. Qed.
Print Assumptions C17_numbering.

Theorem C17_sorted_positions : forall l d, ssorted l ->
  forall i j, i < j -> j < length l -> lt_id (nth i l d) (nth j l d).
Proof. intros l d H. exact (ssorted_nth l d H). Qed.
Print Assumptions C17_sorted_positions.

(* absent optional columns: tumour content 1, error rate 1/1000 in every stored record *)
Theorem C17_defaults : forall tb ss d m recs rc, load tb = Ok (ss, d) -> In (m, recs) d -> In rc recs ->
  (has_tc tb = false -> l_t rc = 1%Qc) /\ (has_er tb = false -> l_err rc = Q2Qc (1 # 1000)).
Proof. exact load_defaults. Qed.
Print Assumptions C17_defaults.

(* major < minor in a row of a kept mutation is never loaded; the error is raised only for such a row;
   under the second exclusion nothing else can go wrong, so such a table is Rejected *)
Theorem C17_reject : forall tb,
  (forall r, In r (kept_rows tb) -> r_major r < r_minor r -> forall ss d, load tb <> Ok (ss, d)) /\
  (load tb = Reject -> exists r, In r (kept_rows tb) /\ r_major r < r_minor r) /\
  (no_offsetting_mix tb -> (exists r, In r (kept_rows tb) /\ r_major r < r_minor r) -> load tb = Reject).
Proof.
  intros tb. split; [intros r; apply load_reject_complete|]. split; [apply load_reject_sound|].
  intros E2 [r [Hr Hlt]]. pose proof (load_no_crash tb E2) as Hc.
  destruct (load tb) as [[ss d]| |] eqn:E; [|reflexivity| congruence].
  exfalso. rewrite <- E in *. exact (load_reject_complete tb r Hr Hlt ss d E).
Qed.
Print Assumptions C17_reject.

(* the degenerate mix is exactly what crashes (KeyError / ValueError) *)
Theorem C17_no_crash : forall tb, no_offsetting_mix tb -> load tb <> Crash.
Proof. exact load_no_crash. Qed.
Print Assumptions C17_no_crash.

(* with a cluster file: data points are the clusters that contain at least one loaded mutation, in strictly
   sorted cluster-id order (position = idx); the members of a cluster are exactly the loaded mutations the
   file assigns to it; KeyError (None) iff a loaded mutation is absent from the cluster file *)
Theorem C17_cluster_numbering : forall cl ms pts, cluster_points cl ms = Some pts ->
  ssorted (map fst pts) /\
  forall c mem, In (c, mem) pts ->
    mem <> [] /\ forall m, In m mem <-> In m ms /\ cluster_of cl m = Some c.
Proof. exact cluster_points_spec. Qed.
Print Assumptions C17_cluster_numbering.

Theorem C17_cluster_keyerror : forall cl ms,
  cluster_points cl ms = None <-> exists m, In m ms /\ cluster_of cl m = None.
Proof. exact cluster_points_none. Qed.
Print Assumptions C17_cluster_keyerror.

(* ---- witnesses --------------------------------------------------------------------------------- *)
Definition r (m s : list nat) (rf al mj mn : nat) : row := mkRow m s rf al mj mn 2 1 (Q2Qc (1 # 1000)).

(* non-vacuity: ids "m10" < "m2" as strings; m3 is missing in sample b, m4 has major copy number 0 in a,
   m5 is duplicated in a; rows shuffled; both exclusions hold *)
Definition ex_rows : list row :=
  [ r [109;50] [98] 5 3 2 1; r [109;49;48] [97] 9 1 1 1; r [109;51] [97] 4 4 2 0; r [109;50] [97] 7 2 2 2;
    r [109;52] [97] 5 5 0 0; r [109;49;48] [98] 6 0 3 1; r [109;52] [98] 5 5 2 1;
    r [109;53] [97] 1 1 1 1; r [109;53] [97] 2 2 1 1; r [109;53] [98] 3 3 1 1 ].
Example C17_nontrivial :
  let tb := mkTable ex_rows false false in
  kept tb = [[109;49;48]; [109;50]] /\ samples tb = [[97]; [98]] /\
  (exists d, load tb = Ok (samples tb, d) /\ map fst d = kept tb /\
             map (fun p => map l_ref (snd p)) d = [[9; 6]; [7; 5]]) /\
  load (mkTable (rev ex_rows) false false) = load tb.
Proof.
  cbv zeta. split; [vm_compute; reflexivity|]. split; [vm_compute; reflexivity|]. split.
  - eexists. split; [vm_compute; reflexivity|]. split; vm_compute; reflexivity.
  - apply C17_perm_invariant. apply Permutation_sym, Permutation_rev.
Qed.
Print Assumptions C17_nontrivial.

(* the excluded degenerate mix: two rows in sample a, none in b -> passes the count test and crashes *)
Example C17_offsetting_mix_crashes :
  let tb := mkTable [r [109;49] [97] 5 3 2 1; r [109;49] [98] 5 3 2 1;
                     r [109;50] [97] 5 3 2 1; r [109;50] [97] 6 3 2 1] false false in
  kept tb = [[109;49]; [109;50]] /\ load tb = Crash.
Proof. split; vm_compute; reflexivity. Qed.
Print Assumptions C17_offsetting_mix_crashes.

(* the excluded "sample keeps no usable row": sample b vanishes and m1 is loaded with one sample only *)
Example C17_unusable_sample_vanishes :
  let tb := mkTable [r [109;49] [97] 5 3 2 1; r [109;49] [98] 5 3 0 0] false false in
  samples tb = [[97]] /\ kept tb = [[109;49]].
Proof. split; vm_compute; reflexivity. Qed.
Print Assumptions C17_unusable_sample_vanishes.

Example C17_reject_witness :
  load (mkTable [r [109;49] [97] 5 3 1 2] false false) = Reject.
Proof. vm_compute. reflexivity. Qed.
Print Assumptions C17_reject_witness.
