(* C03 - placeholder while the harness is brought up *)
From PV Require Import Model.Density.
Open Scope nat_scope.
Example C03_smoke :
  let F := mkF [Node [0] [Node [1;2] []; Node [3] []]; Node [4] []] [5] in
  let D := fun _ : nat => mkDP (Q2Qc (1#10)) 1 [[Q2Qc (1#2); Q2Qc (1#4); Q2Qc (3#4)]] in
  let R := [[Q2Qc (1#20); Q2Qc (1#30); Q2Qc (1#40)]] in
  impl_log_p (Q2Qc (3#10)) D F R = spec_log_p (Q2Qc (3#10)) D F R.
Proof. vm_compute; reflexivity. Qed.
Print Assumptions C03_smoke.
