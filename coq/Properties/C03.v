(* C03 - the joint log-density implements the FS-CRP model and depends only on the tree.
   Linear domain (exp of every log value).  [spec_*] is written from the statement (Model/Density.v part 1), [impl_*] are
   transliterations of TreeJointDistribution.log_p / .log_p_one / .compute_both_log_p_and_log_p_one (part 2).
   The per-sample root vector [rootR] (tree.data_log_likelihood) is an input: the recursion producing it is C02's model.
   Premises: 1 < c (the code's c_const = 1000); every data point of the forest has outlier prior 0 <= p < 1 and cluster
   size >= 1 ([dp_ok]); alpha is arbitrary (the equalities hold for every alpha, in particular every alpha > 0). *)
From PV Require Import Model.Density Proofs.DensityProofs Proofs.DensityEquiv Proofs.DensityClades.

(* the three code paths compute the spec, for every forest, alpha, data and root vector *)
Theorem C03_impl_is_spec : forall (alpha c : Qc) (D : nat -> dpoint) (F : forest) (rootR : list (list Qc)),
  1 < c -> (forall i, In i (fpoints F) -> dp_ok (D i)) ->
  impl_log_p alpha D F rootR = spec_log_p alpha D F rootR
  /\ impl_log_p_one alpha c D F rootR = spec_log_p_one alpha c D F rootR
  /\ impl_both alpha c D F rootR = (spec_log_p alpha D F rootR, spec_log_p_one alpha c D F rootR).
Proof.
  intros. split; [apply impl_log_p_spec| split; [apply impl_log_p_one_spec| apply impl_both_spec]]; assumption.
Qed.
Print Assumptions C03_impl_is_spec.

(* computing both forms together (with the falsy-zero fall-through on the passed start values) = computing them separately *)
Theorem C03_fused_eq_separate : forall (alpha c : Qc) (D : nat -> dpoint) (F : forest) (rootR : list (list Qc)),
  1 < c -> (forall i, In i (fpoints F) -> dp_ok (D i)) ->
  impl_both alpha c D F rootR = (impl_log_p alpha D F rootR, impl_log_p_one alpha c D F rootR).
Proof. exact fused_eq_separate. Qed.
Print Assumptions C03_fused_eq_separate.

(* DataPoint.__init__'s outlier_marginal_prob is the marginal data term of the point alone in a single-clone tree *)
Theorem C03_outlier_marginal_single_clone : forall val : list (list Qc),
  outlier_marginal_prob val = spec_data_marg (mkF [Node [0%nat] []] []) (map single_clone_rootR val).
Proof. exact outlier_marginal_single_clone. Qed.
Print Assumptions C03_outlier_marginal_single_clone.

(* the root-count penalty of the code (closed-form geometric normaliser) is c^-(R-1) / sum_{r=1..R} c^-(r-1) *)
Theorem C03_root_penalty : forall (c : Qc) (R nn : nat), 1 < c -> r_term c R nn = root_penalty c R.
Proof. exact r_term_spec. Qed.
Print Assumptions C03_root_penalty.

(* the value is unchanged under any permutation of siblings at any depth and any order of the points inside a clone or
   among the outliers; node labels and construction histories do not exist in the model (a forest is its own history) *)
Theorem C03_equiv_invariant : forall (alpha c : Qc) (D : nat -> dpoint) (F F' : forest) (rootR : list (list Qc)),
  feq F F' ->
  (spec_log_p alpha D F rootR = spec_log_p alpha D F' rootR
   /\ spec_log_p_one alpha c D F rootR = spec_log_p_one alpha c D F' rootR)
  /\ (1 < c -> (forall i, In i (fpoints F) -> dp_ok (D i)) ->
      impl_log_p alpha D F rootR = impl_log_p alpha D F' rootR
      /\ impl_log_p_one alpha c D F rootR = impl_log_p_one alpha c D F' rootR
      /\ impl_both alpha c D F rootR = impl_both alpha c D F' rootR).
Proof.
  intros alpha c D F F' rootR HF. split; [apply spec_equiv_invariant; exact HF|].
  intros Hc Hok. apply impl_equiv_invariant; assumption.
Qed.
Print Assumptions C03_equiv_invariant.

(* [feq] is an equivalence relation *)
Theorem C03_feq_equivalence :
  (forall F, feq F F) /\ (forall F F', feq F F' -> feq F' F) /\ (forall F1 F2 F3, feq F1 F2 -> feq F2 F3 -> feq F1 F3).
Proof. split; [exact feq_refl| split; [exact feq_sym| exact feq_trans]]. Qed.
Print Assumptions C03_feq_equivalence.

(* Growth: Tree.__eq__ / __hash__ compare (set of clades, set of outliers).  For well-formed forests (every data index
   once, every clone non-empty) that key is equal exactly when the forests are equal up to sibling order *)
Theorem C03_clades_determine_tree : forall F F' : forest, wf F -> wf F' -> (tree_eq F F' <-> feq F F').
Proof. exact clades_determine_tree. Qed.
Print Assumptions C03_clades_determine_tree.

(* the non-empty-clone premise is needed: an empty clone above a single child collapses into the child's clade *)
Example C03_empty_clone_refuted :
  let F := mkF [Node [] [Node [0%nat] []]] [] in
  let F' := mkF [Node [0%nat] []] [] in
  NoDup (fpoints F) /\ NoDup (fpoints F') /\ tree_eq F F' /\ ~ feq F F'.
Proof. exact empty_clone_collapses. Qed.
Print Assumptions C03_empty_clone_refuted.

Open Scope nat_scope.
(* non-vacuity: a three-level forest with an outlier, alpha = 3/10, p = 1/10 (premises hold, the value is not trivial) *)
Example C03_nontrivial :
  this (impl_log_p (Q2Qc (3#10)) exD exF exR) = (2051893701 # 800000000000000000)%Q
  /\ this (spec_log_p (Q2Qc (3#10)) exD exF exR) = (2051893701 # 800000000000000000)%Q
  /\ this (impl_log_p_one (Q2Qc (3#10)) c_default exD exF exR) = this (spec_log_p_one (Q2Qc (3#10)) c_default exD exF exR)
  /\ this (impl_log_p (Q2Qc (3#10)) exD exF' exR) = (2051893701 # 800000000000000000)%Q.
Proof. repeat split; vm_compute; reflexivity. Qed.
Print Assumptions C03_nontrivial.

(* the premises of the invariance / clade theorems are satisfiable on that pair: exF and exF' are well-formed and equivalent *)
Example C03_nontrivial_equiv : wf exF /\ wf exF' /\ feq exF exF' /\ tree_eq exF exF'.
Proof. exact ex_equiv. Qed.
Print Assumptions C03_nontrivial_equiv.

(* the falsy-zero fall-through is exercised: with alpha = 1 and clones of size <= 2 the start value is exactly 1
   (log value 0.0), the fused path recomputes it and still agrees *)
Example C03_falsy_start_value :
  let F := mkF [Node [0;1] [Node [2] []]] [] in
  this (fst (alpha_crp 1 F)) = 1%Q
  /\ falsyQ (Some (fst (alpha_crp 1 F))) = true
  /\ this (fst (prior_both 1 c_default F)) = this (prior_log_p 1 F None None None).
Proof. repeat split; vm_compute; reflexivity. Qed.
Print Assumptions C03_falsy_start_value.

(* boundary witness: with outlier prior p = 1 the code's `outlier_prob != 0` test on the LOG value (log 1 = 0) skips the
   prior, so a clone point gets factor 1 where the statement gives (1-p)^size = 0; hence the premise p < 1 *)
Example C03_outlier_prob_one_refuted :
  let D := fun _ : nat => mkDP 1 1 [[Q2Qc (1#2)]] in
  let F := mkF [Node [0] []] [] in
  this (spec_log_p 1 D F [[Q2Qc (1#2)]]) = 0%Q /\ this (impl_log_p 1 D F [[Q2Qc (1#2)]]) = (1#2)%Q.
Proof. split; vm_compute; reflexivity. Qed.
Print Assumptions C03_outlier_prob_one_refuted.
