(* C10 - the reported per-clone CCFs lie on the grid, satisfy the sum constraint at every clone and at the top
   level, and attain the maximum total log-likelihood over all such assignments; prevalences are non-negative.
   Statements over the faithful model of process_trace/map.py in Model/MapDP.v (integer scores, per sample;
   samples are processed independently by the code).  The float half of the statement (prevalence >= -1e-12,
   ties decided by rounding) is validated by the harness, not proved.
   [ffeas f k w]: every clone's index >= the sum of its children's indices, top-level indices sum to <= k
   (Model/Marginal.v, shared with C02).  Statements only; proofs live in Proofs/MapDPProofs.v. *)
From PV Require Import Model.MapDP Proofs.MarginalSums Proofs.MapDPProofs.

(* one index per clone, on the grid, feasible with the virtual root at the last grid point (CCF one) *)
Theorem C10_feasible : forall (G : nat) (f : list ztree), (1 <= G)%nat ->
  length (map_assign G f) = sizes f
  /\ Forall (fun i => (i < G)%nat) (map_assign G f)
  /\ ffeas f (G - 1) (map_assign G f) = true.
Proof. exact map_assign_feasible. Qed.
Print Assumptions C10_feasible.

(* every feasible assignment (of any forest, any grid size, any integer log-likelihood grids) scores at most
   what the traced assignment scores *)
Theorem C10_optimal : forall (G : nat) (f : list ztree) (w : list nat), (1 <= G)%nat ->
  ffeas f (G - 1) w = true -> (fscore f w <= fscore f (map_assign G f))%Z.
Proof. exact map_assign_optimal. Qed.
Print Assumptions C10_optimal.

(* clonal prevalence = own fraction minus the children's fractions, never negative (exact arithmetic) *)
Theorem C10_prevalence_nonneg : forall (G : nat) (f : list ztree), (1 <= G)%nat ->
  Forall (fun p => 0 <= p) (fprevs G f (map_assign G f)).
Proof. intros G f HG. apply fprevs_nonneg. apply map_assign_feasible. exact HG. Qed.
Print Assumptions C10_prevalence_nonneg.

(* top-level clones' fractions sum to at most one *)
Theorem C10_top_level_at_most_one : forall (G : nat) (f : list ztree), (2 <= G)%nat ->
  sumq (map (ccf G) (tops f (map_assign G f))) <= 1.
Proof. intros G f HG. apply top_ccf_le_one; [exact HG|]. apply map_assign_feasible. lia. Qed.
Print Assumptions C10_top_level_at_most_one.

(* ---- non-vacuity: a forest where taking every clone's own best grid point is infeasible ---- *)
Open Scope Z_scope.
Definition ex_f : list ztree :=
  [ Node [0; 1; 2; 9] [ Node [0; 0; 7; 1] []; Node [0; 5; 0; 8] [ Node [1; 0; 0; 6] [] ] ]; Node [0; 3; 4; 2] [] ].
Example C10_nontrivial :
  map_assign 4 ex_f = [3; 0; 3; 3; 0]%nat
  /\ fscore ex_f (map_assign 4 ex_f) = 23
  /\ forallb (fun w => negb (ffeas ex_f 3 w) || (fscore ex_f w <=? 23)) (all_vecs 4 (sizes ex_f)) = true
  /\ length (filter (ffeas ex_f 3) (all_vecs 4 (sizes ex_f))) = 56%nat
  /\ ffeas ex_f 3 [3; 2; 3; 3; 2]%nat = false.
Proof. repeat split; vm_compute; reflexivity. Qed.
Print Assumptions C10_nontrivial.

(* tie-breaks of the pinned code on an all-flat grid: the running maximum keeps the smallest total (0), so every
   clone is reported at CCF 0 *)
Example C10_flat_grid_all_zero :
  map_assign 3 [Node [0; 0; 0] [Node [0; 0; 0] []; Node [0; 0; 0] []]] = [0; 0; 0]%nat.
Proof. vm_compute. reflexivity. Qed.
Print Assumptions C10_flat_grid_all_zero.
