(* C18 - a seeded run is reproducible regardless of scheduling and hash seed.

   Full statement (about the real program): for every input and option set, `phyclone run --seed S` produces the same
   per-chain traces whatever PYTHONHASHSEED, the CPU affinity, and the order in which the worker processes start or
   finish.
   Proved here (all completion orders, any number of chains, any run_chain): the dictionary assembled from the
   as_completed loop is independent of the arrival order, and chain i's entry is run_chain on stream i alone.
   PARTIAL: the model has no notion of hash seed, OS scheduling, numba/BLAS threading or process start-up; that
   run_phyclone_chain is a function of (inputs, chain number, child stream) only is exactly what the harness tests on
   the real command line (hash seeds, affinity, forced start/completion orders), not a theorem. *)
From PV Require Import Model.Chains Proofs.ChainsProofs.
Open Scope nat_scope.

Theorem C18_assembly_order_free_partial :
  forall (I St Tr : Type) (run_chain : I -> nat -> St -> Tr) inp (streams : list St) o1 o2,
  Permutation o1 (chain_results I St Tr run_chain inp streams) ->
  Permutation o2 (chain_results I St Tr run_chain inp streams) ->
  forall k, assemble o1 k = assemble o2 k.
Proof. exact assembly_order_free. Qed.
Print Assumptions C18_assembly_order_free_partial.

Theorem C18_chain_isolated_partial :
  forall (I St Tr : Type) (run_chain : I -> nat -> St -> Tr) inp (streams streams' : list St) o o' i s,
  nth_error streams i = Some s -> nth_error streams' i = Some s ->
  Permutation o (chain_results I St Tr run_chain inp streams) ->
  Permutation o' (chain_results I St Tr run_chain inp streams') ->
  assemble o i = Some (run_chain inp i s) /\ assemble o' i = assemble o i.
Proof. exact chain_isolated. Qed.
Print Assumptions C18_chain_isolated_partial.

(* the general fact behind it: any two arrival orders of results with distinct chain numbers *)
Theorem C18_assemble_permutation_invariant : forall (Tr : Type) (l1 l2 : list (nat * Tr)),
  Permutation l1 l2 -> NoDup (map fst l1) -> forall k, assemble l1 k = assemble l2 k.
Proof. exact assemble_perm. Qed.
Print Assumptions C18_assemble_permutation_invariant.

(* distinctness of the chain numbers is needed: with a repeated key the later arrival wins *)
Example C18_duplicate_chain_numbers_refuted :
  assemble [(0, 1); (0, 2)] 0 = Some 2 /\ assemble [(0, 2); (0, 1)] 0 = Some 1.
Proof. exact duplicate_keys_order_matters. Qed.
Print Assumptions C18_duplicate_chain_numbers_refuted.

(* non-vacuity: three chains, two of the six completion orders, a run_chain that depends on input, number, stream *)
Example C18_nontrivial :
  let rc := fun (inp k s : nat) => inp + 10 * k + 100 * s in
  chain_results nat nat nat rc 7 [3; 1; 4] = [(0, 307); (1, 117); (2, 427)]
  /\ view 4 (assemble [(2, 427); (0, 307); (1, 117)]) = [Some 307; Some 117; Some 427; None]
  /\ view 4 (assemble [(1, 117); (2, 427); (0, 307)]) = [Some 307; Some 117; Some 427; None].
Proof. repeat split; vm_compute; reflexivity. Qed.
Print Assumptions C18_nontrivial.
