(* C12 - result tables list every mutation once per sample, consistent with the tree.
   Model: Model/Table.v.  `result` is what a command writes (table rows + Newick structure), None when
   the pinned code raises. *)
From PV Require Import Model.Table Proofs.TableProofs.
Local Open Scope Z_scope.

(* the commands complete for every tree with at least one clone ... *)
Theorem C12_total : forall data clusters samples vals t, troots t <> [] ->
  result data clusters samples vals t = Some (result_fixed data clusters samples vals t).
Proof. exact result_total. Qed.
Print Assumptions C12_total.

(* ... and for no tree without a clone (every data point an outlier): KeyError 'root' in the graph
   conversion.  This refutes the last sentence of the property on the pinned code. *)
Theorem C12_all_outliers_none : forall data clusters samples vals t, troots t = [] ->
  result data clusters samples vals t = None.
Proof. exact result_all_outliers. Qed.
Print Assumptions C12_all_outliers_none.

Example C12_all_outliers_refuted :
  result [10; 11; 12]%nat None [0; 1]%nat (fun _ => ([], [])) (mkT [] [0; 1; 2]%nat) = None
  /\ fst (result_fixed [10; 11]%nat None [0]%nat (fun _ => ([], [])) (mkT [] [0; 1]%nat))
     = [mkC 10 (-1) None 0 minus_one minus_one; mkC 11 (-1) None 0 minus_one minus_one].
Proof. split; vm_compute; reflexivity. Qed.
Print Assumptions C12_all_outliers_refuted.
