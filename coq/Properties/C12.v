(* C12 - result tables list every mutation once per sample, consistent with the tree.
   Model: Model/Table.v.  `result` is what a command of the pinned code writes (table rows + Newick structure),
   None when it raises; `result_fixed` is the same with the graph conversion repaired (graph nodes added
   independently of the edge list).  The row theorems are stated on `result_fixed` for EVERY tree; by C12_total
   they are statements about the pinned code's output for every tree with at least one clone (C12_on_pinned).
   wf_tree data t : DataPoint names are distinct, the tree's data indices are distinct and index `data`.
   wf_clusters cl : every mutation of the cluster file is listed under one cluster. *)
From PV Require Import Model.Table Proofs.TableProofs Proofs.TableRows.
Local Open Scope Z_scope.

(* the commands complete for every tree with at least one clone ... *)
Theorem C12_total : forall data clusters samples vals t, troots t <> [] ->
  result data clusters samples vals t = Some (result_fixed data clusters samples vals t).
Proof. exact result_total. Qed.
Print Assumptions C12_total.
(* ... and whatever the pinned code writes is result_fixed *)
Theorem C12_on_pinned : forall data clusters samples vals t x,
  result data clusters samples vals t = Some x -> x = result_fixed data clusters samples vals t.
Proof. exact result_some. Qed.
Print Assumptions C12_on_pinned.

(* ... and for NO tree without a clone (every data point an outlier): KeyError 'root' in the graph
   conversion.  This refutes the last sentence of the property on the pinned code. *)
Theorem C12_all_outliers_none : forall data clusters samples vals t, troots t = [] ->
  result data clusters samples vals t = None.
Proof. exact result_all_outliers. Qed.
Print Assumptions C12_all_outliers_none.

(* every input mutation exactly once per sample, and nothing else - unclustered: the DataPoint names *)
Theorem C12_each_once : forall data samples vals t, wf_tree data t -> NoDup samples ->
  let tb := fst (result_fixed data None samples vals t) in
  (forall m s, In m data -> In s samples -> count_rows m s tb = 1%nat)
  /\ (forall row, In row tb -> In (c_mut row) data /\ In (c_sample row) samples).
Proof. exact each_once_unclustered. Qed.
Print Assumptions C12_each_once.
(* clustered: every mutation of the cluster file (also those whose cluster has no data point: outlier fill-in) *)
Theorem C12_each_once_clustered : forall data clusters samples vals t,
  wf_tree data t -> wf_clusters clusters -> NoDup samples ->
  let tb := fst (result_fixed data (Some clusters) samples vals t) in
  (forall m s, In m (map fst clusters) -> In s samples -> count_rows m s tb = 1%nat)
  /\ (forall row, In row tb -> In (c_mut row) (map fst clusters) /\ In (c_sample row) samples).
Proof. exact each_once_clustered. Qed.
Print Assumptions C12_each_once_clustered.

(* every clone id of the table is -1 or a node of the accompanying Newick tree *)
Theorem C12_clone_ids_in_newick : forall data clusters samples vals t row,
  In row (fst (result_fixed data clusters samples vals t)) ->
  c_clone row = -1 \/ exists l, c_clone row = Z.of_nat l
                               /\ In (Some l) (nw_labels (snd (result_fixed data clusters samples vals t))).
Proof. exact clone_ids_in_newick. Qed.
Print Assumptions C12_clone_ids_in_newick.

(* all mutations of a cluster share one clone *)
Theorem C12_cluster_shares_clone : forall data clusters samples vals t, wf_tree data t -> wf_clusters clusters ->
  forall r1 r2, In r1 (fst (result_fixed data (Some clusters) samples vals t)) ->
                In r2 (fst (result_fixed data (Some clusters) samples vals t)) ->
                c_cluster r1 = c_cluster r2 -> c_clone r1 = c_clone r2.
Proof. exact cluster_shares_clone. Qed.
Print Assumptions C12_cluster_shares_clone.

(* CCF and clonal prevalence are -1 for outlier rows, otherwise the clone's values in the row's sample *)
Theorem C12_values : forall data clusters samples (vals : vals_t) t row,
  In row (fst (result_fixed data clusters samples vals t)) ->
  (c_clone row = -1 /\ c_ccf row = minus_one /\ c_prev row = minus_one)
  \/ exists l j, c_clone row = Z.of_nat l /\ In l (node_labels t)
                 /\ nth_error samples j = Some (c_sample row)
                 /\ c_ccf row = nth j (fst (vals l)) 0%Qc /\ c_prev row = nth j (snd (vals l)) 0%Qc.
Proof. exact values_fixed. Qed.
Print Assumptions C12_values.

(* ---- witnesses ---- *)
Example C12_all_outliers_refuted :
  result [10; 11; 12]%nat None [0; 1]%nat (fun _ => ([], [])) (mkT [] [0; 1; 2]%nat) = None
  /\ fst (result_fixed [10; 11]%nat None [0]%nat (fun _ => ([], [])) (mkT [] [0; 1]%nat))
     = [mkC 10 (-1) None 0 minus_one minus_one; mkC 11 (-1) None 0 minus_one minus_one].
Proof. split; vm_compute; reflexivity. Qed.
Print Assumptions C12_all_outliers_refuted.

(* non-vacuity: clustered input, two samples, a two-level tree with an outlier cluster and a cluster of the
   cluster file that has no data point (mutation 6 in cluster 9) *)
Definition ex_data : list nat := [0; 2; 5]%nat.                          (* cluster ids of the three data points *)
Definition ex_clusters : list (nat * nat) := [(1, 0); (2, 0); (3, 2); (4, 5); (5, 5); (6, 9)]%nat.
Definition ex_tree : tree := mkT [LNode 7 [1]%nat [LNode 3 [0]%nat []]] [2]%nat.
Definition ex_vals : vals_t := fun l => ([Q2Qc (1#1); Q2Qc (3#4)], [Q2Qc (1#2); Q2Qc (1#4)]).
Example C12_nontrivial :
  match result ex_data (Some ex_clusters) [0; 1]%nat ex_vals ex_tree with
  | Some (tb, nw) =>
      length tb = 12%nat
      /\ map (fun r => (c_mut r, c_clone r)) (filter (fun r => Nat.eqb (c_sample r) 0) tb)
         = [(3%nat, 7); (1%nat, 3); (2%nat, 3); (4%nat, -1); (5%nat, -1); (6%nat, -1)]
      /\ nw_edges nw = [(None, Some 7%nat); (Some 7%nat, Some 3%nat)]
  | None => False
  end
  /\ NoDup ex_data /\ wf_clusters ex_clusters.
Proof.
  split; [vm_compute; repeat split; reflexivity|].
  split; [repeat constructor; cbn; intuition discriminate|].
  unfold wf_clusters. cbn. repeat constructor; cbn; intuition discriminate.
Qed.
Print Assumptions C12_nontrivial.
