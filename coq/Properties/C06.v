(* C06 - incrementally maintained likelihoods equal a from-scratch rebuild.
   Model: Model/LTree.v (phyclone/tree/tree.py, tree_node.py with the cached log_p / log_r as state).
   The recursion S that combines the children's r vectors is universally quantified: staleness does not
   depend on what compute_log_S computes.  Statements only; proofs in Proofs/LTree{Base,Cons,Cache}.v.

   Reading guide:  cache_ok t  :=  at every clone  p = prior * (product of its data values)  and
   r = p (leaf) / p * S(children's r);  at the virtual root (when it has children) r = prior * S(roots' r).
   data_ok N t := every data value held by the tree is a positive vector of length N.
   edit_ok N e := the data an edit introduces is positive of length N (and a grafted SMC result is itself
   cache_ok).  step returns None where the Python raises. *)
From PV Require Import Model.LTree Model.LTreeConv Proofs.LTreeBase Proofs.LTreeCons Proofs.LTreeCache.
Open Scope nat_scope.

(* every edit of the grammar, from every cache_ok state, for every recursion S, grid size and data *)
Theorem C06_cache_ok_step : forall (Sf : list vec -> vec) (prior vone : vec) (N : nat) (e : edit) (t t' : ltree),
  length prior = N -> cache_ok Sf prior t -> data_ok N t -> edit_ok Sf prior N e ->
  step Sf prior vone e t = Some t' -> cache_ok Sf prior t' /\ data_ok N t'.
Proof. exact C06_step. Qed.
Print Assumptions C06_cache_ok_step.

(* every finite history (None = some edit raised; nothing is claimed then) *)
Theorem C06_all_histories : forall (Sf : list vec -> vec) (prior vone : vec) (N : nat) (es : list edit) (t0 t : ltree),
  length prior = N -> cache_ok Sf prior t0 -> data_ok N t0 -> Forall (edit_ok Sf prior N) es ->
  run Sf prior vone es t0 = Some t -> cache_ok Sf prior t.
Proof. intros Sf prior vone N es t0 t Hl Hc Hd He E. exact (proj1 (C06_run Sf prior vone N es t0 t Hl Hc Hd He E)). Qed.
Print Assumptions C06_all_histories.

(* cache_ok is "cached = freshly rebuilt", and what both joint densities read (the root vector, only when
   the tree has clones) is the rebuilt value *)
Theorem C06_cached_equals_fresh : forall Sf prior t,
  cache_ok Sf prior t ->
  troots (fresh Sf prior t) = troots t /\ root_lik (fresh Sf prior t) = root_lik t.
Proof. intros Sf prior t H. split; [apply cache_ok_fresh_roots| apply cache_ok_fresh_lik]; exact H. Qed.
Print Assumptions C06_cached_equals_fresh.
Theorem C06_fresh_fixed_is_cache_ok : forall Sf prior t,
  troots (fresh Sf prior t) = troots t -> (troots t <> [] -> rootr (fresh Sf prior t) = rootr t) ->
  cache_ok Sf prior t.
Proof. exact fresh_fixed_cache_ok. Qed.
Print Assumptions C06_fresh_fixed_is_cache_ok.
Theorem C06_densities_of_history : forall Sf prior vone N es t0 t,
  length prior = N -> cache_ok Sf prior t0 -> data_ok N t0 -> Forall (edit_ok Sf prior N) es ->
  run Sf prior vone es t0 = Some t -> root_lik (fresh Sf prior t) = root_lik t /\ troots (fresh Sf prior t) = troots t.
Proof.
  intros Sf prior vone N es t0 t Hl Hc Hd He E.
  pose proof (C06_all_histories Sf prior vone N es t0 t Hl Hc Hd He E) as H. split; [apply cache_ok_fresh_lik| apply cache_ok_fresh_roots]; exact H.
Qed.
Print Assumptions C06_densities_of_history.

(* the one place where the code does NOT recompute: add_data_point adds the value to log_r in place and
   restarts at the parent.  That is the recomputed value (r = p or r = p * S, and the factor commutes). *)
Theorem C06_add_in_place_is_recomputation : forall Sf prior d m,
  okn Sf prior m -> okn Sf prior (node_add d m).
Proof. exact node_add_okn. Qed.
Print Assumptions C06_add_in_place_is_recomputation.
(* remove_data_point subtracts from log_p only and restarts at the node itself; needs a non-zero value *)
Theorem C06_remove_then_recompute : forall Sf prior N i m,
  length prior = N -> okn Sf prior m -> Forall (okd N) (own m) -> okn Sf prior (node_remove Sf i m).
Proof. intros Sf prior N i m Hl. apply node_remove_okn. exact Hl. Qed.
Print Assumptions C06_remove_then_recompute.

(* ---- examples (kernel-checked by computation) -------------------------------------------------------- *)
Definition ex_d (i : nat) (a b c : Z) : dp := mkDP i [Q2Qc (a # 16); Q2Qc (b # 16); Q2Qc (c # 16)].
Definition ex_t0 : option ltree :=
  build 1 3 [SNode [ex_d 0 3 8 16] [SNode [ex_d 1 5 9 2] []; SNode [ex_d 2 7 7 1] []]] [ex_d 3 4 4 4].
Definition ex_hist : list hedit :=
  [HAddPoint (ex_d 4 6 1 12) (Some 1); HMovePoint 1 (Some 2); HNewCloneAdd [0] (ex_d 5 2 11 3);
   HPruneRegraft 2 None; HRelabel; HMovePoint 3 (Some 4); HSubtreeResample (Some 5) [SNode [ex_d 0 3 8 16; ex_d 4 6 1 12] [SNode [ex_d 5 2 11 3] []]] [ex_d 3 4 4 4];
   HToFromDict; HUpdate].

(* non-vacuity: a three-clone tree with an outlier is cache_ok, a nine-edit history over every kind of edit
   runs without raising, and the result is cache_ok with three clones and all six data points *)
Example C06_nonvacuous :
  match ex_t0 with
  | Some t0 => cache_okb (Sconv 1 3) (cprior 1 3) t0
               && match hrun 1 3 ex_hist t0 with
                  | Some t => cache_okb (Sconv 1 3) (cprior 1 3) t && (num_nodes t =? 3) && (length (points t) =? 6)
                  | None => false end
  | None => false end = true.
Proof. vm_compute. reflexivity. Qed.
Print Assumptions C06_nonvacuous.

(* sensitivity (not a defect of /repo): had add_data_point left log_r alone, restarting the recomputation
   at the parent would leave the node itself stale *)
Example C06_stale_variant_refuted :
  let leaf := LNode 0 [ex_d 0 3 8 16] (pfresh (cprior 1 3) [ex_d 0 3 8 16]) (pfresh (cprior 1 3) [ex_d 0 3 8 16]) [] in
  oknb (Sconv 1 3) (cprior 1 3) leaf = true
  /\ oknb (Sconv 1 3) (cprior 1 3) (node_add (ex_d 1 5 9 2) leaf) = true
  /\ oknb (Sconv 1 3) (cprior 1 3) (node_add_stale (ex_d 1 5 9 2) leaf) = false.
Proof. vm_compute. repeat split; reflexivity. Qed.
Print Assumptions C06_stale_variant_refuted.
